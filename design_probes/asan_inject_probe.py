import sys, importlib.machinery, importlib.util, warnings
p = '/tmp/asanprobe/_canneal.cpython-312-x86_64-linux-gnu.so'
loader = importlib.machinery.ExtensionFileLoader('qubovert.sim._canneal', p)
spec = importlib.util.spec_from_file_location('qubovert.sim._canneal', p, loader=loader)
mod = importlib.util.module_from_spec(spec); loader.exec_module(mod)
sys.modules['qubovert.sim._canneal'] = mod
import qubovert as qv
from qubovert.sim import anneal_puso, anneal_quso, _anneal
print(_anneal.c_anneal_puso.__module__, sys.modules['qubovert.sim._canneal'].__file__)
warnings.simplefilter("ignore")
print(anneal_quso({(0,1):1,(1,2):-1,(0,):.5}, num_anneals=2, seed=3)[0].value)
print(anneal_puso({(0,1,2):1,(1,2):-1,(0,):.5}, num_anneals=2, seed=3)[0].value)
if len(sys.argv)>1:
    anneal_puso({(0,1,1):1,(2,):1,(3,4,5):2.}, num_anneals=3, seed=1)
