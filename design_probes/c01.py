import itertools, random, sys, warnings
import numpy as np
warnings.simplefilter('ignore')
from qubovert import PUBO, PUSO
random.seed(int(sys.argv[1]) if len(sys.argv)>1 else 0)
def table(Q, n, spin=False):
    N = 1<<n; idx = np.arange(N)
    bits = [((idx>>i)&1) for i in range(n)]
    if spin: bits = [1-2*b for b in bits]
    out = np.zeros(N)
    for k,v in Q.items():
        t = np.ones(N)
        for i in k: t = t*bits[i]
        out += v*t
    return out
bad=0; cases=0; anc_hist={}
for case in range(1500):
    n = random.randint(3,6)
    labs = random.sample(['a','b','c','d','e','f',0,1,2,(1,'x')], n)
    spin = random.random()<.5
    M = (PUSO if spin else PUBO)()
    for _ in range(random.randint(1,6)):
        k = tuple(random.sample(labs, random.randint(1,min(5,n))))
        M[k] += random.choice([-4,-2,-1,-.5,1,1.5,3,5])
    M.refresh()
    if M.num_binary_variables==0: continue
    deg = random.choice([2,2,3])
    prs=None
    if random.random()<.4:
        vs=list(M.variables)
        if len(vs)>=2: prs={tuple(random.sample(vs,2)) for _ in range(2)}
    lamchoice = random.choice(['none','big','call'])
    lam = None if lamchoice=='none' else (1000 if lamchoice=='big' else (lambda v: abs(v)))
    form = random.choice(['qubo','quso','pubo','puso'])
    if form=='qubo': D = M.to_qubo(lam=lam,pairs=prs)
    elif form=='quso': D = M.to_quso(lam=lam,pairs=prs)
    elif form=='pubo': D = M.to_pubo(deg,lam=lam,pairs=prs)
    else: D = M.to_puso(deg,lam=lam,pairs=prs)
    dspin = form in ('quso','puso')
    nm = M.num_binary_variables
    nd = (max(D.variables)+1) if D.variables else 0
    nd = max(nd,nm)
    if nd>16: continue
    cases+=1; anc_hist[nd-nm]=anc_hist.get(nd-nm,0)+1
    if D.degree > (2 if form in('qubo','quso') else deg): print("DEG",dict(M),form,deg); bad+=1
    dv = table(D, nd, dspin)
    # M on its own enumerated form
    Me = M.to_puso() if spin else M.to_pubo()
    mv = table(Me, nm, spin)   # indexed by bits of M's mapping ints; boolean bit b <-> spin 1-2b same index
    # conv: index of D assignment -> index of M assignment = low nm bits
    idx = np.arange(1<<nd) & ((1<<nm)-1)
    lower = dv - mv[idx]
    if lower.min() < -1e-9:
        i=int(lower.argmin()); print("UNDERCUT",dict(M),M.mapping,form,deg,prs,lamchoice,i,dv[i],mv[idx[i]],dict(D)); bad+=1
    # extension exists
    mins = np.full(1<<nm, np.inf)
    np.minimum.at(mins, idx, np.abs(lower))
    if mins.max()>1e-9: print("NOEXT",dict(M),form,deg,prs,lamchoice); bad+=1
    # check convert_solution agrees with low-bits convention on one random s
    i = random.randrange(1<<nd)
    s = [(i>>j)&1 for j in range(nd)]
    if dspin: s=[1-2*b for b in s]
    x = M.convert_solution(s, spin=dspin)
    if abs(M.value(x) - mv[idx[i]])>1e-9: print("CONV",dict(M),form,s,x); bad+=1
    if bad>5: break
print("cases",cases,"bad",bad,"ancilla hist",sorted(anc_hist.items()))
