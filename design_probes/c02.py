import itertools, random, warnings, sys
import qubovert as qv
from qubovert import PCBO, PUBO
from qubovert.utils import QUBOVertWarning
random.seed(int(sys.argv[1]) if len(sys.argv)>1 else 0)
REL = {'eq':lambda v:v==0,'ne':lambda v:v!=0,'lt':lambda v:v<0,'le':lambda v:v<=0,'gt':lambda v:v>0,'ge':lambda v:v>=0}
def randpoly(n):
    P = {}
    labs = ['x%d'%i for i in range(n)]
    for _ in range(random.randint(1,5)):
        k = tuple(sorted(random.sample(labs, random.randint(0,min(3,n)))))
        P[k] = P.get(k,0)+random.randint(-3,3)
    shape = random.random()
    if shape < .15:
        P = {(l,):1 for l in labs}; P[()] = -random.randint(1,2)
    elif shape < .25:
        P = {(labs[0],):1, tuple(labs[1:3]):-1}
    elif shape < .35:
        P = {(labs[0],):-1, tuple(labs[1:3]):-1, ():1}
    elif shape < .45:
        P = {(l,):random.randint(1,3) for l in labs}; P[()] = -random.randint(1,4)
    return {k:v for k,v in P.items() if v}
bad=0; n_cases=0; cats={}
for case in range(3000):
    n = random.randint(1,4)
    P = randpoly(n)
    R = random.choice(list(REL))
    lam = random.choice([1,2,.5,3])
    log_trick = random.random()<.5
    labs = sorted({l for k in P for l in k})
    vals = [qv.utils.pubo_value(dict(zip(labs,x)),P) for x in itertools.product((0,1),repeat=len(labs))]
    tmin,tmax = (min(vals),max(vals)) if vals else (0,0)
    b = random.random()
    if b<.4: bounds=None
    elif b<.6: bounds=(tmin-random.randint(0,2), tmax+random.randint(0,2))
    elif b<.8: bounds=(tmin,None)
    else: bounds=(None,tmax)
    kw = dict(lam=lam, bounds=bounds)
    if R!='eq': kw['log_trick']=log_trick
    with warnings.catch_warnings(record=True) as w:
        warnings.simplefilter('always')
        H = PCBO()
        getattr(H,'add_constraint_%s_zero'%R)(P, **kw)
    msgs=[str(x.message) for x in w]
    unsat = any('cannot' in m for m in msgs)
    anc = sorted(v for v in H.variables if str(v).startswith('__a'))
    xs = labs
    if len(anc)>14: continue
    n_cases+=1
    for x in itertools.product((0,1),repeat=len(xs)):
        xd = dict(zip(xs,x)); pv = qv.utils.pubo_value(xd,P); sat = REL[R](pv)
        fmin = None
        for a in itertools.product((0,1),repeat=len(anc)):
            s = dict(xd); s.update(zip(anc,a)); f = H.value(s)
            if f < -1e-9: print("NEG", P,R,kw,s,f); bad+=1
            fmin = f if fmin is None else min(fmin,f)
        if H.is_solution_valid(xd)!=sat: print("VALID", P,R,kw,xd); bad+=1
        if unsat: continue
        if sat and abs(fmin)>1e-9: print("SAT-NONZERO",P,R,kw,xd,fmin,msgs); bad+=1
        if not sat and fmin < lam-1e-9: print("UNSAT-LOW",P,R,kw,xd,fmin,msgs); bad+=1
    if bad>5: break
print("cases",n_cases,"bad",bad)
