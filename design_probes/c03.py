import itertools, random, warnings, sys
import qubovert as qv
from qubovert import PCSO
random.seed(int(sys.argv[1]) if len(sys.argv)>1 else 0)
REL = {'eq':lambda v:v==0,'ne':lambda v:v!=0,'lt':lambda v:v<0,'le':lambda v:v<=0,'gt':lambda v:v>0,'ge':lambda v:v>=0}
bad=0; n_cases=0; multi=0
for case in range(1500):
    n = random.randint(1,4); labs=['z%d'%i for i in range(n)]
    H=PCSO(); seen=set(); recs=[]
    for ci in range(random.randint(1,2)):
        P={}
        for _ in range(random.randint(1,4)):
            k=tuple(sorted(random.sample(labs,random.randint(0,min(3,n))))); P[k]=P.get(k,0)+random.randint(-3,3)
        P={k:v for k,v in P.items() if v}
        R=random.choice(list(REL)); lam=random.choice([1,2,.5]); lt=random.random()<.5
        kw=dict(lam=lam)
        if R!='eq': kw['log_trick']=lt
        before=PCSO(H)
        with warnings.catch_warnings(record=True) as w:
            warnings.simplefilter('always')
            getattr(H,'add_constraint_%s_zero'%R)(P,**kw)
        unsat=any('cannot' in str(x.message) for x in w)
        D=H-before
        anc=sorted({v for k in D for v in k if str(v).startswith('__a')})
        if set(anc)&seen: print("ANC REUSE",anc,seen); bad+=1
        seen|=set(anc)
        if H.num_ancillas < len(seen): print("NUMANC",H.num_ancillas,seen); bad+=1
        recs.append((P,R))
        if len(anc)>12: continue
        n_cases+=1; multi+= ci>0
        for z in itertools.product((1,-1),repeat=n):
            zd=dict(zip(labs,z)); pv=qv.utils.puso_value(zd,P); sat=REL[R](pv); fmin=None
            for a in itertools.product((1,-1),repeat=len(anc)):
                s=dict(zd); s.update(zip(anc,a)); f=D.value(s)
                if f<-1e-9: print("NEG",P,R,kw,s,f); bad+=1
                fmin=f if fmin is None else min(f,fmin)
            if unsat: continue
            if sat and abs(fmin)>1e-9: print("SAT-NONZERO",P,R,kw,zd,fmin); bad+=1
            if not sat and fmin<lam-1e-9: print("UNSAT-LOW",P,R,kw,zd,fmin); bad+=1
    for z in itertools.product((1,-1),repeat=n):
        zd=dict(zip(labs,z))
        if H.is_solution_valid(zd)!=all(REL[R](qv.utils.puso_value(zd,P)) for P,R in recs): print("VALID",recs,zd); bad+=1
    if bad>5: break
print("cases",n_cases,"multi",multi,"bad",bad)
