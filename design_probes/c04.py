import random, sys, warnings, itertools
warnings.simplefilter('ignore')
from qubovert import *
from qubovert.utils import *
from ref import *
from fractions import Fraction as F
rnd=random.Random(int(sys.argv[1]) if len(sys.argv)>1 else 0)
def b2s(p):  # bool poly -> spin poly
    q=Poly('spin')
    for k,v in p.d.items():
        t=Poly('spin',{():v})
        for x in k: t=t*Poly('spin',{():F(1,2),(x,):F(-1,2)})
        q=q+t
    return q
def s2b(p):
    q=Poly('bool')
    for k,v in p.d.items():
        t=Poly('bool',{():v})
        for x in k: t=t*Poly('bool',{():1,(x,):-2})
        q=q+t
    return q
stats={}
def note(t,i): stats.setdefault(t,[0,i])[0]+=1
n=0
for case in range(6000):
    f=rnd.choice([pubo_to_puso,puso_to_pubo,qubo_to_quso,quso_to_qubo])
    src_kind='bool' if f in (pubo_to_puso,qubo_to_quso) else 'spin'
    deg2=f in (qubo_to_quso,quso_to_qubo)
    types={'bool':[dict,QUBO,PUBO,PCBO,QUBOMatrix,PUBOMatrix],'spin':[dict,QUSO,PUSO,PCSO,QUSOMatrix,PUSOMatrix]}[src_kind]
    if deg2: types=[t for t in types if t in (dict,QUBO,QUSO,QUBOMatrix,QUSOMatrix)]
    T=rnd.choice(types)
    ints = T is dict and rnd.random()<.5 or (T is not dict and T.__name__.endswith('Matrix'))
    labs=[0,1,3,6] if ints else rnd.choice([['a','b','c'],[0,'x',(1,2),-1]])
    m=T()
    for _ in range(rnd.randint(0,5)):
        k=tuple(rnd.choice(labs) for _ in range(rnd.randint(0,2 if (deg2 or T in (QUBO,QUSO,QUBOMatrix,QUSOMatrix)) else 4)))
        v=rnd.choice([-2,-1,1,2,.5,4])
        try:
            if T is dict: m[k]=m.get(k,0)+v
            else: m[k]+=v
        except KeyError: pass
    src=from_model(src_kind,m)
    if deg2 and src.degree()>2: continue
    try: r=f(m)
    except Exception as e: note(('EXC',f.__name__,T.__name__,repr(e)[:60]),dict(m)); continue
    n+=1
    exp=b2s(src) if src_kind=='bool' else s2b(src)
    got=from_model(exp.kind,r)
    if got!=exp: note(('FUNC',f.__name__,T.__name__),(dict(m),dict(r),exp.d))
    match={pubo_to_puso:(PUBOMatrix,PUSOMatrix,PUSO),puso_to_pubo:(PUSOMatrix,PUBOMatrix,PUBO),qubo_to_quso:(QUBOMatrix,QUSOMatrix,QUSO),quso_to_qubo:(QUSOMatrix,QUBOMatrix,QUBO)}[f]
    if T is match[0]:
        if type(r) is not match[1]: note(('TYPE-mat',f.__name__,T.__name__,type(r).__name__),())
    elif T is dict or not T.__name__.endswith('Matrix'):
        if type(r) is not match[2]: note(('TYPE-lab',f.__name__,T.__name__,type(r).__name__),())
for k,(c,i) in sorted(stats.items(),key=lambda x:-x[1][0]): print(c,k,str(i)[:250])
print("n",n)
