import random, sys, warnings, copy
warnings.simplefilter('ignore')
import qubovert as qv
from qubovert import *
from qubovert.utils import *
from ref import *
from fractions import Fraction as F
rnd=random.Random(int(sys.argv[1]) if len(sys.argv)>1 else 0)
BOOL=[QUBO,PUBO,PCBO,QUBOMatrix,PUBOMatrix]; SPIN=[QUSO,PUSO,PCSO,QUSOMatrix,PUSOMatrix]
def rmodel(kind,T,deg2):
    ints = T.__name__.endswith('Matrix')
    labs = [0,1,2,5] if ints else rnd.choice([[0,1,2,'a'],['x','y','z',(1,'q')],[-1,0,'a',2.5]])
    m=T()
    for _ in range(rnd.randint(0,4)):
        k=tuple(rnd.choice(labs) for _ in range(rnd.randint(0,2 if deg2 else 3)))
        try: m[k]+=rnd.choice([-2,-1,.5,1,3])
        except KeyError: pass
    return m
def is2(T): return T in (QUBO,QUSO,QUBOMatrix,QUSOMatrix)
bad=0; n=0; ops_count={}; ke=0
for case in range(6000):
    kind=rnd.choice(['bool','spin']); types=BOOL if kind=='bool' else SPIN
    T=rnd.choice(types); a=rmodel(kind,T,is2(T))
    ra=from_model(kind,a)
    op=rnd.choice(['add','radd','iadd','sub','rsub','isub','mul','rmul','imul','pow','neg','div','idiv'])
    # other operand
    ok=rnd.choice(['model','dict','num','self'])
    if ok=='model':
        T2=rnd.choice(types); b=rmodel(kind,T2,is2(T2))
        if T.__name__.endswith('Matrix') and not T2.__name__.endswith('Matrix'):
            if any(not isinstance(x,int) or x<0 for k in b for x in k): continue
        rb=from_model(kind,b)
    elif ok=='dict':
        bm=rmodel(kind,T,is2(T)); b={tuple(rnd.sample(k,len(k))):v for k,v in bm.items()}; rb=from_model(kind,b)
    elif ok=='num':
        b=rnd.choice([0,1,-1,2,.5,-3]); rb=Poly(kind,{():b})
    else:
        b=a; rb=ra
    sa=dict(a); sb=dict(b) if isinstance(b,dict) else b
    try:
        exp=None
        if op=='add': r=a+b; exp=ra+rb
        elif op=='radd':
            if ok in('model','self'): continue
            r=b+a; exp=ra+rb
        elif op=='iadd':
            r=a; r+=b; exp=ra+rb
        elif op=='sub': r=a-b; exp=ra-rb
        elif op=='rsub':
            if ok in('model','self'): continue
            r=b-a; exp=rb-ra
        elif op=='isub':
            if ok=='self': continue
            r=a; r-=b; exp=ra-rb
        elif op=='mul': r=a*b; exp=ra*rb
        elif op=='rmul':
            if ok in('model','self'): continue
            r=b*a; exp=ra*rb
        elif op=='imul': r=a; r*=b; exp=ra*rb
        elif op=='pow':
            e=rnd.randint(1,3); r=a**e; exp=ra**e
        elif op=='neg': r=-a; exp=ra.scale(-1)
        elif op=='div':
            c=rnd.choice([2,-4,.5]); r=a/c; exp=ra.scale(1/F(c))
        elif op=='idiv':
            c=rnd.choice([2,-4,.5]); r=a; r/=c; exp=ra.scale(1/F(c))
    except KeyError as e:
        if is2(T) and exp is None:
            # compute expected degree
            ke+=1; continue
        print("KEYERR",T.__name__,op,ok,sa,sb,e); bad+=1; continue
    except Exception as e:
        print("EXC",T.__name__,op,ok,sa,sb,repr(e)); bad+=1; continue
    n+=1; ops_count[op]=ops_count.get(op,0)+1
    got=from_model(kind,r)
    if got!=exp: print("MISMATCH",T.__name__,op,ok,sa,sb,dict(r),exp.d); bad+=1
    if type(r) is not T: print("TYPE",T.__name__,type(r).__name__,op,ok); bad+=1
    for k in r:
        if k!=type(r).squash_key(k) or not r[k]: print("NONCANON",T.__name__,op,k); bad+=1
    if op in('add','sub','mul','pow','neg','div','radd','rsub','rmul'):
        if dict(a)!=sa: print("MUT-A",T.__name__,op,ok); bad+=1
        if isinstance(b,dict) and dict(b)!=sb: print("MUT-B",T.__name__,op,ok); bad+=1
    if bad>8: break
print("n",n,"keyerr",ke,"bad",bad,ops_count)
