import random, sys, warnings, itertools
warnings.simplefilter('ignore')
from qubovert import *
from qubovert.sat import *
rnd=random.Random(int(sys.argv[1]) if len(sys.argv)>1 else 0)
G={'AND':lambda v:all(v),'OR':lambda v:any(v),'XOR':lambda v:sum(v)%2==1,'NAND':lambda v:not all(v),'NOR':lambda v:not any(v),'XNOR':lambda v:sum(v)%2==0}
LIB={'AND':AND,'OR':OR,'XOR':XOR,'NAND':NAND,'NOR':NOR,'XNOR':XNOR,'NOT':NOT,'BUFFER':BUFFER}
LABS=['a','b','c','d',0,1]
def rexpr(depth):
    """returns (library operand, python evaluator)"""
    if depth==0 or rnd.random()<.5:
        l=rnd.choice(LABS)
        r=rnd.random()
        if r<.6: return l, (lambda x,l=l: x[l])
        if r<.8: return boolean_var(l), (lambda x,l=l: x[l])
        l2=rnd.choice(LABS)
        return {(l,):1,(l,l2):-1}, (lambda x,l=l,l2=l2: x[l]*(1-x[l2]))
    g=rnd.choice(list(G)+['NOT','BUFFER'])
    if g in('NOT','BUFFER'):
        o,f=rexpr(depth-1)
        return LIB[g](o), ((lambda x,f=f: 1-f(x)) if g=='NOT' else f)
    n=rnd.randint(1,3); subs=[rexpr(depth-1) for _ in range(n)]
    return LIB[g](*[s[0] for s in subs]), (lambda x,g=g,subs=subs: int(G[g]([s[1](x) for s in subs])))
bad=0;n=0;cnt={}
for case in range(3000):
    gate=rnd.choice(list(G)+['NOT','BUFFER']); eq=rnd.random()<.5
    lam=rnd.choice([.5,1,3])
    if gate in('NOT','BUFFER'): ar=1
    else: ar=rnd.randint(2 if eq else 1,4)
    ops=[rexpr(rnd.choice([0,0,1,2])) for _ in range(ar)]
    H=PCBO()
    name='add_constraint_'+('eq_' if eq else '')+gate
    if eq:
        a=rexpr(rnd.choice([0,0,1]))
        try: getattr(H,name)(a[0],*[o[0] for o in ops],lam=lam)
        except Exception as e: print("EXC",name,ar,repr(e)); bad+=1; continue
    else:
        try: getattr(H,name)(*[o[0] for o in ops],lam=lam)
        except Exception as e: print("EXC",name,ar,repr(e)); bad+=1; continue
    n+=1; cnt[name]=cnt.get(name,0)+1
    if any(str(v).startswith('__a') for v in H.variables): print("ANC",name); bad+=1
    for xs in itertools.product((0,1),repeat=len(LABS)):
        x=dict(zip(LABS,xs))
        vals=[o[1](x) for o in ops]
        if gate=='NOT': g=1-vals[0]
        elif gate=='BUFFER': g=vals[0]
        else: g=int(G[gate](vals))
        holds = (a[1](x)==g) if eq else bool(g)
        f=H.value(x)
        if holds and abs(f)>1e-9: print("NONZERO",name,ar,x,f); bad+=1; break
        if not holds and f<lam-1e-9: print("LOW",name,ar,x,f,lam); bad+=1; break
        if H.is_solution_valid(x)!=holds: print("VALID",name,ar,x); bad+=1; break
    if bad>8: break
print("n",n,"bad",bad,len(cnt))
