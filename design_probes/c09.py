import random, sys, warnings, itertools
warnings.simplefilter('ignore')
from qubovert import *
from qubovert.utils import *
rnd=random.Random(int(sys.argv[1]) if len(sys.argv)>1 else 0)
BOOL=[dict,QUBO,PUBO,PCBO,QUBOMatrix,PUBOMatrix]; SPIN=[dict,QUSO,PUSO,PCSO,QUSOMatrix,PUSOMatrix]
bad=0;n=0
for case in range(4000):
    spin=rnd.random()<.5; T=rnd.choice(SPIN if spin else BOOL)
    deg2=rnd.random()<.5
    fn={(False,True):solve_qubo_bruteforce,(False,False):solve_pubo_bruteforce,(True,True):solve_quso_bruteforce,(True,False):solve_puso_bruteforce}[(spin,deg2)]
    if T in (QUBO,QUSO,QUBOMatrix,QUSOMatrix): deg2=True; fn=solve_quso_bruteforce if spin else solve_qubo_bruteforce
    labs=[0,1,2,4] if (T is dict or T.__name__.endswith('Matrix')) else rnd.choice([['a','b','c','d'],[0,'x',(1,2),-1]])
    m=T()
    for _ in range(rnd.randint(0,5)):
        k=tuple(sorted(rnd.sample(labs,rnd.randint(0,2 if deg2 else 3)),key=lambda x:(str(type(x)),x)))
        v=rnd.choice([-2,-1,1,2])
        if T is dict:
            m[k]=m.get(k,0)+v
            if not m[k]: del m[k]
        else: m[k]+=v
    if T is not dict: m.refresh()
    vs=sorted({x for k in m for x in k},key=lambda x:(str(type(x)),x))
    pk=rnd.choice(['all','parity','none','one'])
    target=tuple(rnd.choice((1,-1) if spin else (0,1)) for _ in vs)
    def valid(x, pk=pk):
        if pk=='all': return True
        if pk=='none': return False
        if pk=='parity': return sum(1 for v in x.values() if v==1)%2==0
        return tuple(x[v] for v in vs)==target
    alls=rnd.random()<.5
    snap=dict(m)
    try: obj,sol=fn(m,alls,valid)
    except Exception as e: print("EXC",T.__name__,snap,pk,repr(e)); bad+=1; continue
    n+=1
    if dict(m)!=snap: print("MUTATED",T.__name__,snap,dict(m)); bad+=1
    valf=(lambda x: puso_value(x,snap)) if spin else (lambda x: pubo_value(x,snap))
    cands=[dict(zip(vs,a)) for a in itertools.product((1,-1) if spin else (0,1),repeat=len(vs))]
    const = not vs
    if const:
        exp_obj = snap.get((),0); exp=[{}]
    else:
        ok=[x for x in cands if valid(x)]
        if not ok: exp_obj=None; exp=None
        else:
            exp_obj=min(valf(x) for x in ok); exp=[x for x in ok if valf(x)==exp_obj]
    if obj!=exp_obj: print("OBJ",T.__name__,snap,pk,alls,obj,exp_obj); bad+=1; continue
    if exp is None: continue
    if alls:
        if sorted(map(lambda d:sorted(d.items(),key=str),sol))!=sorted(map(lambda d:sorted(d.items(),key=str),exp)): print("ALLSOL",T.__name__,snap,pk,sol,exp); bad+=1
    else:
        if sol not in exp: print("SOL",T.__name__,snap,pk,sol,exp); bad+=1
    if bad>8: break
print("n",n,"bad",bad)
