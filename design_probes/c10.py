import itertools, random, sys, warnings
import numpy as np
warnings.simplefilter('ignore')
from qubovert.problems import *
random.seed(int(sys.argv[1]) if len(sys.argv)>1 else 0)
def table(Q, n, spin=False):
    # returns array of values over all assignments of n vars (bit i of index = var i)
    N = 1<<n
    idx = np.arange(N)
    bits = [((idx>>i)&1) for i in range(n)]
    if spin: bits = [1-2*b for b in bits]
    out = np.zeros(N)
    for k,v in Q.items():
        t = np.ones(N)
        for i in k: t = t*bits[i]
        out += v*t
    return out, bits
def assign(i,n,spin=False):
    b=[(i>>j)&1 for j in range(n)]
    return [1-2*x for x in b] if spin else b
bad=0
# Graph partitioning
for case in range(300):
    N = random.choice([2,4,6])
    verts = list(range(N)) if random.random()<.5 else [chr(97+i) for i in range(N)]
    edges=set()
    for i in range(N):
        for j in range(i+1,N):
            if random.random()<.5: edges.add((verts[i],verts[j]))
    if {v for e in edges for v in e}!=set(verts): continue
    p = GraphPartitioning(edges)
    B = random.choice([1,2,.5])
    thr = B*min(2*p.degree, N)/8
    for A in (None, thr*1.01, thr+1):
        L = p.to_quso(A,B) if A is not None else p.to_quso(B=B)
        n = p.num_binary_variables
        vals,_ = table(L,n,True)
        m = vals.min(); gs = np.where(np.isclose(vals,m))[0]
        # optimal cut among balanced
        best=None
        for i in range(1<<n):
            z=assign(i,n,True)
            if sum(z)==0:
                sol=p.convert_solution(z)
                cut=sum(1 for (u,v) in edges if (u in sol[0])!=(v in sol[0]))
                best = cut if best is None else min(best,cut)
        feas=[g for g in gs if p.is_solution_valid(assign(g,n,True))]
        if not np.isclose(m, B*best): print("GP energy",edges,A,B,m,best); bad+=1
        if A is not None and len(feas)!=len(gs): print("GP infeasible gs",edges,A,B,thr); bad+=1
        if not feas: print("GP no feasible gs", edges,A,B); bad+=1
print("gp bad",bad)
# Job sequencing
bad=0
for case in range(60):
    nj = random.randint(1,3); m = random.randint(1,2)
    lengths=[random.randint(1,3) for _ in range(nj)]
    for lt in (True,False):
        p = JobSequencing(lengths, m, log_trick=lt)
        n = p.num_binary_variables
        if n>18: continue
        B = random.choice([1,2])
        thr = B*max(lengths)
        opt = None
        for asg in itertools.product(range(m),repeat=nj):
            mk = max(sum(l for l,a in zip(lengths,asg) if a==w) for w in range(m))
            opt = mk if opt is None else min(opt,mk)
        for A in (None, thr+.5, thr*2):
            Q = p.to_qubo(A,B) if A is not None else p.to_qubo(B=B)
            vals,_ = table(Q,n)
            mn = vals.min(); gs=np.where(np.isclose(vals,mn))[0]
            if not np.isclose(mn,B*opt): print("JS energy",lengths,m,lt,A,B,mn,opt); bad+=1
            feas=[g for g in gs if p.is_solution_valid(assign(g,n))]
            if A is not None and len(feas)!=len(gs): print("JS infeasible gs",lengths,m,lt,A,B); bad+=1
            if not feas: print("JS none feasible",lengths,m,lt,A,B); bad+=1
            for g in feas:
                sol=p.convert_solution(assign(g,n))
                mk=max(sum(lengths[j] for j in c) for c in sol)
                if mk!=opt and A is not None: print("JS nonoptimal gs",lengths,m,lt,A,B,sol); bad+=1
print("js bad",bad)
