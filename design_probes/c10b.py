import itertools, random, sys, warnings
import numpy as np
warnings.simplefilter('ignore')
from qubovert.problems import *
random.seed(int(sys.argv[1]) if len(sys.argv)>1 else 0)
def table(Q, n, spin=False):
    N = 1<<n; idx = np.arange(N)
    bits = [((idx>>i)&1) for i in range(n)]
    if spin: bits = [1-2*b for b in bits]
    out = np.zeros(N)
    for k,v in Q.items():
        t = np.ones(N)
        for i in k: t = t*bits[i]
        out += v*t
    return out
def assign(i,n,spin=False):
    b=[(i>>j)&1 for j in range(n)]
    return [1-2*x for x in b] if spin else b
stats={}
def note(t,i):
    stats.setdefault(t,[0,i])[0]+=1
# SetCover
for case in range(150):
    nU=random.randint(1,3); U=set(range(nU)) if random.random()<.5 else set('abc'[:nU])
    N=random.randint(1,4); Ul=sorted(U,key=str)
    V=[set(random.sample(Ul,random.randint(1,nU))) for _ in range(N)]
    if set().union(*V)!=U: continue
    w=None
    if random.random()<.4:
        w=[random.choice([.25,.5,1]) for _ in range(N)]; w[random.randrange(N)]=1
    for lt in (True,False):
        try: p=SetCover(U,V,weights=w,log_trick=lt)
        except Exception as e: note(('SC ctor',repr(e)),(U,V,w)); continue
        n=p.num_binary_variables
        if n>18: continue
        W=w or [1]*N
        best=min(sum(W[i] for i in c) for r in range(N+1) for c in itertools.combinations(range(N),r) if set().union(*[V[i] for i in c])==U)
        for A,B in ((2,1),(1.1,1),(3,2)):
            Q=p.to_qubo(A,B); vals=table(Q,n); m=vals.min(); gs=np.where(np.isclose(vals,m))[0]
            if not np.isclose(m,B*best): note(('SC energy',lt),(U,V,w,A,B,m,best))
            for g in gs:
                x=assign(g,n)
                if not p.is_solution_valid(x): note(('SC gs infeasible',lt),(U,V,w,A,B)); break
                if not np.isclose(sum(W[i] for i in p.convert_solution(x)),best): note(('SC gs nonopt',lt),(U,V,w)); break
        try:
            s=p.solve_bruteforce()
            if not p.is_solution_valid(s) or not np.isclose(sum(W[i] for i in s),best): note(('SC bf',),(U,V,w,s))
        except Exception as e: note(('SC bf exc',repr(e)),(U,V,w))
# VertexCover
for case in range(150):
    N=random.randint(2,6); verts=list(range(N)) if random.random()<.5 else ['v%d'%i for i in range(N)]
    edges={(verts[i],verts[j]) for i in range(N) for j in range(i+1,N) if random.random()<.5}
    if not edges: continue
    p=VertexCover(edges); n=p.num_binary_variables
    vv=sorted(p.V,key=str)
    best=min(r for r in range(len(vv)+1) for c in itertools.combinations(vv,r) if all(u in c or v in c for u,v in edges))
    for A,B in ((2,1),(1.01,1),(5,3)):
        Q=p.to_qubo(A,B); vals=table(Q,n); m=vals.min(); gs=np.where(np.isclose(vals,m))[0]
        if not np.isclose(m,B*best): note(('VC energy',),(edges,A,B,m,best))
        for g in gs:
            x=assign(g,n)
            if not p.is_solution_valid(x) or len(p.convert_solution(x))!=best: note(('VC gs',),(edges,A,B,x)); break
            if not p.is_solution_valid([1-2*b for b in x]) : note(('VC spin valid',),(edges,x)); break
    try:
        s=p.solve_bruteforce()
        if not p.is_solution_valid(s) or len(s)!=best: note(('VC bf',),(edges,s))
    except Exception as e: note(('VC bf exc',repr(e)),(edges,))
# BILP
for case in range(300):
    N=random.randint(1,4); m_=random.randint(1,2)
    c=[random.randint(-3,3) for _ in range(N)]; S=[[random.randint(-2,2) for _ in range(N)] for _ in range(m_)]
    xs=[random.randint(0,1) for _ in range(N)]; b=[sum(S[j][i]*xs[i] for i in range(N)) for j in range(m_)]
    p=BILP(c,S,b)
    feas=[x for x in itertools.product((0,1),repeat=N) if all(sum(S[j][i]*x[i] for i in range(N))==b[j] for j in range(m_))]
    best=min(sum(ci*xi for ci,xi in zip(c,x)) for x in feas)
    B=random.choice([1,2]); thr=B*sum(abs(v) for v in c)
    for A in (thr+.5, thr*2+1):
        Q=p.to_qubo(A,B); vals=table(Q,N); mn=vals.min(); gs=np.where(np.isclose(vals,mn))[0]
        if not np.isclose(mn,B*best): note(('BILP energy',),(c,S,b,A,B,mn,best))
        for g in gs:
            x=assign(g,N)
            if not p.is_solution_valid(x) or sum(ci*xi for ci,xi in zip(c,x))!=best: note(('BILP gs',),(c,S,b,A,B,x)); break
    for x in itertools.product((0,1),repeat=N):
        if p.is_solution_valid(list(x))!=(tuple(x) in feas): note(('BILP valid',),(c,S,b,x))
    try:
        s=p.solve_bruteforce(A=thr+1,B=B)
        if not p.is_solution_valid(s) or int(np.dot(c,s))!=best: note(('BILP bf',),(c,S,b,s))
    except Exception as e: note(('BILP bf exc',type(e).__name__),(c,S,b))
# NumberPartitioning
for case in range(200):
    N=random.randint(2,7); S=[random.randint(1,6)*random.choice([1,1,-1]) for _ in range(N)]
    if random.random()<.5: S=tuple(S)
    p=NumberPartitioning(S)
    L=p.to_quso(); vals=table(L,N,True); mn=vals.min()
    diffs=[abs(sum(s*z for s,z in zip(S,assign(i,N,True)))) for i in range(1<<N)]
    if not np.isclose(mn,min(diffs)**2): note(('NP energy',),(S,mn,min(diffs)))
    for i in range(1<<N):
        z=assign(i,N,True)
        if p.is_solution_valid(z)!=(diffs[i]==0): note(('NP valid',),(S,z))
        zb=assign(i,N,False)
        if p.is_solution_valid(zb)!=(diffs[i]==0): note(('NP valid bool',),(S,zb))
    if min(diffs)==0:
        try:
            s=p.solve_bruteforce()
            if not p.is_solution_valid(s): note(('NP bf',),(S,s))
        except Exception as e: note(('NP bf exc',repr(e)),(S,))
# ASC
for case in range(100):
    N=random.randint(2,9); cl=random.randint(2,4); mn_=random.randint(1,3); mx=random.randint(mn_,6)
    p=AlternatingSectorsChain(N,cl,mn_,mx)
    for pbc in (False,True):
        L=p.to_quso(pbc); vals=table(L,N,True); m=vals.min(); gs=set(np.where(np.isclose(vals,m))[0])
        if gs!={0,(1<<N)-1}: note(('ASC gs',pbc),(N,cl,mn_,mx,gs))
    for i in range(1<<N):
        z=assign(i,N,True)
        if p.is_solution_valid(z)!=(i in (0,(1<<N)-1)): note(('ASC valid',),(N,z))
        if p.is_solution_valid(dict(enumerate(assign(i,N))))!=(i in (0,(1<<N)-1)): note(('ASC valid dict bool',),(N,i))
    s=p.solve_bruteforce()
    if not p.is_solution_valid(s): note(('ASC bf',),(N,s))
for k,(c,i) in sorted(stats.items(),key=lambda x:-x[1][0]): print(c,k,str(i)[:250])
print("done")
