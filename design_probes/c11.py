import random, sys, warnings, itertools, math
warnings.simplefilter('ignore')
from qubovert import *
from qubovert.utils import *
from qubovert.sim import *
rnd=random.Random(int(sys.argv[1]) if len(sys.argv)>1 else 0)
stats={}; n=0
def note(tag, info):
    if tag not in stats: stats[tag]=[0,info]
    stats[tag][0]+=1
for case in range(4000):
    fn=rnd.choice([anneal_qubo,anneal_quso,anneal_pubo,anneal_puso])
    spin = fn in (anneal_quso,anneal_puso); deg2 = fn in (anneal_qubo,anneal_quso)
    types = ([dict,QUSO,QUSOMatrix] if deg2 else [dict,QUSO,PUSO,PCSO,QUSOMatrix,PUSOMatrix]) if spin else ([dict,QUBO,QUBOMatrix] if deg2 else [dict,QUBO,PUBO,PCBO,QUBOMatrix,PUBOMatrix])
    T=rnd.choice(types)
    mat = T is not dict and T.__name__.endswith('Matrix')
    labs=[0,1,3,6] if (mat or (T is dict and rnd.random()<.5)) else rnd.choice([['a','b','c','d'],[0,'x',(1,2),-1]])
    m=T()
    for _ in range(rnd.randint(0,6)):
        k=tuple(rnd.sample(labs,rnd.randint(0,2 if (deg2 or T in (QUSO,QUBO,QUSOMatrix,QUBOMatrix)) else 4)))
        v=rnd.choice([-2,-1,1,2,.5,0.75])
        if T is dict:
            k=tuple(sorted(k,key=lambda x:(str(type(x)),x)))
            m[k]=m.get(k,0)+v
            if not m[k]: del m[k]
        else: m[k]+=v
    if T is not dict: m.refresh()
    vs={x for k in m for x in k}
    if mat: keys=set(range(max(vs)+1)) if vs else set()
    else: keys=vs
    kw={}
    sch=rnd.choice(['linear','geometric','list','list0','empty'])
    if sch in('linear','geometric'):
        kw['schedule']=sch; kw['anneal_duration']=rnd.choice([1,2,10])
        if rnd.random()<.5: kw['temperature_range']=(rnd.choice([5,1,.5]), rnd.choice([.5,.1]))
    elif sch=='list': kw['schedule']=[rnd.choice([3,1,.2,0]) for _ in range(rnd.randint(1,5))]
    elif sch=='list0': kw['schedule']=[0]*rnd.randint(1,3)
    else: kw['schedule']=[]
    if rnd.random()<.5: kw['initial_state']={x: rnd.choice((1,-1) if spin else (0,1)) for x in keys}
    kw['in_order']=rnd.random()<.5
    kw['seed']=rnd.choice([None,0,5,2**31-1])
    na=rnd.choice([-1,0,1,3]); kw['num_anneals']=na
    try: res=fn(m,**kw)
    except Exception as e:
        note(('EXC',fn.__name__,T.__name__,type(e).__name__,str(e)[:50], 'empty' if not vs else 'nonempty'), (dict(m),kw)); continue
    n+=1
    if len(res)!=max(na,0): note(('LEN',fn.__name__),(dict(m),kw))
    valf=(lambda x: puso_value(x,m)) if spin else (lambda x: pubo_value(x,m))
    for r in res:
        if set(r.state)!=keys:
            note(('KEYS',fn.__name__,T.__name__),(dict(m),kw,r.state)); break
        if any(v not in ((1,-1) if spin else (0,1)) for v in r.state.values()): note(('VALS',fn.__name__),(dict(m),r.state)); break
        if r.spin!=spin: note(('FLAG',fn.__name__),()); break
        if abs(valf(r.state)-r.value)>1e-9: note(('VALUE',fn.__name__,T.__name__),(dict(m),kw,r.state,r.value)); break
        if 'initial_state' in kw and sch in('list0',) :
            if r.value > valf(kw['initial_state'])+1e-9: note(('T0-UP',fn.__name__),(dict(m),kw,r.value)); break
    if res and res.best.value!=min(r.value for r in res): note(('BEST',),())
    if kw['seed'] is not None:
        res2=fn(m,**kw)
        if [ (r.state,r.value) for r in res]!=[(r.state,r.value) for r in res2]: note(('NONDET',fn.__name__),(dict(m),kw))
for k,(c,info) in sorted(stats.items(),key=lambda x:-x[1][0]): print(c,k,str(info)[:300])
print("n ok",n)
