import numpy as np, time, warnings, itertools, math
warnings.simplefilter('ignore')
from qubovert.sim import anneal_quso, anneal_puso
from qubovert.utils import QUSOMatrix, PUSOMatrix
def energy(model, s):
    return sum(v*np.prod([s[i] for i in k]) for k,v in model.items())
def kernels(model, N, T):
    states = list(itertools.product((1,-1), repeat=N))
    idx = {s:i for i,s in enumerate(states)}
    Ks=[]
    for i in range(N):
        K = np.zeros((len(states),)*2)
        for s in states:
            t = list(s); t[i]*=-1; t=tuple(t)
            dE = energy(model,t)-energy(model,s)
            a = 1.0 if dE<=0 else (math.exp(-dE/T) if T>0 else 0.0)
            K[idx[s],idx[t]] += a; K[idx[s],idx[s]] += 1-a
        Ks.append(K)
    return states, idx, Ks
def exact(model,N,Ts,init,in_order):
    states, idx, _ = kernels(model,N,1.0)
    p = np.zeros(len(states)); p[idx[tuple(init)]]=1
    for T in Ts:
        _,_,Ks = kernels(model,N,T)
        if in_order:
            for K in Ks: p = p@K
        else:
            R = sum(Ks)/N
            for _ in range(N): p = p@R
    return states, p
for fn, M in ((anneal_quso, QUSOMatrix({(0,):.3,(0,1):-1,(1,2):.7,(2,):-.4})), (anneal_puso, PUSOMatrix({(0,1,2):1,(0,):.5,(1,2):-.6}))):
  for in_order in (True,False):
    Ts=[1.3,0.6,0.9]; init={0:1,1:-1,2:1}; n=200000
    t0=time.time(); res = fn(M, num_anneals=n, initial_state=init, schedule=Ts, in_order=in_order, seed=7); dt=time.time()-t0
    states,p = exact(M,3,Ts,[init[i] for i in range(3)],in_order)
    cnt = {s:0 for s in states}
    for r in res: cnt[tuple(r.state[i] for i in range(3))]+=1
    obs = np.array([cnt[s] for s in states]); exp = p*n
    chi2 = ((obs-exp)**2/exp).sum()
    print(fn.__name__, in_order, "time %.2fs"%dt, "chi2 %.2f df %d"%(chi2,len(states)-1))
