import random, sys, warnings
warnings.simplefilter('ignore')
from qubovert import *
from qubovert.utils import *
rnd=random.Random(int(sys.argv[1]) if len(sys.argv)>1 else 0)
LAB=[QUBO,PUBO,PCBO,QUSO,PUSO,PCSO]; MAT=[QUBOMatrix,PUBOMatrix,QUSOMatrix,PUSOMatrix]
def truevars(m): return {x for k in m for x in k}
def inv(m):
    errs=[]
    tv=truevars(m)
    if not tv<=m.variables: errs.append('vars-not-superset')
    td=max((len(k) for k in m),default=-float('inf'))
    if m.degree<td: errs.append('degree-low')
    if m.num_binary_variables!=len(m.variables): errs.append('nbv!=len(vars)')
    if hasattr(m,'mapping'):
        mp=m.mapping; rm=m.reverse_mapping
        if set(mp)!=m.variables: errs.append('mapping-keys!=variables')
        if sorted(mp.values())!=list(range(m.num_binary_variables)): errs.append('mapping-values!=range')
        if {v:k for k,v in mp.items()}!=rm: errs.append('reverse-not-inverse')
    return errs
stats={}
for case in range(4000):
    T=rnd.choice(LAB+MAT); m=T(); spin = T in (QUSO,PUSO,PCSO,QUSOMatrix,PUSOMatrix)
    deg2 = T in (QUBO,QUSO,QUBOMatrix,QUSOMatrix)
    labs=[0,1,2,3] if T in MAT else rnd.choice([[0,1,2,3],['a','b','c','d'],[0,'a',(1,2),-5]])
    hist=[]
    for step in range(rnd.randint(3,12)):
        op=rnd.choice(['set','set0','iadd','isubsame','imulc','update','clear','refresh','iaddm','dup'])
        k=tuple(rnd.choice(labs) for _ in range(rnd.randint(0,2 if deg2 else 3)))
        if op=='dup': k=k+k[:1]
        v=rnd.choice([-2,1,3,.5])
        try:
            if op in('set','dup'): m[k]=v
            elif op=='set0': m[k]=0 if rnd.random()<.5 else m[k]
            elif op=='iadd': m[k]+=v
            elif op=='isubsame': m[k]-=m[k]
            elif op=='imulc': m*=rnd.choice([2,0,-1])
            elif op=='update': m.update({k:v})
            elif op=='clear': m.clear()
            elif op=='refresh': m.refresh()
            elif op=='iaddm': m+={k:v,():1}
        except KeyError: 
            hist.append((op,k,'KeyError')); continue
        hist.append((op,k,v))
        e=inv(m)
        if e:
            key=(T.__name__,op,tuple(e))
            if key not in stats: stats[key]=[0,list(hist),dict(m)]
            stats[key][0]+=1
            break
for k,(c,h,mm) in sorted(stats.items(), key=lambda x:-x[1][0])[:25]: print(c,k,h[-3:],mm)
print("distinct",len(stats))
