import random, sys, warnings
warnings.simplefilter('ignore')
from qubovert import *
from qubovert.utils import *
from ref import *
from fractions import Fraction as F
rnd=random.Random(int(sys.argv[1]) if len(sys.argv)>1 else 0)
BOOL=[QUBO,PUBO,PCBO,QUBOMatrix,PUBOMatrix]; SPIN=[QUSO,PUSO,PCSO,QUSOMatrix,PUSOMatrix]
def subst(p, vals):
    q=Poly(p.kind)
    for k,v in p.d.items():
        c=v; rest=[]
        for x in k:
            if x in vals: c*=F(vals[x])
            else: rest.append(x)
        q.add(tuple(rest),c)
    return q
bad=0;n=0
for case in range(5000):
    kind=rnd.choice(['bool','spin']); T=rnd.choice((BOOL if kind=='bool' else SPIN)+[dict,DictArithmetic])
    deg2=T in (QUBO,QUSO,QUBOMatrix,QUSOMatrix)
    labs=[0,1,2,3,4]
    m=T()
    for _ in range(rnd.randint(1,6)):
        k=tuple(sorted(rnd.sample(labs,rnd.randint(0,2 if deg2 else 3))))
        if T is dict: m[k]=m.get(k,0)+rnd.choice([-2,1,3,.5])
        else: m[k]+=rnd.choice([-2,1,3,.5])
        if T is dict and not m[k]: del m[k]
    if not m: continue
    rm=from_model(kind,m)
    vals={x: rnd.choice([0,1,-1,2,.5] ) for x in rnd.sample(labs,rnd.randint(0,4))}
    try:
        r=subvalue(vals,m)
        if type(r) is not type(m): print("TYPE sv",T); bad+=1
        if from_model(kind,r)!=subst(rm,vals): print("SUBVALUE",T.__name__,dict(m),vals,dict(r)); bad+=1
        nodes=set(rnd.sample(labs,rnd.randint(0,5)))
        conn={x: rnd.choice([0,1,-1,2]) for x in rnd.sample(labs,rnd.randint(0,4))} if rnd.random()<.7 else None
        r=subgraph(m,nodes,conn)
        full={x:(conn or {}).get(x,0) for x in labs if x not in nodes}
        exp=subst(rm - Poly(kind,{():rm.d.get(frozenset(),0)}), full)
        if type(r) is not type(m): print("TYPE sg",T); bad+=1
        if from_model(kind,r)!=exp: print("SUBGRAPH",T.__name__,dict(m),nodes,conn,dict(r),exp.d); bad+=1
        val=rnd.choice([1,2,.5,-3])
        r=normalize(m,val)
        mx=max(abs(v) for v in m.values())
        if type(r) is not type(m) or any(abs(r[k]*mx - m[k]*val)>1e-12*mx for k in m) : print("NORM",T.__name__,dict(m),val,dict(r)); bad+=1
        if T not in (dict,):
            c=m.copy(); c.normalize(val)
            if dict(c)!=dict(r): print("NORM-METHOD",T.__name__,dict(m),val,dict(c),dict(r)); bad+=1
    except Exception as e:
        print("EXC",T.__name__,dict(m),vals,repr(e)); bad+=1
    n+=1
    if bad>8: break
print("n",n,"bad",bad)
