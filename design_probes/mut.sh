#!/bin/bash
# usage: mut.sh <name> <file> <python-expr-old> <new> <tests> <probe cmd...>
# applies a textual replacement (exactly one occurrence), runs tests + probe, restores file
name="$1"; file="$2"; old="$3"; new="$4"; tests="$5"; shift 5
cd /var/tmp/qv-mut
cp "$file" /tmp/probe/backup.file
python3 - "$file" "$old" "$new" <<'PY'
import sys
f,old,new=sys.argv[1:4]
s=open(f).read()
assert s.count(old)==1, (s.count(old), old)
open(f,'w').write(s.replace(old,new))
PY
if [ $? -ne 0 ]; then echo "[$name] PATCH FAILED"; cp /tmp/probe/backup.file "$file"; exit 1; fi
t=$(PYTHONPATH=/var/tmp/qv-mut /venv/bin/python -m pytest -q -p no:cacheprovider -n 8 --deselect tests/utils/test_subgraph.py::test_subgraph --deselect tests/utils/test_subgraph.py::test_subvalue $tests 2>&1 | tail -1)
p=$(cd /tmp/probe && PYTHONPATH=/var/tmp/qv-mut:/tmp/probe "$@" 2>&1 | tail -2 | tr '\n' ' ' | cut -c1-260)
echo "[$name] tests: $t || probe: $p"
cp /tmp/probe/backup.file "$file"
