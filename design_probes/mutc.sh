#!/bin/bash
name="$1"; file="$2"; old="$3"; new="$4"; tests="$5"; shift 5
cd /var/tmp/qv-mut
cp "$file" /tmp/probe/backup.file
python3 - "$file" "$old" "$new" <<'PY'
import sys
f,old,new=sys.argv[1:4]
s=open(f).read()
assert s.count(old)==1, (s.count(old), old)
open(f,'w').write(s.replace(old,new))
PY
if [ $? -ne 0 ]; then echo "[$name] PATCH FAILED"; cp /tmp/probe/backup.file "$file"; exit 1; fi
/venv/bin/python setup.py -q build_ext --inplace >/dev/null 2>&1 || echo BUILD FAILED
t=$(PYTHONPATH=/var/tmp/qv-mut /venv/bin/python -m pytest -q -p no:cacheprovider -n 8 $tests 2>&1 | tail -1)
p=$(cd /tmp/probe && PYTHONPATH=/var/tmp/qv-mut:/tmp/probe "$@" 2>&1 | tail -3 | tr '\n' ' ' | cut -c1-300)
echo "[$name] tests: $t || probe: $p"
cp /tmp/probe/backup.file "$file"
/venv/bin/python setup.py -q build_ext --inplace >/dev/null 2>&1
