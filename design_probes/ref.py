from fractions import Fraction as F
import itertools
class Poly:
    def __init__(s, kind, d=None):
        s.kind=kind; s.d={}
        if d:
            for k,v in d.items(): s.add(k,v)
    def canon(s,k):
        if s.kind=='bool': return frozenset(k)
        c={}
        for x in k: c[x]=c.get(x,0)+1
        return frozenset(x for x,n in c.items() if n%2)
    def add(s,k,v):
        k=s.canon(k); v=F(v)
        nv=s.d.get(k,0)+v
        if nv: s.d[k]=nv
        else: s.d.pop(k,None)
    def copy(s):
        p=Poly(s.kind); p.d=dict(s.d); return p
    def __add__(s,o):
        p=s.copy()
        for k,v in o.d.items(): p.add(tuple(k),v)
        return p
    def scale(s,c):
        p=Poly(s.kind)
        for k,v in s.d.items(): p.add(tuple(k),v*F(c))
        return p
    def __sub__(s,o): return s+o.scale(-1)
    def __mul__(s,o):
        p=Poly(s.kind)
        for k,v in s.d.items():
            for k2,v2 in o.d.items():
                p.add(tuple(k)+tuple(k2), v*v2)
        return p
    def __pow__(s,n):
        p=s.copy()
        for _ in range(n-1): p=p*s
        return p
    def __eq__(s,o): return s.d==o.d
    def value(s,x):
        t=F(0)
        for k,v in s.d.items():
            m=1
            for i in k: m*=x[i]
            t+=v*m
        return t
    def vars(s): return set(x for k in s.d for x in k)
    def degree(s): return max((len(k) for k in s.d), default=0)
def from_model(kind, m):
    return Poly(kind, {tuple(k) if isinstance(k,tuple) else (k,): v for k,v in m.items()})
