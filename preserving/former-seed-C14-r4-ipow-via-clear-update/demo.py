"""C14 demo (seed 1): constraint ancilla names must never be reused within a
model, whatever in-place arithmetic happened in between.

Run:  cd /tmp/qv-r4-C14 && PYTHONPATH=/tmp/qv-r4-C14 /venv/bin/python _seed/demo.py
"""
import qubovert as qv


def ancillas(model):
    return {v for v in model.variables
            if isinstance(v, str) and v.startswith('__a')}


def check(cls, exponent):
    H = cls({('x',): 1, ('y',): -1})
    # an inequality that needs slack (ancilla) variables
    H.add_constraint_lt_zero({('a',): 1, ('b',): 1, ('c',): 1, (): -3},
                             lam=2)
    first = ancillas(H)
    assert first and H.num_ancillas == len(first)

    reference = H.copy()
    for _ in range(exponent - 1):
        reference *= H.copy()

    H **= exponent                      # documented in-place arithmetic

    # value is right ...
    assert H == reference, "power has the wrong value"
    # ... the old ancillas are still variables of the model ...
    assert first <= ancillas(H)
    # ... and so is the bookkeeping of how many were handed out
    assert H.num_ancillas == reference.num_ancillas == len(first), (
        "%s **= %d: ancilla counter %d, but the model owns %s"
        % (cls.__name__, exponent, H.num_ancillas, sorted(first)))

    before = H.variables
    H.add_constraint_lt_zero({('d',): 1, ('e',): 1, ('f',): 1, (): -3},
                             lam=2)
    new = ancillas(H) - first
    introduced = H.variables - before - {'d', 'e', 'f'}
    assert new and new == introduced and not (new & first), (
        "%s **= %d: the second constraint reused ancilla names %s"
        % (cls.__name__, exponent, sorted(ancillas(H) & first)))


for cls in (qv.PCBO, qv.PCSO):
    for exponent in (2, 3, 4, 5):
        check(cls, exponent)
print("ok")
