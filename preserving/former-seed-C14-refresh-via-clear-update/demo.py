"""Demo for seeded change 2 (C14): refresh() of a constrained model (PCBO /
PCSO) that already owns constraint ancillas restarts the ancilla counter, so
the next ancilla-creating constraint reuses the names '__a0', '__a1', ... and
the represented function is silently wrong.

Exit status 0 on the unchanged tree, non-zero with the change applied.
"""
from itertools import product
from qubovert import PCBO, PCSO, PUBO
from qubovert.utils import PUBOMatrix


def ancilla_names(model):
    return {v for v in model.variables if str(v).startswith("__a")}


def table(model, vs):
    """the represented function over the variables ``vs``"""
    return [model.value(dict(zip(vs, bits)))
            for bits in product((0, 1), repeat=len(vs))]


# refresh() on plain / labelled models without ancillas is (and stays) exact
M = PUBOMatrix({(0, 1): 1})
M[(2,)] += 1
M[(2,)] -= 1
M.refresh()
assert (M.degree, M.num_binary_variables, M.variables) == (2, 2, {0, 1})
U = PUBO({('a', 'b'): 1})
U[('c',)] += 1
U[('c',)] -= 1
U.refresh()
assert U.mapping == {'a': 0, 'b': 1} and U.reverse_mapping == {0: 'a', 1: 'b'}

# ---- the history that matters -------------------------------------------
P = PCBO({('x',): 1, ('t',): 5})
P.add_constraint_le_zero({('x',): 1, ('y',): 1, ('z',): 1, (): -2}, lam=3)
first = ancilla_names(P)
assert first and P.num_ancillas == len(first)

P[('t',)] -= 5                      # 't' cancels, bookkeeping is now stale
vs = sorted(P.variables, key=str)
before = table(P, vs)
n_anc_before = P.num_ancillas
P.refresh()                         # documented way to make it exact again

# refresh leaves the represented function unchanged and the bookkeeping exact
assert 't' not in P.variables and 't' not in P.mapping
assert sorted(P.reverse_mapping) == list(range(P.num_binary_variables))
assert P.variables == set(vs) - {'t'}
assert table(P, vs) == before
assert P.constraints.keys() == {'le'}

# ... and must not forget how many ancillas the model owns
assert P.num_ancillas == n_anc_before, (
    "refresh() changed num_ancillas from %d to %d while the model still "
    "contains %s" % (n_anc_before, P.num_ancillas, sorted(ancilla_names(P))))

# consequence: a second inequality must get fresh ancilla names
P.add_constraint_le_zero({('u',): 1, ('v',): 1, ('w',): 1, (): -2}, lam=3)
second = ancilla_names(P) - first
assert second, (
    "the second constraint reused the ancilla names %s of the first one"
    % sorted(first))
assert P.num_ancillas == len(first) + len(second)

# every assignment that satisfies both constraints can reach penalty 0
live = [v for v in sorted(P.variables, key=str) if v not in first | second]
anc = sorted(first | second)
for bits in product((0, 1), repeat=len(live)):
    x = dict(zip(live, bits))
    if not P.is_solution_valid(x):
        continue
    best = min(P.value({**x, **dict(zip(anc, a))})
               for a in product((0, 1), repeat=len(anc)))
    assert best == x['x'], (x, best)

# ---- same history on the spin model -------------------------------------
H = PCSO()
H.add_constraint_le_zero({('x',): 1, ('y',): 1, ('z',): 1, (): -1}, lam=2)
k = H.num_ancillas
assert k > 0
H.refresh()
assert H.num_ancillas == k, (k, H.num_ancillas)

print("ok")
