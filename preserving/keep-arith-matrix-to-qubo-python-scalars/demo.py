"""demo for keep4: matrix_to_qubo builds the QUBO from plain Python numbers.

C04 (matrix_to_qubo / qubo_to_matrix / Q describe the same function, result type),
C05/C14 (canonical storage, bookkeeping bounds), C19 (input untouched), brute force
with exact integers, dyadic floats, booleans and Fractions.
"""
import itertools
import random
from fractions import Fraction

import numpy as np

from qubovert.utils import matrix_to_qubo, qubo_to_matrix, QUBOMatrix, qubo_value

rng = random.Random(4242)


def rand_matrix(n):
    kind = rng.choice(['int', 'float', 'bool', 'fraction', 'sparse-int', 'antisym'])
    if kind == 'int':
        M = [[rng.randint(-4, 4) for _ in range(n)] for _ in range(n)]
    elif kind == 'float':
        M = [[rng.randint(-8, 8) / 4 for _ in range(n)] for _ in range(n)]
    elif kind == 'bool':
        M = [[rng.random() < .5 for _ in range(n)] for _ in range(n)]
    elif kind == 'fraction':
        M = [[Fraction(rng.randint(-6, 6), rng.randint(1, 5)) for _ in range(n)] for _ in range(n)]
    elif kind == 'sparse-int':
        M = [[rng.choice([0, 0, 0, rng.randint(-3, 3)]) for _ in range(n)] for _ in range(n)]
    else:   # entries below the diagonal cancel the ones above
        M = [[0] * n for _ in range(n)]
        for i in range(n):
            for j in range(i + 1, n):
                M[i][j] = rng.randint(-3, 3)
                M[j][i] = -M[i][j] if rng.random() < .6 else rng.randint(-3, 3)
    return kind, M


def quad_form(M, x):
    n = len(M)
    return sum(M[i][j] * x[i] * x[j] for i in range(n) for j in range(n))


count = 0
for _ in range(80):
    n = rng.randint(1, 5)
    kind, M = rand_matrix(n)
    as_array = rng.random() < .5
    if kind == 'fraction':
        arg = np.array(M, dtype=object) if as_array else M
    else:
        arg = np.array(M) if as_array else M
    snapshot = [list(r) for r in M]
    arr_snapshot = arg.copy() if as_array else None

    Q = matrix_to_qubo(arg)
    assert type(Q) is QUBOMatrix
    assert M == snapshot and (not as_array or np.all(arg == arr_snapshot))   # input untouched
    # canonical storage and bookkeeping
    assert all(Q.values())
    assert all(isinstance(k, tuple) and list(k) == sorted(set(k)) and 1 <= len(k) <= 2 for k in Q)
    true_vars = {i for k in Q for i in k}
    assert true_vars <= Q.variables <= set(range(n))
    assert Q.num_binary_variables >= len(true_vars)
    assert not Q or Q.degree >= max(len(k) for k in Q)
    assert QUBOMatrix(dict(Q)) == Q
    # same function as x^T M x, exactly
    for x in itertools.product((0, 1), repeat=n):
        want = quad_form(M, x)
        assert Q.value(x) == want == qubo_value(dict(enumerate(x)), Q), (M, x, Q)
    # the Q export: every key has length two, same function (no offset here)
    for k in Q.Q:
        assert len(k) == 2
    for x in itertools.product((0, 1), repeat=n):
        assert sum(v * x[i] * x[j] for (i, j), v in Q.Q.items()) == quad_form(M, x)
    # back to a matrix: upper triangular / symmetric, same function
    if Q and kind != 'fraction':
        m = Q.max_index + 1
        U = qubo_to_matrix(Q)
        S = qubo_to_matrix(Q, symmetric=True)
        L = qubo_to_matrix(Q, array=False)
        assert isinstance(U, np.ndarray) and isinstance(L, list) and U.shape == (m, m)
        assert np.all(np.tril(U, -1) == 0) and np.all(S == S.T) and np.all(np.array(L) == U)
        for x in itertools.product((0, 1), repeat=n):
            xv = np.array(x[:m])
            assert xv @ U @ xv == xv @ S @ xv == quad_form(M, x)
        assert matrix_to_qubo(U) == Q == matrix_to_qubo(S) == matrix_to_qubo(L)
    count += 1

for bad in ([[1, 2, 3], [1, 0, 1]], [1, 2], [[[1]]]):
    try:
        matrix_to_qubo(bad)
        raise AssertionError("must raise ValueError")
    except ValueError:
        pass

print("checked %d matrices" % count)

Q = matrix_to_qubo([[1, 2], [3, 4]])
got = {k: type(v).__name__ for k, v in Q.items()}
OLD = {(0,): 'int64', (0, 1): 'int64', (1,): 'int64'}
got_nvars = matrix_to_qubo([[0, 2], [-2, 0]]).num_binary_variables
OLD_NVARS = 2
got_order = list(matrix_to_qubo([[0, 0, 0], [0, 0, 1], [1.5, 0, 0]]))
OLD_ORDER = [(1, 2), (0, 2)]
if got != OLD or got_nvars != OLD_NVARS or got_order != OLD_ORDER:
    print("OBSERVABLE: coefficient types of matrix_to_qubo([[1,2],[3,4]]) are %r (unchanged library: %r); "
          "matrix_to_qubo([[0,2],[-2,0]]).num_binary_variables is %r (unchanged: %r, a stale upper bound); "
          "key order of matrix_to_qubo([[0,0,0],[0,0,1],[1.5,0,0]]) is %r (unchanged: %r)"
          % (got, OLD, got_nvars, OLD_NVARS, got_order, OLD_ORDER))
