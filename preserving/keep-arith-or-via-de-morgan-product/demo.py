"""demo for keep2: OR built as the complement of the product of complements.

C07 (truth functions, inputs untouched, result type), C06 (OR / NOR constraint
penalties), C01/C14 (the reduced form of an OR expression) by brute force.
"""
import itertools
import random

import qubovert as qv
from qubovert import PCBO, PUBO, QUBO, boolean_var
from qubovert.sat import BUFFER, NOT, AND, NAND, OR, NOR, XOR, XNOR
from qubovert.utils import PUBOMatrix, QUBOMatrix

rng = random.Random(77)
LABELS = ['a', 0, (1, 2), 'b', 3]

GATES = {
    'BUFFER': (BUFFER, lambda v: v[0], 1),
    'NOT': (NOT, lambda v: 1 - v[0], 1),
    'AND': (AND, lambda v: int(all(v)), None),
    'NAND': (NAND, lambda v: 1 - int(all(v)), None),
    'OR': (OR, lambda v: int(any(v)), None),
    'NOR': (NOR, lambda v: 1 - int(any(v)), None),
    'XOR': (XOR, lambda v: sum(v) % 2, None),
    'XNOR': (XNOR, lambda v: 1 - sum(v) % 2, None),
}


def leaf():
    lab = rng.choice(LABELS)
    kind = rng.randrange(4)
    if kind == 0:
        return lab, (lambda x, lab=lab: x[lab])
    if kind == 1:
        return boolean_var(lab), (lambda x, lab=lab: x[lab])
    if kind == 2:
        return PUBO({(lab,): 1}), (lambda x, lab=lab: x[lab])
    return {(lab,): 1}, (lambda x, lab=lab: x[lab])


def tree(depth, top=False):
    """return (library expression, python truth function)."""
    if depth == 0 or (not top and rng.random() < .25):
        return leaf()
    name = rng.choice(['OR', 'NOR', 'OR', 'NOR'] + list(GATES))
    build, truth, arity = GATES[name]
    n = arity or rng.randint(1, 3)
    subs = [tree(depth - 1) for _ in range(n)]
    snap = [dict(s[0]) if isinstance(s[0], dict) else s[0] for s in subs]
    expr = build(*[s[0] for s in subs])
    for s, before in zip(subs, snap):          # inputs are not modified
        if isinstance(s[0], dict):
            assert dict(s[0]) == before
    first = subs[0][0]
    want_type = type(first) if isinstance(first, qv.BOOLEAN_MODELS) else PUBO
    assert type(expr) is want_type, (name, type(expr), want_type)
    return expr, (lambda x, subs=subs, truth=truth: truth([s[1](x) for s in subs]))


count = 0
for _ in range(60):
    expr, f = tree(3, top=True)
    for vals in itertools.product((0, 1), repeat=len(LABELS)):
        x = dict(zip(LABELS, vals))
        assert expr.value(x) == f(x), (expr, x)
    # canonical storage: rebuilding from the plain dict gives an equal model
    assert type(expr)(dict(expr)) == expr and all(expr.values())
    count += 1

# OR in the degree-2 / Matrix types: type of the first operand, KeyError above degree 2
q = OR(QUBO.create_var('x'), 'y')
assert type(q) is QUBO and q == {('x',): 1, ('y',): 1, ('x', 'y'): -1}
m = OR(QUBOMatrix({(0,): 1}), QUBOMatrix({(1,): 1}))
assert type(m) is QUBOMatrix and m == {(0,): 1, (1,): 1, (0, 1): -1}
assert type(OR(PUBOMatrix({(0,): 1}), 1, 2)) is PUBOMatrix
try:
    OR(QUBO.create_var('x'), 'y', 'z')
    raise AssertionError("degree 3 in a QUBO must raise")
except KeyError:
    pass
# a PCBO operand keeps its recorded constraints, as before
c = PCBO({('x',): 1}).add_constraint_eq_zero({('w',): 1})
assert OR(c, 'y').constraints == c.constraints and OR(c, 'y').num_ancillas == c.num_ancillas

# ---- C06: OR / NOR / eq_OR / eq_NOR constraints
for _ in range(40):
    n = rng.randint(2, 4)
    ops = rng.sample(LABELS, n)
    lam = rng.choice([1, 2, 5, 0.5])
    a = 'out'
    cases = [
        (PCBO().add_constraint_OR(*ops, lam=lam), lambda x: any(x[o] for o in ops)),
        (PCBO().add_constraint_NOR(*ops, lam=lam), lambda x: not any(x[o] for o in ops)),
        (PCBO().add_constraint_eq_OR(a, *ops, lam=lam), lambda x: x[a] == int(any(x[o] for o in ops))),
        (PCBO().add_constraint_eq_NOR(a, *ops, lam=lam), lambda x: x[a] == 1 - int(any(x[o] for o in ops))),
        # operands that are expressions
        (PCBO().add_constraint_OR(AND(ops[0], ops[1]), NOT(ops[-1]), lam=lam),
         lambda x: (x[ops[0]] and x[ops[1]]) or not x[ops[-1]]),
    ]
    for model, ok in cases:
        assert model.num_ancillas == 0
        assert model.variables <= set(ops) | {a}
        names = LABELS + [a]
        for vals in itertools.product((0, 1), repeat=len(names)):
            x = dict(zip(names, vals))
            v = model.value(x)
            if ok(x):
                assert v == 0 and model.is_solution_valid(x)
            else:
                assert v >= lam and not model.is_solution_valid(x)
        count += 1

# ---- C01 / C14: reduce an OR expression to a QUBO and compare with the expression
for n in (3, 4, 5):
    labels = rng.sample(['p', 'q', 7, (0, 1), 'r', 9], n)
    P = OR(*labels) * rng.choice([1, -2, 3]) + PUBO({(labels[0],): -1})
    P.refresh()
    Q = P.to_qubo()
    assert Q.degree <= 2
    assert sorted(P.mapping.values()) == list(range(n))
    assert {P.reverse_mapping[i] for i in range(n)} == set(labels)
    N = Q.num_binary_variables
    assert Q.variables == set(range(N)) or Q.variables <= set(range(N))
    best_q, best_p = None, None
    seen = {}
    for vals in itertools.product((0, 1), repeat=N):
        s = dict(enumerate(vals))
        x = P.convert_solution(s)
        assert set(x) == set(labels)
        assert Q.value(s) >= P.value(x)                    # never undercuts
        seen[tuple(vals[:n])] = min(seen.get(tuple(vals[:n]), Q.value(s)), Q.value(s))
    for vals, qmin in seen.items():
        x = {P.reverse_mapping[i]: v for i, v in enumerate(vals)}
        assert qmin == P.value(x)                          # exact on some ancilla extension
    count += 1

print("checked %d cases" % count)

got = OR('c', 'a', 'b').mapping
OLD = {'c': 0, 'a': 1, 'b': 2}
got_terms = list(OR('a', 'b', 'c'))
OLD_TERMS = [('a',), ('a', 'b'), ('b',), ('a', 'c'), ('a', 'b', 'c'), ('b', 'c'), ('c',)]
got_anc = OR('a', 'b', 'c', 'd').to_qubo().num_binary_variables - 4
OLD_ANC = 3
if got != OLD or got_terms != OLD_TERMS or got_anc != OLD_ANC:
    print("OBSERVABLE: OR('c','a','b').mapping is %r (unchanged library: %r); the terms of OR('a','b','c') are "
          "stored in the order %r (unchanged: %r); OR('a','b','c','d').to_qubo() uses %d ancillas (unchanged: %d). "
          "The models are == to the old ones."
          % (got, OLD, got_terms, OLD_TERMS, got_anc, OLD_ANC))
