"""demo for keep3: __ipow__ / __pow__ by square-and-multiply.

C05: (a**k)(x) == a(x)**k for every assignment, result type, operand unchanged,
canonical storage, KeyError only when the old repeated product raised it as well.
C14: bookkeeping of the result. Exact integer / Fraction coefficients throughout.
"""
import itertools
import random
from fractions import Fraction

import qubovert as qv
from qubovert.utils import (
    QUBOMatrix, PUBOMatrix, QUSOMatrix, PUSOMatrix, DictArithmetic,
    pubo_value, puso_value,
)

rng = random.Random(31337)

BOOL = [qv.PUBO, qv.PCBO, PUBOMatrix, qv.QUBO, QUBOMatrix]
SPIN = [qv.PUSO, qv.PCSO, PUSOMatrix, qv.QUSO, QUSOMatrix]
DEG2 = {qv.QUBO, QUBOMatrix, qv.QUSO, QUSOMatrix}
INT_ONLY = {QUBOMatrix, PUBOMatrix, QUSOMatrix, PUSOMatrix}
GENERAL = {True: qv.PUSO, False: qv.PUBO}


def coef():
    c = rng.choice([rng.randint(-3, 3), rng.randint(-3, 3), Fraction(rng.randint(-5, 5), rng.randint(1, 3))])
    return c or 1


def rand_model(t):
    labels = [0, 1, 2] if t in INT_ONLY else rng.choice([[0, 1, 2], ['a', (0, 1), 5]])
    maxdeg = 2 if t in DEG2 else 3
    nterms = rng.randint(1, 4)
    d = {}
    for _ in range(nterms):
        d[tuple(rng.sample(labels, rng.randint(0, min(maxdeg, len(labels)))))] = coef()
    return t(d), labels


def repeated_product(m, k):
    """what the unchanged library computed; may raise KeyError."""
    r = m.copy()
    for _ in range(k - 1):
        r = r * m
    return r


checked = raised = 0
for spin, types in ((False, BOOL), (True, SPIN)):
    dom = (1, -1) if spin else (0, 1)
    val = puso_value if spin else pubo_value
    for t in types:
        for _ in range(14):
            m, labels = rand_model(t)
            k = rng.randint(1, 7)
            before, before_type = dict(m), type(m)
            try:
                seq = repeated_product(m, k)
            except KeyError:
                seq = None
            try:
                r = m ** k
            except KeyError:
                # only allowed for the degree-2 types, and only where the
                # repeated product raised too / the true power has degree > 2
                assert t in DEG2 and seq is None
                raised += 1
                assert dict(m) == before
                continue
            assert type(r) is t and type(m) is before_type and dict(m) == before
            if seq is not None:
                assert r == seq                     # same canonical model as m*m*...*m
            # canonical storage
            assert all(r.values()) and t(dict(r)) == r
            assert all(tuple(k_) == t.squash_key(k_) for k_ in r)
            for vals in itertools.product(dom, repeat=len(labels)):
                x = dict(zip(labels, vals))
                assert r.value(x) == m.value(x) ** k == val(x, dict(m)) ** k
            # in-place form: same object, same result
            n = m.copy()
            ident = id(n)
            n **= k
            assert id(n) == ident and n == r and type(n) is t
            # bookkeeping is an upper bound and exact after refresh (C14)
            true_vars = {i for key in r for i in key}
            assert true_vars <= r.variables and r.degree >= max([len(key) for key in r] or [0])
            assert r.num_binary_variables >= len(true_vars)
            if hasattr(r, 'mapping'):
                mp, rm = r.mapping, r.reverse_mapping
                assert set(mp) == r.variables and sorted(mp.values()) == list(range(len(mp)))
                assert all(rm[v] == key for key, v in mp.items())
            r.refresh()
            assert r.variables == true_vars and r == n
            checked += 1

# the plain DictArithmetic (no key squashing): same multiset of concatenated keys
d = DictArithmetic({(0,): 2, (1, 0): -1, (): 3})
assert d ** 3 == d * d * d and d ** 4 == d * d * d * d and d ** 5 == d * d * d * d * d
assert d ** 1 == d
for bad in (0, -1, .5, 2.0):
    try:
        d ** bad
        raise AssertionError("must raise ValueError")
    except ValueError:
        pass

# PCBO keeps constraints and ancilla counter through ** as before
c = qv.PCBO({('x',): 1, ('y',): -2}).add_constraint_le_zero({('x',): 1, ('y',): 1, ('w',): 1, (): -2})
e = c ** 5
assert e.constraints == c.constraints and e.num_ancillas == c.num_ancillas

print("checked %d powers, %d KeyErrors (all shared with the repeated product)" % (checked, raised))

p = qv.QUSO({(0,): 1, (1,): 1, (2,): 1})
try:
    got = dict(p ** 4)
except KeyError:
    got = 'KeyError'
if got != 'KeyError':
    assert got == {(): 21, (0, 1): 20, (0, 2): 20, (1, 2): 20}
    print("OBSERVABLE: QUSO({(0,):1,(1,):1,(2,):1}) ** 4 is %r (degree 2, the correct value); the unchanged "
          "library raises KeyError because it passes through the cubic p**3" % (got,))
