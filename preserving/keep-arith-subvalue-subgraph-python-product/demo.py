"""demo for keep1: subvalue / subgraph multiply with plain Python arithmetic.

Checks C18 (and the type rule) by brute force with exact integer / Fraction
arithmetic on random models of every type and on plain dicts.
"""
import itertools
import random
from fractions import Fraction

import qubovert as qv
from qubovert.utils import (
    subvalue, subgraph, pubo_value, puso_value,
    QUBOMatrix, PUBOMatrix, QUSOMatrix, PUSOMatrix, DictArithmetic,
)

rng = random.Random(20240917)

BOOL_TYPES = [dict, qv.PUBO, qv.PCBO, PUBOMatrix, qv.QUBO, QUBOMatrix]
SPIN_TYPES = [dict, qv.PUSO, qv.PCSO, PUSOMatrix, qv.QUSO, QUSOMatrix]
DEG2 = {qv.QUBO, QUBOMatrix, qv.QUSO, QUSOMatrix}
INT_ONLY = {QUBOMatrix, PUBOMatrix, QUSOMatrix, PUSOMatrix}


def rand_coef():
    c = rng.choice([rng.randint(-5, 5), Fraction(rng.randint(-9, 9), rng.choice([1, 2, 4]))])  # dyadic: exact even as float
    return c or 1


def rand_model(t, spin):
    labels = [0, 1, 2, 3] if t in INT_ONLY else rng.choice([[0, 1, 2, 3], ['a', 'b', 0, (1, 2)]])
    maxdeg = 2 if t in DEG2 else 3
    d = {}
    for _ in range(rng.randint(1, 7)):
        k = tuple(rng.sample(labels, rng.randint(0, maxdeg)))
        d[k] = rand_coef()
    return t(d), labels


def value(spin, x, D):
    return (puso_value if spin else pubo_value)(x, D)


def key_vars(D):
    return {i for k in D for i in k}


count = 0
for spin, types in ((False, BOOL_TYPES), (True, SPIN_TYPES)):
    dom = (1, -1) if spin else (0, 1)
    for t in types:
        for _ in range(12):
            G, labels = rand_model(t, spin)
            before = dict(G)
            # ---- subvalue: fix a random subset of the variables
            fixed = {v: rng.choice(dom) for v in labels if rng.random() < .5}
            D = subvalue(fixed, G)
            assert type(D) is t, (type(D), t)
            if t is not dict:
                assert D == G.subvalue(fixed) and type(G.subvalue(fixed)) is t
            assert not (key_vars(D) & set(fixed))
            assert all(D[k] for k in D)
            rest = [v for v in labels if v not in fixed]
            for vals in itertools.product(dom, repeat=len(rest)):
                x = dict(zip(rest, vals))
                full = dict(x)
                full.update(fixed)
                assert value(spin, x, D) == value(spin, full, G)
            # ---- subgraph: keep a random node set, outside fixed by connections
            nodes = {v for v in labels if rng.random() < .5}
            conn = {v: rng.choice(dom) for v in labels if v not in nodes and rng.random() < .6}
            S = subgraph(G, nodes, conn)
            assert type(S) is t
            if t is not dict:
                assert S == G.subgraph(nodes, conn)
            assert key_vars(S) <= nodes
            noconst = {k: v for k, v in dict(G).items() if k}
            inside = [v for v in labels if v in nodes]
            for vals in itertools.product(dom, repeat=len(inside)):
                x = dict(zip(inside, vals))
                full = {v: conn.get(v, 0) for v in labels}
                full.update(x)
                # spins fixed to 0 are not spins; evaluate the polynomial directly
                want = 0
                for k, c in noconst.items():
                    for i in k:
                        c = c * full[i]
                    want += c
                got = 0
                for k, c in dict(S).items():
                    for i in k:
                        c = c * x[i]
                    got += c
                assert got == want, (G, nodes, conn, S)
            assert dict(G) == before          # input untouched (C19)
            count += 1

# symbolic substituted values commute with later numeric substitution (C16/C18)
from sympy import Symbol
a = Symbol('a')
G = {(0, 1): -4, (0, 2): -1, (0,): 3, (1,): 2, (): 2}
for t in (qv.PUBO, qv.PCBO, qv.PUSO, qv.PCSO, DictArithmetic):
    S = subvalue({2: a}, t(G))
    assert type(S) is t
    for c in (1, -1, 0, 3):
        assert S.subs(a, c) == subvalue({2: c}, t(G)), (t, c)

print("checked %d random models" % count)

# what differs: the unchanged library multiplied with numpy.prod, so every
# coefficient came back as a numpy scalar (and an empty product as 1.0)
got = type(subvalue({0: 2}, {(0, 1): 3, (2,): 5})[(2,)]).__name__
OLD = 'float64'
if got != OLD:
    print("OBSERVABLE: type of subvalue({0: 2}, {(0, 1): 3, (2,): 5})[(2,)] is %r, "
          "the unchanged library gives %r (and subvalue({2: a}, {(0,): 3, (0, 2): -1})[(0,)] "
          "is now %s instead of 3.0 - a)"
          % (got, OLD, subvalue({2: a}, {(0,): 3, (0, 2): -1})[(0,)]))
