"""Demo for approximate-extrema-merge-duplicate-keys.

Brute-force check of C15 (bounds enclose the true extrema, constants are
exact) for the four approximate_*_extrema functions on random raw dicts
(unsorted / repeated labels) and on every model type, plus the way PCBO / PCSO
use the bounds (C02 / C03 on a few inequality constraints with bounds omitted).
Exits 0 with and without the change; prints an OBSERVABLE line when a bound
differs from the unchanged library's.
"""

import itertools
import random
import warnings
from fractions import Fraction

import qubovert as qv
from qubovert.utils import (
    approximate_pubo_extrema, approximate_puso_extrema,
    approximate_qubo_extrema, approximate_quso_extrema,
    PUBOMatrix, PUSOMatrix, QUBOMatrix, QUSOMatrix
)

rng = random.Random(31337)


def value(D, sol):
    tot = 0
    for k, c in D.items():
        t = c
        for v in k:
            t *= sol[v]
        tot += t
    return tot


def assignments(vs, spin):
    vals = (1, -1) if spin else (0, 1)
    for t in itertools.product(vals, repeat=len(vs)):
        yield dict(zip(vs, t))


def rand_coef():
    return rng.choice([rng.randint(-4, 4), Fraction(rng.randint(-9, 9), 4),
                       rng.randint(-8, 8) / 8])


def rand_raw(labels, maxdeg):
    """raw dict, keys unsorted and possibly with repeated labels"""
    D = {}
    for _ in range(rng.randint(0, 6)):
        k = tuple(rng.choice(labels) for _ in range(rng.randint(0, maxdeg)))
        D[k] = rand_coef()
    return D


def check(fn, D, spin):
    vs = sorted(set(v for k in D for v in k), key=str)
    vals = [value(D, x) for x in assignments(vs, spin)]
    lo, hi = fn(D)
    assert lo <= min(vals) and hi >= max(vals), (fn.__name__, D, lo, hi)
    if min(vals) == max(vals) and not vs:
        assert lo == hi == vals[0], (fn.__name__, D, lo, hi)
    return lo, hi


for n in range(300):
    labels = rng.choice([[0, 1, 2, 3], ['a', 'b', 'c'], [(0, 1), 'b', 7]])
    spin = bool(n % 2)
    deg2 = rng.random() < .4
    D = rand_raw(labels, 2 if deg2 else 4)
    before = dict(D)
    if deg2:
        fns = [approximate_quso_extrema if spin else approximate_qubo_extrema]
    else:
        fns = []
    fns.append(approximate_puso_extrema if spin else approximate_pubo_extrema)
    for fn in fns:
        raw = check(fn, D, spin)
        assert D == before, "argument mutated"
        # model objects of the matching kind: same function, canonical keys
        if spin:
            types = [qv.PUSO, qv.PCSO] + ([qv.QUSO] if deg2 else [])
        else:
            types = [qv.PUBO, qv.PCBO] + ([qv.QUBO] if deg2 else [])
        if labels == [0, 1, 2, 3]:
            if spin:
                types += [PUSOMatrix] + ([QUSOMatrix] if deg2 else [])
            else:
                types += [PUBOMatrix] + ([QUBOMatrix] if deg2 else [])
        for t in types:
            M = t(D)
            lo, hi = check(fn, M, spin)
            # the canonical model is never looser than the raw dict
            assert raw[0] <= lo and hi <= raw[1]

# constants
for c in (0, 3, Fraction(-5, 2)):
    for fn in (approximate_pubo_extrema, approximate_puso_extrema,
               approximate_qubo_extrema, approximate_quso_extrema):
        assert fn({(): c} if c else {}) == (c, c)
        assert fn({(): c}) == (c, c)

# the bounds as the constraint methods use them (bounds omitted):
# penalty is >= 0, zero-able exactly on P <= 0, >= lam elsewhere
for n in range(20):
    spin = bool(n % 2)
    cls = qv.PCSO if spin else qv.PCBO
    P = {(0, 1): rng.randint(-2, 2), (1, 0, 0): rng.randint(-2, 2),
         (2,): rng.randint(-2, 2), (): rng.randint(-2, 2)}
    with warnings.catch_warnings(record=True) as w:
        warnings.simplefilter('always')
        H = cls().add_constraint_le_zero(P, lam=2)
    if any('cannot' in str(x.message) for x in w):
        continue
    ancs = sorted(v for v in H.variables if str(v).startswith('__a'))
    for x in assignments([0, 1, 2], spin):
        best = min(value(H, dict(x, **{a: v for a, v in s.items()}))
                   for s in assignments(ancs, spin))
        assert (best == 0) if value(P, x) <= 0 else (best >= 2), (P, x, best)

D = {(0, 1): 3, (1, 0): -3, (2,): 1}
OLD = (-3, 4)
new = approximate_pubo_extrema(D)
if new != OLD:
    print("OBSERVABLE: approximate_pubo_extrema({(0, 1): 3, (1, 0): -3, "
          "(2,): 1}) == %s (unchanged library: %s)" % (new, OLD))
print("ok")
