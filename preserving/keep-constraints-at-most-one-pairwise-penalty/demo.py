"""Demo for at-most-one-pairwise-penalty.

Brute-force check of C02 / C03 / C08 / C16 on constraints of the special form
"sum of monomials <= 1" (reached through le, lt, ge and gt), boolean and spin,
on models that already carry an objective. Exits 0 with and without the
change; prints an OBSERVABLE line when the stored coefficients differ from the
unchanged library's.
"""

import itertools
import random
import warnings
from fractions import Fraction

from qubovert import PCBO, PCSO, PUBO, PUSO
from qubovert.utils import solve_pubo_bruteforce, solve_puso_bruteforce

rng = random.Random(4242)


def is_anc(v):
    return isinstance(v, str) and v.startswith('__a')


def value(D, sol):
    tot = 0
    for k, c in D.items():
        t = c
        for v in k:
            t *= sol[v]
        tot += t
    return tot


def assignments(vs, spin):
    vals = (1, -1) if spin else (0, 1)
    for t in itertools.product(vals, repeat=len(vs)):
        yield dict(zip(vs, t))


def rand_objective(labels):
    f = {}
    for _ in range(rng.randint(0, 4)):
        k = tuple(rng.sample(labels, rng.randint(0, 3)))
        f[k] = f.get(k, 0) + rng.randint(-3, 3)
    return f


def at_most_one_boolean(labels):
    """(rel, P) with  P rel 0  <=>  sum of some distinct monomials <= 1"""
    monos = set()
    for _ in range(rng.randint(1, 4)):
        monos.add(tuple(sorted(
            rng.sample(labels, rng.randint(1, 3)), key=labels.index)))
    rel = rng.choice(['le', 'lt', 'ge', 'gt'])
    off = -1 if rel in ('le', 'ge') else -2
    sgn = 1 if rel in ('le', 'lt') else -1
    P = {m: sgn for m in monos}
    P[()] = sgn * off
    return rel, P


def at_most_one_spin(labels):
    """sum_i (1 - z_i) / 2 <= 1 over some of the spins"""
    vs = rng.sample(labels, rng.randint(1, len(labels)))
    rel = rng.choice(['le', 'lt', 'ge', 'gt'])
    off = -1 if rel in ('le', 'ge') else -2
    sgn = 1 if rel in ('le', 'lt') else -1
    H = {(v,): -.5 * sgn for v in vs}
    H[()] = sgn * (len(vs) / 2 + off)
    return rel, H


def holds(rel, p):
    return {'le': p <= 0, 'lt': p < 0, 'ge': p >= 0, 'gt': p > 0}[rel]


def one_case(spin):
    cls, base = (PCSO, PUSO) if spin else (PCBO, PUBO)
    solver = solve_puso_bruteforce if spin else solve_pubo_bruteforce
    labels = rng.choice([[0, 1, 2, 3], ['x', 'y', 'z', 'w'],
                         [(0, 1), 'b', 7, -1]])
    f = base(rand_objective(labels))
    H = cls(f)
    rel, P = (at_most_one_spin if spin else at_most_one_boolean)(labels)
    Pm = base(P)
    flo = min(value(f, x) for x in assignments(labels, spin))
    fhi = max(value(f, x) for x in assignments(labels, spin))
    lam = fhi - flo + rng.choice([1, 2, 0.5] if spin else
                                 [1, 2, Fraction(1, 3)])
    Pcopy = dict(P)
    with warnings.catch_warnings(record=True) as w:
        warnings.simplefilter('always')
        getattr(H, 'add_constraint_%s_zero' % rel)(
            P, lam=lam, log_trick=rng.random() < .5)
    # feasible, so "cannot be satisfied" must not be warned
    assert not any('cannot' in str(x.message) for x in w)
    assert P == Pcopy, "argument mutated"
    assert type(H) is cls and H.constraints == {rel: [Pm]}
    F = base(H) - f
    assert not any(is_anc(v) for k in F for v in k)   # no ancillas needed
    assert H.num_ancillas == 0
    assert set(v for k in F for v in k) <= set(Pm.variables)
    feas = []
    for x in assignments(labels, spin):
        p, pen = value(Pm, x), value(F, x)
        assert pen >= 0
        assert (pen == 0) if holds(rel, p) else (pen >= lam), (P, rel, x, pen)
        assert H.is_solution_valid(x) == holds(rel, p)
        assert value(H, x) == value(f, x) + pen
        if holds(rel, p):
            feas.append(x)
    # C08: lam > max f - min f, so unconstrained minimisers are the
    # constrained optima
    best = min(value(f, x) for x in feas)
    obj, sols = solver(base(H), all_solutions=True)
    assert obj == best
    for s in sols:
        full = {v: s.get(v, 1 if spin else 0) for v in labels}
        assert holds(rel, value(Pm, full)) and value(f, full) == best
    # (the method enumerates the model's own variables only, so use it when
    # the constraint's variables all occur in the model)
    if set(Pm.variables) <= set(H.variables):
        sol = H.solve_bruteforce()
        full = {v: sol.get(v, 1 if spin else 0) for v in labels}
        assert holds(rel, value(Pm, full)) and value(f, full) == best


for n in range(80):
    one_case(spin=bool(n % 2))

# C16: symbolic weight commutes with substitution
try:
    import sympy
except ImportError:
    sympy = None
if sympy is not None:
    lam = sympy.Symbol('lam')
    for cls, P in ((PCBO, {(0,): 1, (1, 2): 1, (3,): 1, (): -1}),
                   (PCSO, {(0,): -.5, (1,): -.5, (2,): -.5, (): .5})):
        for c in (1, 3, 2.5):
            a = cls({(0,): 2}).add_constraint_le_zero(P, lam=lam)
            keep = dict(a)
            b = a.subs({lam: c})
            d = cls({(0,): 2}).add_constraint_le_zero(P, lam=c)
            assert b == d and type(b) is type(d)
            assert b.constraints == d.constraints
            assert dict(a) == keep   # subs leaves the original alone

H = PCBO().add_constraint_le_zero({(0,): 1, (1,): 1, (): -1})
OLD = "{(0, 1): 1.0}"
if repr(dict(H)) != OLD:
    print("OBSERVABLE: dict(PCBO().add_constraint_le_zero({(0,): 1, (1,): 1, "
          "(): -1})) prints as %r (unchanged library: %s); the integer "
          "weight stays an integer" % (dict(H), OLD))
print("ok")
