"""Demo for le-zero-capped-slack-bits.

Brute-force check of C02 / C03 / C08 (and the ancilla bookkeeping of C14) for
the four inequality constraint methods on random integer polynomials, boolean
and spin. Exits 0 with and without the change; prints an OBSERVABLE line when
the penalty differs from the unchanged library's.
"""

import itertools
import operator
import random
import warnings
from fractions import Fraction

from qubovert import PCBO, PCSO, PUBO, PUSO
from qubovert.utils import (
    QUBOVertWarning, approximate_pubo_extrema, puso_to_pubo,
    solve_pubo_bruteforce, solve_puso_bruteforce
)

rng = random.Random(777)
RELS = {'lt': operator.lt, 'le': operator.le,
        'gt': operator.gt, 'ge': operator.ge}


def is_anc(v):
    return isinstance(v, str) and v.startswith('__a')


def value(D, sol):
    tot = 0
    for k, c in D.items():
        t = c
        for v in k:
            t *= sol[v]
        tot += t
    return tot


def rand_poly(labels):
    P = {}
    for _ in range(rng.randint(1, 4)):
        k = tuple(rng.sample(labels, rng.randint(0, min(3, len(labels)))))
        P[k] = P.get(k, 0) + rng.randint(-3, 3)
    return P


def assignments(vs, spin):
    vals = (1, -1) if spin else (0, 1)
    for t in itertools.product(vals, repeat=len(vs)):
        yield dict(zip(vs, t))


def true_range(P, xs, spin):
    vals = [value(P, x) for x in assignments(xs, spin)]
    return min(vals), max(vals)


def check_penalty(F, P, rel, xs, lam, unsat_warned, spin):
    """F >= 0; min over ancillas is 0 iff P(x) rel 0, else >= lam."""
    ancs = sorted(set(v for k in F for v in k if is_anc(v)))
    others = set(v for k in F for v in k if not is_anc(v))
    assert others <= set(xs), (others, xs)
    for x in assignments(xs, spin):
        p = value(P, x)
        best = None
        for a in assignments(ancs, spin):
            s = dict(x)
            s.update(a)
            f = value(F, s)
            assert f >= 0, (F, s, f)
            best = f if best is None or f < best else best
        if unsat_warned:
            continue
        if RELS[rel](p, 0):
            assert best == 0, (P, rel, x, best)
        else:
            assert best >= lam, (P, rel, x, best, lam)
    return ancs


def one_case(spin):
    cls, base = (PCSO, PUSO) if spin else (PCBO, PUBO)
    labels = rng.choice([[0, 1, 2], ['x', 'y', 'z'], [(0, 1), 'b', 7]])
    H = cls()
    seen_ancillas = set()
    prev = base()
    recorded = []
    for _ in range(rng.randint(1, 2)):
        # keep the range of P small: the unary (log_trick=False) encoding
        # uses about (range of P) ancillas, all of which are enumerated.
        while True:
            P = rand_poly(labels)
            Pm = base(P)
            xs = sorted(Pm.variables, key=str)
            lo, hi = true_range(Pm, xs, spin)
            # (spin constraints are bounded through their boolean form)
            alo, ahi = approximate_pubo_extrema(
                puso_to_pubo(Pm) if spin else Pm)
            log_trick = rng.random() < .5
            if max(ahi, -alo) <= (200 if log_trick else 6):
                break
        rel = rng.choice(sorted(RELS))
        # the spin path goes through floats (division by powers of two), so
        # use dyadic weights there; they are exact.
        lam = rng.choice([1, 2, 5, 0.5, 2.25] if spin else
                         [1, 2, 5, Fraction(1, 2), Fraction(7, 3)])
        bounds = rng.choice([
            None, (None, None), (lo, None), (None, hi), (lo, hi),
            (lo - rng.randint(0, 2), hi + rng.randint(0, 2)),
            (lo - Fraction(1, 2), hi + Fraction(1, 2)),
        ])
        Pcopy = dict(P)
        with warnings.catch_warnings(record=True) as w:
            warnings.simplefilter('always')
            getattr(H, 'add_constraint_%s_zero' % rel)(
                P, lam=lam, log_trick=log_trick, bounds=bounds)
        assert P == Pcopy, "argument mutated"
        unsat = any(issubclass(x.category, QUBOVertWarning) and
                    'cannot' in str(x.message) for x in w)
        F = base(H) - prev
        prev = base(H)
        ancs = check_penalty(F, Pm, rel, xs, lam, unsat, spin)
        assert not (set(ancs) & seen_ancillas), "ancilla reused"
        seen_ancillas |= set(ancs)
        for a in ancs:
            assert int(a[3:]) < H.num_ancillas
        recorded.append((rel, Pm))
    # is_solution_valid agrees with the recorded constraints
    assert sorted(H.constraints) == sorted(set(r for r, _ in recorded))
    allx = sorted(set(v for _, c in recorded for v in c.variables), key=str)
    for x in assignments(allx, spin):
        assert H.is_solution_valid(x) == all(
            RELS[r](value(c, x), 0) for r, c in recorded)


def constrained_optimum_case(spin):
    """C08: objective + one feasible inequality with a large weight."""
    cls, base = (PCSO, PUSO) if spin else (PCBO, PUBO)
    solver = solve_puso_bruteforce if spin else solve_pubo_bruteforce
    labels = [0, 1, 2]
    while True:
        f, P = base(rand_poly(labels)), base(rand_poly(labels))
        rel = rng.choice(sorted(RELS))
        feas = [x for x in assignments(labels, spin)
                if RELS[rel](value(P, x), 0)]
        alo, ahi = approximate_pubo_extrema(puso_to_pubo(P) if spin else P)
        if feas and max(ahi, -alo) <= 40:
            break
    flo, fhi = true_range(f, labels, spin)
    lam = fhi - flo + 1
    H = cls(f)
    with warnings.catch_warnings():
        warnings.simplefilter('ignore')
        getattr(H, 'add_constraint_%s_zero' % rel)(P, lam=lam)
    best = min(value(f, x) for x in feas)
    obj, sols = solver(base(H), all_solutions=True)
    assert obj == best, (f, rel, P, obj, best)
    for s in sols:
        x = H.remove_ancilla_from_solution(s)
        assert not any(is_anc(v) for v in x)
        full = {v: x.get(v, 1 if spin else 0) for v in labels}
        assert RELS[rel](value(P, full), 0) and value(f, full) == best


for n in range(60):
    one_case(spin=bool(n % 2))
for n in range(20):
    constrained_optimum_case(spin=bool(n % 2))

# a fixed, concrete instance: 2 x0 + 3 x1 <= 4
H = PCBO().add_constraint_le_zero({(0,): 2, (1,): 3, (): -4})
OLD = {(0,): -12, (0, 1): 12, (0, '__a0'): 4, (0, '__a1'): 8,
       (0, '__a2'): 16, (1,): -15, (1, '__a0'): 6, (1, '__a1'): 12,
       (1, '__a2'): 24, (): 16, ('__a0',): -7, ('__a1',): -12,
       ('__a2',): -16, ('__a0', '__a1'): 4, ('__a0', '__a2'): 8,
       ('__a1', '__a2'): 16}
if dict(H) != OLD:
    print("OBSERVABLE: PCBO().add_constraint_le_zero({(0,): 2, (1,): 3, "
          "(): -4}) has ('__a2',): %s, (0, '__a2'): %s (unchanged library: "
          "-16 and 16; slack bits 1, 2, 4 became 1, 2, 1)"
          % (H[('__a2',)], H[(0, '__a2')]))
print("ok")
