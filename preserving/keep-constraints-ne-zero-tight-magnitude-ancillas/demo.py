"""Demo for ne-zero-tight-magnitude-ancillas.

Brute-force check of C02 / C03 (and the ancilla bookkeeping parts of C14) for
``add_constraint_ne_zero`` on random integer polynomials, boolean and spin.
Exits 0 with and without the change; prints an OBSERVABLE line when the
number of ancillas differs from the unchanged library's.
"""

import itertools
import random
import warnings
from fractions import Fraction

from qubovert import PCBO, PCSO, PUBO, PUSO
from qubovert.utils import (
    QUBOVertWarning, approximate_pubo_extrema, puso_to_pubo
)

rng = random.Random(20240611)


def is_anc(v):
    return isinstance(v, str) and v.startswith('__a')


def value(D, sol, spin):
    tot = 0
    for k, c in D.items():
        t = c
        for v in k:
            t *= sol[v]
        tot += t
    return tot


def rand_poly(labels, spin):
    P = {}
    for _ in range(rng.randint(1, 4)):
        k = tuple(rng.sample(labels, rng.randint(0, min(3, len(labels)))))
        P[k] = P.get(k, 0) + rng.randint(-2, 2)
    return P


def assignments(vs, spin):
    vals = (1, -1) if spin else (0, 1)
    for t in itertools.product(vals, repeat=len(vs)):
        yield dict(zip(vs, t))


def true_range(P, xs, spin):
    vals = [value(P, x, spin) for x in assignments(xs, spin)]
    return min(vals), max(vals)


def check_penalty(F, P, xs, lam, unsat_warned, spin_model):
    """F penalises exactly the x with P(x) == 0. Ancillas of a PCBO are
    boolean, ancillas of a PCSO are spins."""
    ancs = sorted(v for k in F for v in k if is_anc(v))
    ancs = sorted(set(ancs))
    others = set(v for k in F for v in k if not is_anc(v))
    assert others <= set(xs), (others, xs)
    for x in assignments(xs, spin_model):
        p = value(P, x, spin_model)
        best = None
        for a in assignments(ancs, spin_model):
            s = dict(x)
            s.update(a)
            f = value(F, s, spin_model)
            assert f >= 0, (F, s, f)
            best = f if best is None or f < best else best
        if unsat_warned:
            continue
        if p != 0:
            assert best == 0, (P, x, best)
        else:
            assert best >= lam, (P, x, best, lam)
    return ancs


def one_case(spin):
    cls, base = (PCSO, PUSO) if spin else (PCBO, PUBO)
    labels = rng.choice([[0, 1, 2], ['x', 'y', 'z'], [(0, 1), 'b', 7]])
    H = cls()
    seen_ancillas = set()
    prev = base()
    for _ in range(rng.randint(1, 2)):
        # keep the range of P small: the unary (log_trick=False) encoding
        # uses about (range of P) ancillas, all of which are enumerated.
        while True:
            P = rand_poly(labels, spin)
            Pm = base(P)
            xs = sorted(Pm.variables, key=str)
            lo, hi = true_range(Pm, xs, spin)
            # (spin constraints are bounded through their boolean form)
            alo, ahi = approximate_pubo_extrema(
                puso_to_pubo(Pm) if spin else Pm)
            log_trick = rng.random() < .5
            if ahi - alo <= (40 if log_trick else 6):
                break
        # the spin path goes through floats (division by powers of two), so
        # use dyadic weights there; they are exact.
        lam = rng.choice([1, 2, 5, 0.5, 2.25] if spin else
                         [1, 2, 5, Fraction(1, 2), Fraction(7, 3)])
        bounds = rng.choice([
            None, (None, None), (lo, None), (None, hi), (lo, hi),
            (lo - rng.randint(0, 1), hi + rng.randint(0, 1)),
            (lo - Fraction(1, 2), hi + Fraction(1, 2)),
        ])
        Pcopy = dict(P)
        with warnings.catch_warnings(record=True) as w:
            warnings.simplefilter('always')
            H.add_constraint_ne_zero(P, lam=lam, log_trick=log_trick,
                                     bounds=bounds)
        assert P == Pcopy, "argument mutated"
        unsat = any(issubclass(x.category, QUBOVertWarning) and
                    'cannot' in str(x.message) for x in w)
        F = base(H) - prev
        prev = base(H)
        ancs = check_penalty(F, Pm, xs, lam, unsat, spin)
        assert not (set(ancs) & seen_ancillas), "ancilla reused"
        seen_ancillas |= set(ancs)
        for a in ancs:
            assert int(a[3:]) < H.num_ancillas
    # is_solution_valid agrees with the recorded constraints
    cons = H.constraints.get('ne', [])
    allx = sorted(set(v for c in cons for v in c.variables), key=str)
    for x in assignments(allx, spin):
        assert H.is_solution_valid(x) == all(value(c, x, spin) != 0
                                             for c in cons)
    assert set(H.constraints) <= {'ne'}


for n in range(60):
    one_case(spin=bool(n % 2))

# a fixed, concrete instance: x0 + x1 != 1
H = PCBO().add_constraint_ne_zero({(0,): 1, (1,): 1, (): -1})
OLD_NUM_ANCILLAS = 3
if H.num_ancillas != OLD_NUM_ANCILLAS:
    print("OBSERVABLE: PCBO().add_constraint_ne_zero({(0,): 1, (1,): 1, "
          "(): -1}).num_ancillas == %d (unchanged library: %d); H = %s"
          % (H.num_ancillas, OLD_NUM_ANCILLAS, dict(H)))
print("ok")
