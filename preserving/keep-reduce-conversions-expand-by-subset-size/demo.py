"""demo for conversions-expand-by-subset-size.

Brute-force check of statement C04 (and the bits of C01/C19 that touch it)
for qubo_to_quso, quso_to_qubo, pubo_to_puso, puso_to_pubo and the to_*
methods built on them, on random dicts / models of every type with exact
(integer / dyadic) coefficients.  Exits 0 with and without the change.
"""
import copy
import itertools
import random
import sys
from fractions import Fraction

import qubovert as qv
from qubovert.utils import (
    qubo_to_quso, quso_to_qubo, pubo_to_puso, puso_to_pubo,
    QUBOMatrix, QUSOMatrix, PUBOMatrix, PUSOMatrix,
)

LABELS = ['a', 'b', 0, 1, 3, ('t', 1), -2, 'zz']


def value(D, x):
    """direct evaluation; works for boolean and spin assignments and for raw
    dicts with unsorted / repeated labels"""
    tot = Fraction(0)
    for k, v in D.items():
        p = 1
        for i in k:
            p *= x[i]
        tot += Fraction(v) * p
    return tot


def reference(D, to_spin):
    """the textbook expansion, term by term, as a map from frozensets of
    labels to exact coefficients"""
    out = {}
    for k, v in D.items():
        poly = {(): Fraction(v)}
        for lab in k:
            new = {}
            for kk, c in poly.items():
                # x = (1 - z) / 2      or      z = 1 - 2 x
                const, lin = ((Fraction(1, 2), Fraction(-1, 2)) if to_spin
                              else (1, -2))
                new[kk] = new.get(kk, 0) + c * const
                new[kk + (lab,)] = new.get(kk + (lab,), 0) + c * lin
            poly = new
        for kk, c in poly.items():
            if to_spin:     # z*z = 1
                key = frozenset(i for i in kk if kk.count(i) % 2)
            else:           # x*x = x
                key = frozenset(kk)
            out[key] = out.get(key, 0) + c
    return {k: c for k, c in out.items() if c}


def as_ref(M):
    return {frozenset(k): Fraction(v) for k, v in M.items()}


def random_dict(rng, maxdeg, matrix, raw):
    labels = list(range(5)) if matrix else rng.sample(LABELS, rng.randint(2, 5))
    d = {}
    for _ in range(rng.randint(1, 7)):
        r = rng.randint(0, maxdeg)
        if raw:
            k = tuple(rng.choice(labels) for _ in range(r))
        else:
            k = tuple(rng.sample(labels, min(r, len(labels))))
        d[k] = rng.choice([-3, -2, -1, 1, 2, 5, .5, -.25])
    return d


def quad_ok(k, spin):
    eff = {x for x in k if k.count(x) % 2} if spin else set(k)
    return len(eff) <= 2


def main():
    rng = random.Random(4)
    n_checked = 0
    for trial in range(48):
        for fn, src_spin, maxdeg, mat_in, mat_out, lab_in, lab_out in (
            (qubo_to_quso, False, 2, QUBOMatrix, QUSOMatrix, qv.QUBO, qv.QUSO),
            (quso_to_qubo, True, 2, QUSOMatrix, QUBOMatrix, qv.QUSO, qv.QUBO),
            (pubo_to_puso, False, 4, PUBOMatrix, PUSOMatrix, qv.PUBO, qv.PUSO),
            (puso_to_pubo, True, 4, PUSOMatrix, PUBOMatrix, qv.PUSO, qv.PUBO),
        ):
            kind = trial % 4
            d = random_dict(rng, maxdeg, matrix=(kind == 0), raw=(kind == 3))
            if maxdeg == 2:
                d = {k: v for k, v in d.items() if quad_ok(k, src_spin)}
            if kind == 0:
                src = mat_in(d)
            elif kind == 1:
                src = lab_in(d)
            elif kind == 2 and maxdeg == 4:
                src = (qv.PCSO if src_spin else qv.PCBO)(d)
            else:
                src = d
            snapshot = copy.deepcopy(dict(src))
            out = fn(src)
            # documented type rule
            assert type(out) is (mat_out if type(src) is mat_in else lab_out)
            # inputs are not modified
            assert dict(src) == snapshot and type(src) in (
                dict, mat_in, lab_in, qv.PCBO, qv.PCSO)
            # canonical storage
            assert all(v for v in out.values())
            assert all(len(set(k)) == len(k) for k in out)
            # exactly the expansion (as a function and as coefficients)
            assert as_ref(out) == reference(d, to_spin=not src_spin), (d, out)
            labels = sorted(set(i for k in d for i in k), key=str)
            for bits in itertools.product((0, 1), repeat=len(labels)):
                xb = dict(zip(labels, bits))
                xs = {lab: 1 - 2 * b for lab, b in xb.items()}
                a, b = (xs, xb) if src_spin else (xb, xs)
                assert value(d, a) == value(out, b), (d, out, xb)
            # bookkeeping of the result is an upper bound of the truth (C14)
            assert set(i for k in out for i in k) <= out.variables
            if lab_out is type(out):
                mp = out.mapping
                assert set(mp) == out.variables
                assert sorted(mp.values()) == list(range(len(mp)))
            n_checked += 1

    # the to_* methods built on the four functions (no reduction needed)
    for trial in range(24):
        spin = bool(trial % 2)
        d = random_dict(rng, 3, matrix=False, raw=False)
        M = (qv.PUSO if spin else qv.PUBO)(d)
        mp, n = M.mapping, M.num_binary_variables
        for meth, dspin in (('to_pubo', False), ('to_puso', True)):
            D = getattr(M, meth)()
            assert type(D) is (PUSOMatrix if dspin else PUBOMatrix)
            for bits in itertools.product((0, 1), repeat=n):
                x = {lab: (1 - 2 * bits[i] if spin else bits[i])
                     for lab, i in mp.items()}
                s = [1 - 2 * b if dspin else b for b in bits]
                assert value(D, s) == value(M, x)
                assert M.convert_solution(
                    tuple(s), spin=dspin) == x or len(set(s)) == 1
        if M.degree <= 2:
            for meth, dspin in (('to_qubo', False), ('to_quso', True)):
                D = getattr(M, meth)()
                assert type(D) is (QUSOMatrix if dspin else QUBOMatrix)
                for bits in itertools.product((0, 1), repeat=n):
                    x = {lab: (1 - 2 * bits[i] if spin else bits[i])
                         for lab, i in mp.items()}
                    s = [1 - 2 * b if dspin else b for b in bits]
                    assert value(D, s) == value(M, x)
        n_checked += 1
    print("checked", n_checked, "conversions against direct evaluation (C04)")

    # C01 through the spin route (PUSO -> boolean image -> reduce -> spins):
    # the order in which the image's terms come out decides which pairs get
    # ancillas, never whether the reduction is sound.
    n_red = 0
    for trial in range(16):
        labels = rng.sample(LABELS, 4)
        M = qv.PUSO()
        for _ in range(3):
            M[tuple(rng.sample(labels, rng.randint(1, 4)))] += rng.choice(
                [-2, -1, 1, 3])
        M[tuple(rng.sample(labels, 3))] += 2
        M.refresh()
        n, mp = M.num_binary_variables, M.mapping
        for D, dspin in ((M.to_quso(), True), (M.to_qubo(), False)):
            assert all(len(k) <= 2 for k in D)
            m = max([i for k in D for i in k] + [n - 1]) + 1
            if m - n > 7:
                continue
            hit = set()
            for bits in itertools.product((0, 1), repeat=m):
                s = {i: (1 - 2 * b if dspin else b) for i, b in enumerate(bits)}
                x = M.convert_solution(dict(s), spin=dspin)
                assert x == {lab: 1 - 2 * bits[i] for lab, i in mp.items()}
                assert value(D, s) >= value(M, x)
                if value(D, s) == value(M, x):
                    hit.add(bits[:n])
            assert len(hit) == 2 ** n
            n_red += 1
    print("checked", n_red, "reductions of spin models (C01)")

    old = [(0, 1), (1,), (0,), ()]
    new = list(pubo_to_puso({(0, 1): 1}))
    if new != old:
        print("OBSERVABLE: key order of pubo_to_puso({(0,1):1}) was %r, is %r"
              "; list(qubo_to_quso({(0,1):1})) was [(0,1),(0,),(1,),()], is %r"
              % (old, new, list(qubo_to_quso({(0, 1): 1}))))
    return 0


if __name__ == "__main__":
    sys.exit(main())
