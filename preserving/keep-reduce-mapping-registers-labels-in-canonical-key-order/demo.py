"""demo for mapping-registers-labels-in-canonical-key-order.

Random edit histories on the six labelled model types; checks by brute force
the parts of C14 (bookkeeping), C04 (enumeration / convert_solution), C01
(labels of reduced forms), C09/C11 (solutions over exactly the variables) and
C19 (info / copy round trips) that involve the label <-> integer mapping.
Exits 0 with and without the change.
"""
import itertools
import random
import sys
import warnings
from fractions import Fraction

import qubovert as qv
from qubovert.utils import get_info, create_from_info

LABELS = [0, 1, 2, 5, 'a', 'b', 'c', ('t', 1), ('t', 0), -3, 'zz']
BOOL = (qv.QUBO, qv.PUBO, qv.PCBO)
SPIN = (qv.QUSO, qv.PUSO, qv.PCSO)


def value(D, x, spin):
    tot = Fraction(0)
    for k, v in D.items():
        p = 1
        for i in k:
            p *= x[i]
        tot += Fraction(v) * p
    return tot


def true_variables(M):
    return set(i for k in M for i in k)


def check_bookkeeping(M, exact):
    mp, rmp = M.mapping, M.reverse_mapping
    n = M.num_binary_variables
    assert true_variables(M) <= M.variables
    assert set(mp) == M.variables, (M, mp, M.variables)
    assert sorted(rmp) == list(range(n)) == sorted(mp.values())
    assert all(rmp[i] == lab for lab, i in mp.items())
    assert M.degree >= max([len(k) for k in M] + [0]) or not M
    if exact:
        assert true_variables(M) == M.variables
        assert M.degree == max([len(k) for k in M] + [0]) or not M
    # returned objects are independent of the model
    mp['__new__'] = 99
    rmp[99] = '__new__'
    assert '__new__' not in M.mapping and 99 not in M.reverse_mapping


def check_enumeration(M, spin, rng):
    mp, n = M.mapping, M.num_binary_variables
    E = M.to_enumerated()
    assert all(isinstance(i, int) and 0 <= i < n for k in E for i in k)
    for bits in itertools.product((0, 1), repeat=n):
        for form in ('b', 's'):
            vals = [b if form == 'b' else 1 - 2 * b for b in bits]
            for cont in (dict(enumerate(vals)), list(vals), tuple(vals)):
                if len(set(vals)) == 1 and vals and vals[0] == 1:
                    x = M.convert_solution(cont, spin=(form == 's'))
                else:
                    x = M.convert_solution(cont)
                want = {lab: (1 - 2 * bits[i] if spin else bits[i])
                        for lab, i in mp.items()}
                assert x == want, (M, cont, x, want)
        own = [1 - 2 * b if spin else b for b in bits]
        assert value(E, own, spin) == value(M, want, spin)
    # the other three formulations (no reduction needed for degree <= 2;
    # otherwise only the labels are checked here)
    for meth in ('to_qubo', 'to_quso', 'to_pubo', 'to_puso'):
        D = getattr(M, meth)()
        labs = set(i for k in D for i in k)
        assert all(isinstance(i, int) and i >= 0 for i in labs)
        if M.degree <= 2 or meth in ('to_pubo', 'to_puso'):
            assert all(i < n for i in labs)
            dspin = meth in ('to_quso', 'to_puso')
            for bits in itertools.product((0, 1), repeat=n):
                x = {lab: (1 - 2 * bits[i] if spin else bits[i])
                     for lab, i in mp.items()}
                s = [1 - 2 * b if dspin else b for b in bits]
                assert value(D, s, dspin) == value(M, x, spin), (M, meth)


def check_roundtrips(M):
    info = get_info(M)
    C = create_from_info(info)
    assert type(C) is type(M) and C == M and C.name == M.name
    assert C.mapping == M.mapping and C.reverse_mapping == M.reverse_mapping
    assert get_info(C) == info
    K = M.copy()
    assert type(K) is type(M) and K == M
    before = (dict(M), M.mapping, M.variables)
    K[('__x__', '__y__')] = 3
    K[('__x__',)] += 1
    assert (dict(M), M.mapping, M.variables) == before


def check_solvers(M, spin):
    if not M.variables or M.num_binary_variables > 6:
        return
    best = min(
        value(M, dict(zip(sorted(M.variables, key=str), vals)), spin)
        for vals in itertools.product((1, -1) if spin else (0, 1),
                                      repeat=len(M.variables)))
    solver = {False: qv.utils.solve_pubo_bruteforce,
              True: qv.utils.solve_puso_bruteforce}[spin]
    e, sol = solver(M)
    assert set(sol) == M.variables and Fraction(e) == best
    assert value(M, sol, spin) == best
    sol = M.solve_bruteforce()
    assert set(sol) == M.variables and value(M, sol, spin) == best
    fn = {qv.QUBO: qv.sim.anneal_qubo, qv.QUSO: qv.sim.anneal_quso,
          qv.PUBO: qv.sim.anneal_pubo, qv.PUSO: qv.sim.anneal_puso,
          qv.PCBO: qv.sim.anneal_pubo, qv.PCSO: qv.sim.anneal_puso}[type(M)]
    res = fn(M, num_anneals=2, anneal_duration=5, seed=3)
    res2 = fn(M, num_anneals=2, anneal_duration=5, seed=3)
    assert len(res) == 2 and res == res2
    for r in res:
        assert set(r.state) == M.variables, (M, r.state, M.variables)
        assert set(r.state.values()) <= ({1, -1} if spin else {0, 1})
        assert Fraction(r.value) == value(M, r.state, spin)


def random_history(cls, rng):
    spin = cls in SPIN
    maxdeg = 2 if cls in (qv.QUBO, qv.QUSO) else 4
    labels = rng.sample(LABELS, rng.randint(2, 5))
    M = cls()
    for step in range(rng.randint(3, 9)):
        r = rng.random()
        k = tuple(rng.choice(labels) for _ in range(rng.randint(0, maxdeg)))
        if cls in (qv.QUBO, qv.QUSO):
            eff = set(k) if not spin else {x for x in k if k.count(x) % 2}
            if len(eff) > 2:
                continue
        c = rng.choice([-3, -2, -1, 0, 0, 1, 2, 4])
        if r < .35:
            M[k] = c
        elif r < .6:
            M[k] += c
        elif r < .7:
            M[k] -= M[k]          # cancellation
        elif r < .8:
            M += {k: c}
        elif r < .88:
            M *= rng.choice([2, -1])
        elif r < .94:
            M.update({k: c})
        else:
            M = M.copy()
        check_bookkeeping(M, exact=False)
    return M, spin


def main():
    warnings.simplefilter('ignore')
    rng = random.Random(77)
    count = 0
    for trial in range(60):
        cls = (BOOL + SPIN)[trial % 6]
        M, spin = random_history(cls, rng)
        if trial % 2:
            f_before = dict(M)
            M.refresh()
            assert dict(M) == f_before
            check_bookkeeping(M, exact=True)
        if M.num_binary_variables <= 6:
            if trial % 2:
                check_enumeration(M, spin, rng)
                check_solvers(M, spin)
            check_roundtrips(M)
        count += 1
    print("checked", count, "edit histories (C14, C04, C19, C09/C11 parts)")

    M = qv.PUBO({('b', 'a'): 1, ('b',): 3})
    old_mapping, old_enum = {'b': 0, 'a': 1}, {(0, 1): 1, (0,): 3}
    if M.mapping != old_mapping:
        print("OBSERVABLE: PUBO({('b','a'):1,('b',):3}): mapping was %r, is "
              "%r; to_pubo() was %r, is %r"
              % (old_mapping, M.mapping, old_enum, dict(M.to_pubo())))
    return 0


if __name__ == "__main__":
    sys.exit(main())
