"""demo for reduce-counts-only-reducible-terms.

Brute-force check of statement C01 (and the parts of C04 / C14 it leans on)
for the degree reduction of PUBO / PUSO / PCBO / PCSO models, with exact
(integer / dyadic) arithmetic.  Exits 0 with and without the change.
"""
import itertools
import random
import sys
from fractions import Fraction

import qubovert as qv

LABELS = [0, 1, 2, 'a', 'b', ('t', 1), 7, -3, 'zz']


def bool_value(D, x):
    return sum(Fraction(v) * all(x[i] for i in k) for k, v in D.items())


def spin_value(D, z):
    tot = Fraction(0)
    for k, v in D.items():
        p = 1
        for i in k:
            p *= z[i]
        tot += Fraction(v) * p
    return tot


def random_model(rng, spin, constrained):
    n = rng.randint(3, 5)
    labels = rng.sample(LABELS, n)
    cls = {(False, False): qv.PUBO, (True, False): qv.PUSO,
           (False, True): qv.PCBO, (True, True): qv.PCSO}[(spin, constrained)]
    M = cls()
    for _ in range(rng.randint(2, 6)):
        k = tuple(rng.sample(labels, rng.randint(0, min(n, 4))))
        M[k] += rng.choice([-3, -2, -1, 1, 2, 3, 4])
    # make sure something has to be reduced
    M[tuple(rng.sample(labels, min(n, rng.choice([3, 4]))))] += rng.choice(
        [-2, -1, 1, 3])
    M.refresh()
    return M


def check(M, spin_model, rng):
    n = M.num_binary_variables
    mapping = M.mapping
    assert sorted(mapping.values()) == list(range(n))
    assert set(mapping) == M.variables
    # the terms that get reduced are those of the boolean image of the model
    image = qv.utils.puso_to_pubo(M) if spin_model else M
    maxcoef = max([abs(v) for v in image.values()] + [1])
    for target in ('qubo', 'quso', 'pubo', 'puso'):
        for lam in (None, maxcoef, 3 * maxcoef + 1, (lambda v: 2 * abs(v) + 1)):
            pairs = None
            if rng.random() < .5 and n >= 2:
                pairs = {tuple(rng.sample(sorted(mapping, key=str), 2))
                         for _ in range(rng.randint(1, 3))}
            if target == 'qubo':
                deg, D = 2, M.to_qubo(lam=lam, pairs=pairs)
            elif target == 'quso':
                deg, D = 2, M.to_quso(lam=lam, pairs=pairs)
            elif target == 'pubo':
                deg = rng.choice([2, 3])
                D = M.to_pubo(deg, lam=lam, pairs=pairs)
            else:
                deg = rng.choice([2, 3])
                D = M.to_puso(deg, lam=lam, pairs=pairs)
            spin_target = target in ('quso', 'puso')
            assert all(len(k) <= deg for k in D), (M, target, D)
            labels = set(i for k in D for i in k)
            assert all(isinstance(i, int) and i >= 0 for i in labels)
            m = max(max(labels, default=-1) + 1, n)   # model vars + ancillas
            if m - n > 6:
                continue
            dval = spin_value if spin_target else bool_value
            mval = spin_value if spin_model else bool_value
            # group the assignments of D by the model assignment they extend
            seen, hit = set(), set()
            for s in itertools.product((0, 1), repeat=m):
                sol = {i: (1 - 2 * b if spin_target else b)
                       for i, b in enumerate(s)}
                val = dval(D, sol)
                x = M.convert_solution(dict(sol), spin=spin_target)
                assert set(x) == M.variables
                for lab, i in mapping.items():
                    want = s[i]
                    assert x[lab] == (1 - 2 * want if spin_model else want)
                mv = mval(M, x)
                assert val >= mv, (M, target, lam, sol, val, mv)
                seen.add(s[:n])
                if val == mv:
                    hit.add(s[:n])
            # every model assignment has an extension with D(s) == M(x)
            assert len(seen) == 2 ** n and hit == seen, (M, target, lam)


def main():
    rng = random.Random(20261005)
    count = 0
    for trial in range(36):
        spin = bool(trial % 2)
        constrained = bool((trial // 2) % 2)
        M = random_model(rng, spin, constrained)
        check(M, spin, rng)
        count += 1
    # small penalties: the extension property must hold whatever the penalty
    for trial in range(12):
        M = random_model(rng, False, False)
        n = M.num_binary_variables
        D = M.to_qubo(lam=Fraction(1, 8))
        m = max([i for k in D for i in k] + [n - 1]) + 1
        if m - n > 6:
            continue
        rev = M.reverse_mapping
        for xs in itertools.product((0, 1), repeat=n):
            x = {rev[i]: b for i, b in enumerate(xs)}
            assert any(
                bool_value(D, dict(enumerate(xs + a))) == bool_value(M, x)
                for a in itertools.product((0, 1), repeat=m - n))
    print("checked", count, "random models against C01 by brute force")

    # one concrete output
    M = qv.PUBO({(0, 1, 2): 1, (1, 2): 5})
    old = {(0, 3): 1, (1, 2): 7, (3,): 6, (1, 3): -4, (2, 3): -4}
    new = dict(M.to_qubo())
    if new != old:
        print("OBSERVABLE: PUBO({(0,1,2):1,(1,2):5}).to_qubo() was %r, is %r"
              % (old, new))
    return 0


if __name__ == "__main__":
    sys.exit(main())
