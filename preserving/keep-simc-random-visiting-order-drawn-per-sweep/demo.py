import copy
import itertools
import math
import random
import sys
import warnings

import numpy as np  # noqa: F401  (the library needs it; keeps the demo honest)

from qubovert import QUSO, PUSO, PCSO, QUBO, PUBO, PCBO
from qubovert.sim import (
    anneal_quso, anneal_puso, anneal_qubo, anneal_pubo, AnnealResults
)
from qubovert.utils import (
    QUSOMatrix, PUSOMatrix, QUBOMatrix, PUBOMatrix
)

warnings.simplefilter("ignore")
RNG = random.Random(20261005)


# --------------------------------------------------------------------------
# exact evaluation (integer coefficients only, so float == exact)
# --------------------------------------------------------------------------

def value(model, state):
    """Direct evaluation of sum coef * prod state[label]."""
    tot = 0
    for k, v in dict(model).items():
        p = 1
        for lab in k:
            p *= state[lab]
        tot += v * p
    return tot


def variables_of(model):
    return {lab for k in dict(model) for lab in k}


LABEL_POOLS = [
    list(range(12)),
    [0, 3, 4, 9, 17, 20, 21],
    ['a', 'b', 'c', 'd', 'e', 'f'],
    ['x0', 1, 'y', 7, (1, 2), 'z'],
]


def random_model(max_deg, nterms, labels, offset=True, odd_linear=False):
    """dict with integer coefficients; canonical (sorted, no repeats) is NOT
    required by the library for dict input, but we keep labels distinct inside
    a key so that boolean and spin semantics are unambiguous."""
    m = {}
    for _ in range(nterms):
        d = RNG.randint(1, max_deg)
        d = min(d, len(labels))
        k = tuple(RNG.sample(labels, d))
        c = RNG.choice([-3, -2, -1, 1, 2, 3])
        m[k] = m.get(k, 0) + c
    if offset and RNG.random() < .6:
        m[()] = RNG.choice([-5, -1, 2, 7])
    return {k: v for k, v in m.items() if v}


def check_results(res, model, variables, spin, num_anneals, what):
    assert isinstance(res, AnnealResults), what
    assert len(res) == num_anneals, (what, len(res), num_anneals)
    dom = (1, -1) if spin else (0, 1)
    vals = []
    for r in res:
        assert set(r.state) == set(variables), (what, r.state, variables)
        assert all(v in dom for v in r.state.values()), (what, r.state)
        assert bool(r.spin) == spin, what
        assert r.value == value(model, r.state), (what, r.value, r.state)
        vals.append(r.value)
    if num_anneals > 0:
        assert res.best.value == min(vals), what
        assert any(res.best is r or res.best == r for r in res), what
    else:
        assert res.best is None


# --------------------------------------------------------------------------
# C11 / C19 / reproducibility on random inputs
# --------------------------------------------------------------------------

def random_kwargs(variables, spin):
    kw = {}
    kw['num_anneals'] = RNG.choice([1, 1, 2, 3, 5])
    kind = RNG.randrange(5)
    if kind == 0:
        kw['schedule'] = 'linear'
        kw['anneal_duration'] = RNG.choice([1, 2, 7, 30])
    elif kind == 1:
        kw['schedule'] = 'geometric'
        kw['anneal_duration'] = RNG.choice([1, 2, 7, 30])
        if RNG.random() < .5:
            kw['temperature_range'] = (3., .25)
    elif kind == 2:
        kw['schedule'] = []
    elif kind == 3:
        kw['schedule'] = [0, 0, 0]
    else:
        kw['schedule'] = [RNG.choice([0, .5, 1, 2.5, 10])
                          for _ in range(RNG.randint(1, 6))]
    if RNG.random() < .5:
        dom = (1, -1) if spin else (0, 1)
        kw['initial_state'] = {v: RNG.choice(dom) for v in variables}
    kw['in_order'] = RNG.random() < .5
    kw['seed'] = RNG.choice([0, 1, 2, 17, 12345, 2**31 - 1])
    return kw


def run_general(n_models=36):
    for it in range(n_models):
        labels = RNG.choice(LABEL_POOLS)
        quadratic = it % 2 == 0
        spin = (it // 2) % 2 == 0
        model = random_model(2 if quadratic else 4, RNG.randint(0, 9), labels)
        if spin:
            fn = anneal_quso if quadratic else anneal_puso
            types = ([dict, QUSO] if quadratic else [dict, PUSO, PCSO])
        else:
            fn = anneal_qubo if quadratic else anneal_pubo
            types = ([dict, QUBO] if quadratic else [dict, PUBO, PCBO])
        # for boolean models a repeated label is idempotent, for spin models it
        # squares to one; our keys have distinct labels so `value` is right.
        T = RNG.choice(types)
        arg = T(model) if T is not dict else dict(model)
        variables = variables_of(model)
        kw = random_kwargs(variables, spin)
        snapshot = copy.deepcopy(arg)
        init_snapshot = copy.deepcopy(kw.get('initial_state'))
        what = (fn.__name__, T.__name__, model, kw)
        res = fn(arg, **kw)
        check_results(res, model, variables, spin, kw['num_anneals'], what)
        # C12: identical calls with a fixed seed give identical results
        res2 = fn(arg, **kw)
        assert res == res2, what
        assert [r.state for r in res] == [r.state for r in res2], what
        # C19: nothing passed in was mutated
        assert arg == snapshot and type(arg) is type(snapshot), what
        assert kw.get('initial_state') == init_snapshot, what
        # C12: at temperature zero no step increases the energy
        if 'initial_state' in kw and kw.get('schedule') == [0, 0, 0]:
            e0 = value(model, kw['initial_state'])
            assert all(r.value <= e0 for r in res), what
    # num_anneals <= 0
    for fn in (anneal_quso, anneal_puso):
        assert len(fn({(0, 1): 1}, num_anneals=0)) == 0
        assert len(fn({(0, 1): 1}, num_anneals=-2)) == 0


# --------------------------------------------------------------------------
# Matrix inputs (labels with gaps) and the exact T = 0 sweep (C11, C12, C17)
# --------------------------------------------------------------------------

def ref_zero_T_sweeps(model, state, n, sweeps, spin):
    """Sweep labels 0..n-1 in order, flip whenever the exact energy change is
    negative. (The demo models never have a zero energy change.)"""
    state = dict(state)
    for _ in range(sweeps):
        for i in range(n):
            before = value(model, state)
            state[i] = -state[i] if spin else 1 - state[i]
            dE = value(model, state) - before
            assert dE != 0
            if dE > 0:
                state[i] = -state[i] if spin else 1 - state[i]
    return state


def run_matrix(n_models=32):
    for it in range(n_models):
        quadratic = it % 2 == 0
        spin = (it // 2) % 2 == 0
        n = RNG.randint(1, 7)
        # odd linear coefficient on every index, even coefficients elsewhere:
        # every single-variable energy change is then an odd integer, never 0
        model = {(i,): RNG.choice([-3, -1, 1, 3]) for i in range(n)}
        for _ in range(RNG.randint(0, 8)):
            d = min(n, RNG.randint(2, 2 if quadratic else 4))
            if d < 2:
                continue
            k = tuple(sorted(RNG.sample(range(n), d)))
            model[k] = RNG.choice([-4, -2, 2, 4])
        if RNG.random() < .5:
            model[()] = RNG.choice([-2, 5])
        if spin:
            M = (QUSOMatrix if quadratic else PUSOMatrix)(model)
            fn = anneal_quso if quadratic else anneal_puso
        else:
            M = (QUBOMatrix if quadratic else PUBOMatrix)(model)
            fn = anneal_qubo if quadratic else anneal_pubo
        dom = (1, -1) if spin else (0, 1)
        init = {i: RNG.choice(dom) for i in range(n)}
        sweeps = RNG.randint(1, 4)
        snapshot = copy.deepcopy(M)
        res = fn(M, num_anneals=2, initial_state=init, schedule=[0] * sweeps,
                 in_order=True, seed=RNG.randint(0, 99))
        what = (fn.__name__, model, init, sweeps)
        check_results(res, model, range(n), spin, 2, what)
        expect = ref_zero_T_sweeps(model, init, n, sweeps, spin)
        for r in res:
            assert r.state == expect, (what, r.state, expect)
            assert r.value <= value(model, init), what
        # random visiting at T = 0 still never goes up
        res = fn(M, num_anneals=3, initial_state=init, schedule=[0] * sweeps,
                 in_order=False, seed=RNG.randint(0, 99))
        check_results(res, model, range(n), spin, 3, what)
        assert all(r.value <= value(model, init) for r in res), what
        assert M == snapshot, what

    # Matrix labels with gaps: every index 0..max_index gets a value
    for M, fn, spin in (
        (QUSOMatrix({(2, 9): 2, (4,): -1, (): 3}), anneal_quso, True),
        (PUSOMatrix({(1, 5, 11): 2, (3, 5): -1}), anneal_puso, True),
        (QUBOMatrix({(0, 6): -2, (6,): 1}), anneal_qubo, False),
        (PUBOMatrix({(2, 3, 8, 13): -2, (8,): 1, (): 1}), anneal_pubo, False),
        (QUSOMatrix({(5,): 1}), anneal_quso, True),
        (PUSOMatrix({(0, 1, 2, 3, 4, 5, 6, 7, 8, 9): 1}), anneal_puso, True),
    ):
        for in_order in (True, False):
            for sched in ('geometric', [], [0, 0], [2, 1, 0]):
                res = fn(M, num_anneals=3, anneal_duration=9, schedule=sched,
                         in_order=in_order, seed=4)
                check_results(res, dict(M), range(M.max_index + 1), spin, 3,
                              (fn.__name__, dict(M), in_order, sched))
    # stale bookkeeping: a variable without any term left
    H = PUSO()
    H[(0, 1, 2)] = 1
    H[('q',)] = 2
    H[('q',)] = 0
    res = anneal_puso(H, num_anneals=2, seed=1, anneal_duration=5)
    assert len(res) == 2
    for r in res:
        assert r.value == value(H, r.state)
        assert set(r.state) >= {0, 1, 2}


# --------------------------------------------------------------------------
# C12: k sweeps of single-spin Metropolis, exact distribution vs. empirical
# --------------------------------------------------------------------------

def exact_distribution(model, n, init, Ts, in_order):
    states = list(itertools.product((1, -1), repeat=n))
    idx = {s: a for a, s in enumerate(states)}
    E = [value(model, dict(enumerate(s))) for s in states]

    def step_matrix(i, T):
        P = [[0.] * len(states) for _ in states]
        for a, s in enumerate(states):
            t = list(s)
            t[i] = -t[i]
            b = idx[tuple(t)]
            dE = E[b] - E[a]
            if dE <= 0:
                acc = 1.
            elif T > 0:
                acc = math.exp(-dE / T)
            else:
                acc = 0.
            P[a][b] += acc
            P[a][a] += 1 - acc
        return P

    dist = [0.] * len(states)
    dist[idx[tuple(init[i] for i in range(n))]] = 1.
    for T in Ts:
        for j in range(n):
            if in_order:
                mats = [(1., step_matrix(j, T))]
            else:
                mats = [(1. / n, step_matrix(i, T)) for i in range(n)]
            new = [0.] * len(states)
            for w, P in mats:
                for a, pa in enumerate(dist):
                    if pa:
                        for b, pab in enumerate(P[a]):
                            if pab:
                                new[b] += w * pa * pab
            dist = new
    return states, dist


def run_distribution(N=50000):
    cases = [
        (anneal_quso, {(0, 1): 1, (1, 2): -2, (0,): 1, (2,): -1}, 3),
        (anneal_puso, {(0, 1, 2): 2, (0, 1): -1, (2,): 1, (1,): -1}, 3),
        (anneal_quso, {(0, 1): -1, (0,): 2}, 2),
        (anneal_puso, {(0, 1, 2, 3): 1, (0, 2): 1, (3,): -1}, 4),
    ]
    for fn, model, n in cases:
        for in_order in (True, False):
            init = {i: RNG.choice((1, -1)) for i in range(n)}
            Ts = [3., 1.5]
            states, dist = exact_distribution(model, n, init, Ts, in_order)
            res = fn(model, num_anneals=N, initial_state=init, schedule=Ts,
                     in_order=in_order, seed=RNG.randint(0, 10**6))
            counts = {s: 0 for s in states}
            for r in res:
                counts[tuple(r.state[i] for i in range(n))] += 1
            chi2, df, pooled_e, pooled_o = 0., -1, 0., 0
            for s, p in zip(states, dist):
                e = p * N
                if e < 8:
                    pooled_e += e
                    pooled_o += counts[s]
                    continue
                if p == 0:
                    assert counts[s] == 0
                    continue
                chi2 += (counts[s] - e) ** 2 / e
                df += 1
            if pooled_e > 0:
                chi2 += (pooled_o - pooled_e) ** 2 / max(pooled_e, 1.)
                df += 1
            # far tail: P(chi2_df > df + 8*sqrt(2 df) + 12) < 1e-7 for df <= 16
            bound = df + 8 * math.sqrt(2 * max(df, 1)) + 12
            assert chi2 < bound, (fn.__name__, model, in_order, chi2, df)


def run_all():
    run_general()
    run_matrix()
    run_distribution()


# --------------------------------------------------------------------------
# change under test: with in_order=False the len_state spins visited during
# one temperature step are all drawn before the step's updates, instead of
# interleaving "draw index, maybe draw acceptance" per update
# --------------------------------------------------------------------------

def random_visiting():
    # more distribution checks aimed at random visiting: other temperatures,
    # more sweeps, a zero temperature in the middle of the schedule
    N = 50000
    cases = [
        (anneal_quso, {(0, 1): 2, (1, 2): -1, (0, 2): 1, (1,): -1}, 3,
         [5., 0., 2.]),
        (anneal_puso, {(0, 1, 2): -2, (0,): 1, (1, 2): 1}, 3, [1., 1., 1., 1.]),
        (anneal_quso, {(0,): 1}, 1, [2., 2.]),
        (anneal_puso, {(0, 1): 1, (0,): -2, (1,): 1}, 2, [.7]),
    ]
    for fn, model, n, Ts in cases:
        init = {i: RNG.choice((1, -1)) for i in range(n)}
        states, dist = exact_distribution(model, n, init, Ts, False)
        kw = dict(num_anneals=N, initial_state=init, schedule=Ts,
                  in_order=False, seed=RNG.randint(0, 10**6))
        res = fn(model, **kw)
        assert res == fn(model, **kw)
        counts = {s: 0 for s in states}
        for r in res:
            counts[tuple(r.state[i] for i in range(n))] += 1
        chi2, df = 0., -1
        for s, p in zip(states, dist):
            if p * N < 8:
                continue
            chi2 += (counts[s] - p * N) ** 2 / (p * N)
            df += 1
        assert chi2 < df + 8 * math.sqrt(2 * max(df, 1)) + 12, (model, chi2)
    # T = 0: random visiting never goes up, and reaches a state from which
    # the visited spins could not improve; in-order results are what they
    # always were (reference sweep), whatever the visiting buffer does
    for it in range(30):
        n = RNG.randint(1, 8)
        model = {(i,): RNG.choice([-3, -1, 1, 3]) for i in range(n)}
        for _ in range(RNG.randint(0, 8)):
            if n >= 2:
                k = tuple(sorted(RNG.sample(range(n), RNG.randint(2, min(n, 4)))))
                model[k] = RNG.choice([-4, -2, 2, 4])
        quad = all(len(k) <= 2 for k in model)
        M = QUSOMatrix(model) if quad else PUSOMatrix(model)
        fn = anneal_quso if quad else anneal_puso
        init = {i: RNG.choice((1, -1)) for i in range(n)}
        e0 = value(model, init)
        for sched in ([0], [0] * 5, []):
            res = fn(M, num_anneals=4, initial_state=init, schedule=sched,
                     in_order=False, seed=it)
            check_results(res, model, range(n), True, 4, (model, sched))
            assert all(r.value <= e0 for r in res)
            assert res == fn(M, num_anneals=4, initial_state=init,
                             schedule=sched, in_order=False, seed=it)
            res = fn(M, num_anneals=2, initial_state=init, schedule=sched,
                     in_order=True, seed=it)
            exp = ref_zero_T_sweeps(model, init, n, len(sched), True)
            assert all(r.state == exp for r in res)
    # quso and puso kernels agree on quadratic models (the repo suite relies
    # on it), including with random visiting
    L = {(i, j): 1 for i in range(7) for j in range(i + 1, 7)}
    L.update({(i,): 1 for i in range(7)})
    for seed in range(6):
        kw = dict(num_anneals=3, anneal_duration=30, in_order=False, seed=seed,
                  temperature_range=(2, .5))
        assert anneal_puso(L, **kw) == anneal_quso(L, **kw)


def observable():
    L = {(i, i + 1): (-1) ** i * (i + 1) for i in range(8)}
    L[(3,)] = 2
    L[(0,)] = -1
    init = {i: 1 for i in range(9)}
    kw = dict(num_anneals=2, schedule=[4., 2., 1.], initial_state=init, seed=7)
    rnd = [[r.state[i] for i in range(9)]
           for r in anneal_quso(L, in_order=False, **kw)]
    ordr = [[r.state[i] for i in range(9)]
            for r in anneal_quso(L, in_order=True, **kw)]
    OLD_RND = [[1, -1, -1, 1, 1, -1, -1, 1, 1],
               [1, 1, 1, -1, 1, -1, -1, 1, 1]]
    OLD_ORD = [[1, -1, 1, -1, 1, -1, -1, 1, 1], [1, -1, 1, -1, 1, -1, -1, 1, 1]]
    assert ordr == OLD_ORD, ordr   # in-order visiting draws the same numbers
    what = ("anneal_quso(L, num_anneals=2, schedule=[4., 2., 1.], "
            "initial_state=all +1, seed=7, in_order=False) states")
    if rnd != OLD_RND:
        print("OBSERVABLE: %s are now %s, unchanged library gives %s"
              % (what, rnd, OLD_RND))
    else:
        print("same as unchanged library: %s = %s" % (what, rnd))


if __name__ == '__main__':
    run_all()
    random_visiting()
    observable()
    print("demo ok")
    sys.exit(0)
