"""Demo for change `anneal-values-from-model-value` (C11, C12, C19).

Random models of every accepted kind are annealed; each result is checked to
be well formed and its value is compared, in exact rational arithmetic, with
the model evaluated at the reported state (offset included).  Also checks the
seeded reproducibility, the zero-temperature clauses of C12 and that the
inputs are not modified.

Exits 0 with and without the change.  With the change it prints one
OBSERVABLE line (the reported value of an integer model is an int).
"""

import random
import warnings
from fractions import Fraction
from qubovert import QUSO, PUSO, PCSO, QUBO, PUBO, PCBO
from qubovert.utils import QUSOMatrix, PUSOMatrix, QUBOMatrix, PUBOMatrix
from qubovert.sim import anneal_qubo, anneal_quso, anneal_pubo, anneal_puso

warnings.simplefilter("ignore")

NATIVE = {
    (anneal_quso, QUSOMatrix), (anneal_puso, PUSOMatrix),
    (anneal_puso, QUSOMatrix), (anneal_qubo, QUBOMatrix),
    (anneal_pubo, PUBOMatrix),
}
LABELS = ['a', 'b', ('c', 1), 3, 0, 'z', -2, 7]


def exact_value(terms, state, spin):
    """Evaluate {key: coefficient} at state (dict) exactly."""
    total = Fraction(0)
    for k, c in terms.items():
        p = Fraction(c)
        if spin:
            for v in k:
                p *= state[v]
        else:
            for v in set(k):
                p *= state[v]
        total += p
    return total


def rand_coef(rng):
    kind = rng.random()
    if kind < .5:
        return rng.choice([-3, -2, -1, 1, 2, 3])
    # dyadic rationals: exact in binary floating point
    return rng.choice([-1, 1]) * rng.randint(1, 12) / 4


def rand_terms(rng, labels, degree, offset):
    n = len(labels)
    terms = {}
    for _ in range(rng.randint(1, 2 * n)):
        d = rng.randint(1, min(degree, n))
        idx = sorted(rng.sample(range(n), d))
        terms[tuple(labels[i] for i in idx)] = rand_coef(rng)
    if offset:
        terms[()] = rand_coef(rng)
    return terms


def variables_of(terms):
    return set(v for k in terms for v in k)


def check_results(res, terms, expected_vars, spin, num_anneals):
    assert len(res) == num_anneals
    allowed = (1, -1) if spin else (0, 1)
    for r in res:
        assert r.spin == spin
        assert set(r.state) == expected_vars, (r.state, expected_vars)
        assert all(v in allowed for v in r.state.values())
        assert Fraction(r.value) == exact_value(terms, r.state, spin), (
            r.value, exact_value(terms, r.state, spin))
    assert any(res.best is r for r in res)
    assert res.best.value == min(r.value for r in res)


def sweep_reference(terms, n, state, sweeps):
    """Zero temperature, in-order sweeps over labels 0..n-1.

    Returns (final state, ambiguous) where ambiguous says that some energy
    change was exactly zero (then the statement does not fix the outcome).
    """
    state = dict(state)
    ambiguous = False
    for _ in range(sweeps):
        for i in range(n):
            before = exact_value(terms, state, True)
            state[i] = -state[i]
            dE = exact_value(terms, state, True) - before
            if dE == 0:
                ambiguous = True
            if dE >= 0:
                state[i] = -state[i]
    return state, ambiguous


def main():
    rng = random.Random(7)
    checked_sweeps = 0

    for trial in range(60):
        quadratic = rng.random() < .5
        degree = 2 if quadratic else rng.randint(3, 4)
        offset = rng.random() < .6
        matrix = rng.random() < .35
        n = rng.randint(1, 5)
        if matrix:
            labels = sorted(rng.sample(range(8), n))  # gaps allowed
        else:
            labels = rng.sample(LABELS, n)
        sterms = rand_terms(rng, labels, degree, offset)
        bterms = rand_terms(rng, labels, degree, offset)

        if matrix:
            stypes = [QUSOMatrix, PUSOMatrix] if quadratic else [PUSOMatrix]
            btypes = [QUBOMatrix, PUBOMatrix] if quadratic else [PUBOMatrix]
        else:
            stypes = [dict, QUSO, PUSO, PCSO] if quadratic else [
                dict, PUSO, PCSO]
            btypes = [dict, QUBO, PUBO, PCBO] if quadratic else [
                dict, PUBO, PCBO]

        kwargs = dict(
            num_anneals=rng.randint(1, 4), seed=rng.randint(0, 10**6),
            in_order=rng.random() < .5,
        )
        what = rng.choice(['linear', 'geometric', 'list', 'zeros', 'empty'])
        if what in ('linear', 'geometric'):
            kwargs['schedule'] = what
            kwargs['anneal_duration'] = rng.randint(1, 30)
            if rng.random() < .5:
                kwargs['temperature_range'] = (3., .5)
        elif what == 'list':
            kwargs['schedule'] = [rng.choice([0, .5, 2., 10.])
                                  for _ in range(rng.randint(1, 10))]
        elif what == 'zeros':
            kwargs['schedule'] = [0] * rng.randint(1, 4)
        else:
            kwargs['schedule'] = []

        for spin, types, terms in ((True, stypes, sterms),
                                   (False, btypes, bterms)):
            for type_ in types:
                model = type_(terms)
                snapshot = dict(model)
                full = variables_of(terms)
                if matrix:
                    full = set(range(max(full) + 1))
                if spin:
                    funcs = [anneal_puso] + (
                        [anneal_quso] if quadratic else [])
                else:
                    funcs = [anneal_pubo] + (
                        [anneal_qubo] if quadratic else [])
                for f in funcs:
                    # Matrix models handed to the function of their own kind
                    # get every index up to the largest one; a Matrix of the
                    # other degree class goes through a labelled model.
                    expected_vars = full if (f, type_) in NATIVE or (
                        not matrix) else variables_of(terms)
                    kw = dict(kwargs)
                    if rng.random() < .5:
                        vals = (1, -1) if spin else (0, 1)
                        kw['initial_state'] = {
                            v: rng.choice(vals) for v in expected_vars}
                    res = f(model, **kw)
                    check_results(res, terms, expected_vars, spin,
                                  kw['num_anneals'])
                    assert f(model, **kw) == res, "not reproducible"
                    assert dict(model) == snapshot and type(model) is type_
                    assert len(f(model, num_anneals=0)) == 0

                    if 'initial_state' in kw and (
                            what in ('zeros', 'empty')):
                        start = exact_value(terms, kw['initial_state'], spin)
                        assert all(Fraction(r.value) <= start for r in res)
                        if matrix and spin and kw['in_order'] and (
                                expected_vars == full):
                            ref, amb = sweep_reference(
                                terms, len(expected_vars),
                                kw['initial_state'], len(kw['schedule']))
                            if not amb:
                                checked_sweeps += 1
                                assert all(r.state == ref for r in res)

    # constant models
    for f, spin in ((anneal_quso, True), (anneal_puso, True),
                    (anneal_qubo, False), (anneal_pubo, False)):
        res = f({(): 5}, num_anneals=3)
        assert len(res) == 3
        assert all(r.state == {} and r.value == 5 and r.spin == spin
                   for r in res)

    # a few explicit zero-temperature sweeps on matrices without ties
    for seed in range(20):
        rng2 = random.Random(seed)
        n = rng2.randint(2, 6)
        terms = {(i, j): rng2.choice([-4, -2, 2, 4])
                 for i in range(n) for j in range(i + 1, n)}
        terms.update({(i,): rng2.choice([-1, 1]) for i in range(n)})
        init = {i: rng2.choice([1, -1]) for i in range(n)}
        ref, amb = sweep_reference(terms, n, init, 3)
        assert not amb
        for f, type_ in ((anneal_quso, QUSOMatrix),
                         (anneal_puso, PUSOMatrix)):
            res = f(type_(terms), num_anneals=2, initial_state=init,
                    schedule=[0, 0, 0], in_order=True)
            assert all(r.state == ref for r in res)
            assert all(Fraction(r.value) == exact_value(terms, ref, True)
                       for r in res)
            checked_sweeps += 1
    assert checked_sweeps >= 20

    # a concrete difference: the type of the reported value
    res = anneal_quso({(0, 1): 1, (1, 2): -1}, seed=3)
    assert res.best.state == {0: -1, 1: 1, 2: 1} and res.best.value == -2
    old = '-2.0'
    if repr(res.best.value) != old:
        print("OBSERVABLE: anneal_quso({(0, 1): 1, (1, 2): -1}, seed=3)"
              ".best.value is now %r (%s), it was %s (float)" % (
                  res.best.value, type(res.best.value).__name__, old))


if __name__ == '__main__':
    main()
