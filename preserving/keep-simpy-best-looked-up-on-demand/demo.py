"""Demo for change `best-looked-up-on-demand` (C13, and the `best` clause of C11).

Runs random sequences of the list operations AnnealResults supports against a
plain-list model and checks after every step that

* the contents equal the plain list's contents,
* ``best`` is None exactly when the collection is empty and otherwise is an
  element (by identity) whose value is the smallest one,
* derived collections are AnnealResults, to_boolean / to_spin keep the values
  and are mutually inverse on the states, sort orders by value.

Exits 0 with and without the change.  With the change it prints one
OBSERVABLE line (tie-breaking after ``insert``).
"""

import random
from qubovert.sim import AnnealResult, AnnealResults, anneal_quso


def rand_result(rng, spin=True):
    n = 3
    if spin:
        state = {i: rng.choice((1, -1)) for i in range(n)}
    else:
        state = {i: rng.choice((0, 1)) for i in range(n)}
    # few distinct values, so that ties are common
    return AnnealResult(state, rng.randint(-2, 2), spin)


def check(res, model):
    assert type(res) is AnnealResults
    assert len(res) == len(model)
    assert all(a is b for a, b in zip(res, model)), "contents differ"
    best = res.best
    if not model:
        assert best is None
    else:
        assert best is not None
        assert any(best is x for x in res), "best is not an element"
        assert best.value == min(x.value for x in model), "best not minimal"


def check_derived(res, model, rng):
    # derived collections
    for d in (res.copy(), res[:], res[1:], res[::2], res + res, res * 2,
              res + list(model), res * 0,
              res.filter(lambda r: r.value <= 0),
              res.filter_states(lambda s: s[0] in (1,)),
              res.apply_function(
                  lambda r: AnnealResult(r.state, -r.value, r.spin)),
              res.convert_states(lambda s: {k + 1: v for k, v in s.items()}),
              res.to_boolean(), res.to_spin()):
        assert type(d) is AnnealResults
        if len(d):
            assert any(d.best is x for x in d)
            assert d.best.value == min(x.value for x in d)
        else:
            assert d.best is None
    assert [r for r in res.copy()] == list(model)
    assert list(res + res) == list(model) + list(model)
    assert list(res * 2) == list(model) * 2
    assert list(res.filter(lambda r: r.value <= 0)) == [
        r for r in model if r.value <= 0]
    b, s = res.to_boolean(), res.to_spin()
    assert [r.value for r in b] == [r.value for r in model]
    assert [r.value for r in s] == [r.value for r in model]
    assert all(not r.spin for r in b) and all(r.spin for r in s)
    assert b.to_spin() == s and s.to_boolean() == b
    assert list(s) == [r.to_spin() for r in model]
    srt = res.copy()
    srt.sort()
    assert [r.value for r in srt] == sorted(r.value for r in model)
    check(srt, sorted(model, key=lambda r: r.value))


def run_sequence(rng, length):
    spin = rng.random() < .5
    start = [rand_result(rng, spin) for _ in range(rng.randint(0, 3))]
    res, model = AnnealResults(start), list(start)
    check(res, model)
    for _ in range(length):
        op = rng.choice((
            'append', 'add_state', 'insert', 'remove', 'pop', 'extend_list',
            'extend_res', 'iadd_list', 'iadd_res', 'setitem', 'setslice',
            'delitem', 'delslice', 'clear', 'sort', 'add', 'mul', 'copy',
        ))
        r = rand_result(rng, spin)
        if op == 'append':
            res.append(r), model.append(r)
        elif op == 'add_state':
            res.add_state(r.state, r.value, r.spin)
            model.append(res[-1])
            assert res[-1] == r
        elif op == 'insert':
            i = rng.randint(-len(model) - 1, len(model) + 1)
            res.insert(i, r), model.insert(i, r)
        elif op == 'remove':
            if model and rng.random() < .8:
                r = rng.choice(model)
            try:
                model.remove(r)
            except ValueError:
                try:
                    res.remove(r)
                except ValueError:
                    pass
                else:
                    raise AssertionError("remove should have raised")
            else:
                res.remove(r)
        elif op == 'pop':
            if model:
                i = rng.randint(-len(model), len(model) - 1)
                assert res.pop(i) is model.pop(i)
            else:
                try:
                    res.pop(0)
                except IndexError:
                    pass
                else:
                    raise AssertionError("pop should have raised")
        elif op in ('extend_list', 'extend_res', 'iadd_list', 'iadd_res'):
            other = [rand_result(rng, spin) for _ in range(rng.randint(0, 3))]
            arg = AnnealResults(other) if op.endswith('res') else (
                rng.choice((list, tuple, iter))(other))
            if op.startswith('extend'):
                res.extend(arg)
            else:
                before = res
                res += arg
                assert res is before
            model.extend(other)
        elif op == 'setitem':
            if model:
                i = rng.randint(-len(model), len(model) - 1)
                res[i] = r
                model[i] = r
        elif op == 'setslice':
            i, j = sorted(rng.randint(0, len(model) + 1) for _ in range(2))
            other = [rand_result(rng, spin) for _ in range(rng.randint(0, 3))]
            res[i:j] = other
            model[i:j] = other
        elif op == 'delitem':
            if model:
                i = rng.randint(-len(model), len(model) - 1)
                del res[i]
                del model[i]
        elif op == 'delslice':
            i, j = sorted(rng.randint(0, len(model) + 1) for _ in range(2))
            step = rng.choice((1, 1, 2))
            del res[i:j:step]
            del model[i:j:step]
        elif op == 'clear':
            if rng.random() < .3:
                res.clear(), model.clear()
        elif op == 'sort':
            res.sort(), model.sort(key=lambda x: x.value)
        elif op == 'add':
            other = [rand_result(rng, spin) for _ in range(rng.randint(0, 3))]
            arg = AnnealResults(other) if rng.random() < .5 else other
            res, model = res + arg, model + other
        elif op == 'mul':
            k = rng.choice((0, 1, 1, 2))
            res, model = res * k, model * k
        elif op == 'copy':
            res, model = res.copy(), list(model)
        check(res, model)
        if rng.random() < .2:
            check_derived(res, model, rng)
    check_derived(res, model, rng)


def main():
    rng = random.Random(2024)
    for _ in range(60):
        run_sequence(rng, rng.randint(1, 40))

    # the annealers' results: best has the smallest value (C11)
    for seed in range(10):
        L = {(i, j): rng.randint(-2, 2) for i in range(6) for j in range(i)}
        out = anneal_quso(L, num_anneals=8, anneal_duration=5, seed=seed)
        assert len(out) == 8
        assert any(out.best is x for x in out)
        assert out.best.value == min(x.value for x in out)
        assert out.to_boolean().best.value == out.best.value

    # a concrete difference: which of two equally good results is `best`
    # after one of them is inserted in front of the other.
    a = AnnealResult({0: 1}, 2, True)
    b = AnnealResult({0: 1}, 1, True)
    c = AnnealResult({0: -1}, 1, True)
    res = AnnealResults([a, b])
    res.insert(0, c)
    assert res.best.value == 1 and (res.best is b or res.best is c)
    old = {0: 1}  # state of `b`: the unchanged library keeps the older one
    if res.best.state != old:
        print("OBSERVABLE: AnnealResults([a(2), b(1)]).insert(0, c(1)); "
              "best.state is now %s (first minimal element, c), it was %s "
              "(b)" % (res.best.state, old))


if __name__ == '__main__':
    main()
