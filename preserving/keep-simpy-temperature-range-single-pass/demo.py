"""Demo for change `temperature-range-single-pass` (C15 second half, C11).

Random boolean and spin models of every kind (plain dicts with explicit zeros,
unsorted keys and repeated labels, labelled models with stale bookkeeping,
Matrix models) and random admissible pairs of flip probabilities:

* T0 >= Tf >= 0, and (0, 0) for a model without variables,
* the result equals the documented formula (2 * the largest sum of term
  magnitudes around one variable / -log(start), 2 * the smallest nonzero term
  magnitude / -log(end)) evaluated independently,
* boolean models give the range of their spin form,
* invalid probabilities raise ValueError, the model is not modified,
* the annealers still run with the default (derived) schedule.

Exits 0 with and without the change.  With the change it prints one
OBSERVABLE line: the per-variable sums are accumulated term by term instead of
with the builtin ``sum`` (which is a compensated sum since Python 3.12), so
for coefficients that are not exactly representable the hot temperature can
differ in the last bit.  Integer / dyadic coefficients give identical results.
"""

import math
import random
import warnings
from qubovert import QUSO, PUSO, PCSO, QUBO, PUBO, PCBO
from qubovert.utils import (
    QUSOMatrix, PUSOMatrix, QUBOMatrix, PUBOMatrix, pubo_to_puso
)
from qubovert.sim import anneal_temperature_range, anneal_quso, anneal_pubo

warnings.simplefilter("ignore")

LABELS = ['a', 'b', ('c', 1), 3, 0, 'z', -2, 7]
PROBS = [0, .01, .1, .25, .5, .57, .9, .999]


def reference(spin_terms, p0, p1):
    """The documented estimate, computed the slow and obvious way."""
    nonconst = [(k, c) for k, c in spin_terms.items() if k]
    if not any(c for _, c in nonconst):
        return 0, 0
    variables = set(v for k, _ in nonconst for v in k)
    hi = 2 * max(
        sum(abs(c) for k, c in nonconst if v in k) for v in variables
    )
    lo = 2 * min(abs(c) for _, c in nonconst if c)
    return (-hi / math.log(p0) if p0 else 0.,
            -lo / math.log(p1) if p1 else 0.)


def close(a, b):
    return all(math.isclose(x, y, rel_tol=1e-12, abs_tol=0)
               for x, y in zip(a, b))


def rand_terms(rng, labels, degree, raw):
    n = len(labels)
    terms = {}
    for _ in range(rng.randint(0, 2 * n)):
        d = rng.randint(1, min(degree, n))
        key = rng.sample(labels, d)
        if raw and rng.random() < .3:
            key.append(rng.choice(key))  # repeated label
        if not raw:
            pass
        terms[tuple(key)] = rng.choice(
            [-3, -2, -1, 1, 2, 3, .25, -1.5, 1e-3, 40, .1, -.7, 1 / 3, 1e9, 1e-9]
            + ([0, 0.] if raw else []))
    if rng.random() < .5:
        terms[()] = rng.choice([-2, 5, .5])
    return terms


def main():
    rng = random.Random(5)

    for bad in (dict(end_flip_prob=-.3), dict(end_flip_prob=1),
                dict(start_flip_prob=-.1), dict(start_flip_prob=2),
                dict(start_flip_prob=.3, end_flip_prob=.9)):
        try:
            anneal_temperature_range({(0,): 1}, **bad)
        except ValueError:
            pass
        else:
            raise AssertionError("ValueError expected for %s" % bad)

    for empty in ({}, {(): 3}, {(0,): 0, (): 1}, {(0, 1): 0.}):
        for spin in (True, False):
            assert anneal_temperature_range(empty, spin=spin) == (0, 0)
    for type_ in (QUSO, PUSO, PCSO, QUSOMatrix, PUSOMatrix):
        assert anneal_temperature_range(type_(), spin=True) == (0, 0)
        assert anneal_temperature_range(type_({(): -2}), spin=True) == (0, 0)
    for type_ in (QUBO, PUBO, PCBO, QUBOMatrix, PUBOMatrix):
        assert anneal_temperature_range(type_()) == (0, 0)
        assert anneal_temperature_range(type_({(): -2})) == (0, 0)

    # stale bookkeeping: the variable is still reported, no term is left
    H = PUSO({('a', 'b'): 2})
    H[('a', 'b')] -= 2
    assert anneal_temperature_range(H, spin=True) == (0, 0)
    H[('c',)] += 3
    assert close(anneal_temperature_range(H, .5, .25, spin=True),
                 (-6 / math.log(.5), -6 / math.log(.25)))

    n_checked = 0
    for trial in range(120):
        degree = rng.choice([2, 2, 3, 4])
        n = rng.randint(1, 6)
        matrix = rng.random() < .3
        raw = (not matrix) and rng.random() < .4
        labels = list(range(n)) if matrix else rng.sample(LABELS, n)
        terms = rand_terms(rng, labels, degree, raw)
        if matrix:
            terms = {tuple(sorted(k)): v for k, v in terms.items()}
        p1 = rng.choice(PROBS)
        p0 = rng.choice([p for p in PROBS if p >= p1])

        if raw:
            stypes = btypes = [dict]
        elif matrix:
            stypes = [PUSOMatrix] + ([QUSOMatrix] if degree == 2 else [])
            btypes = [PUBOMatrix] + ([QUBOMatrix] if degree == 2 else [])
        else:
            stypes = [dict, PUSO, PCSO] + ([QUSO] if degree == 2 else [])
            btypes = [dict, PUBO, PCBO] + ([QUBO] if degree == 2 else [])

        for type_ in stypes:
            model = type_(terms)
            snapshot = dict(model)
            got = anneal_temperature_range(model, p0, p1, spin=True)
            assert dict(model) == snapshot
            T0, Tf = got
            assert T0 >= Tf >= 0, (terms, p0, p1, got)
            # a raw dict is taken literally, key by key
            assert close(got, reference(dict(model), p0, p1)), (
                terms, got, reference(dict(model), p0, p1))
            if not any(k for k in model):
                assert got == (0, 0)
            n_checked += 1

        for type_ in btypes:
            model = type_(terms)
            snapshot = dict(model)
            got = anneal_temperature_range(model, p0, p1)
            assert got == anneal_temperature_range(model, p0, p1, spin=False)
            assert dict(model) == snapshot
            T0, Tf = got
            assert T0 >= Tf >= 0, (terms, p0, p1, got)
            spin_form = pubo_to_puso(model)
            assert close(got, reference(dict(spin_form), p0, p1))
            assert close(got, anneal_temperature_range(
                spin_form, p0, p1, spin=True))
            n_checked += 1
    assert n_checked > 300

    # the pinned examples of the documentation / test-suite
    H = {(0, 1, 2): 2, (3,): -1, (4, 5): 5, (): -2}
    assert close(anneal_temperature_range(H, .57, .1, True),
                 (-10 / math.log(.57), -2 / math.log(.1)))
    H = {(0, 1): 1, (1, 2,): -2, (1, 2, 3): 6, (): 11}
    assert close(anneal_temperature_range(H, .56, .16, True),
                 (-18 / math.log(.56), -2 / math.log(.16)))
    assert anneal_temperature_range(H, .56, 0, True)[1] == 0
    assert anneal_temperature_range(H, 0, 0, True) == (0, 0)

    # a concrete difference (last bit of T0; needs Python >= 3.12 where the
    # builtin sum of floats is compensated)
    got = anneal_temperature_range(
        {(0,): .1, (0, 1): .2, (0, 2): .3}, spin=True)
    assert close(got, (-1.2 / math.log(.5), -.2 / math.log(.01)))
    assert got[0] >= got[1] >= 0
    old = (1.7312340490667562, 0.04342944819032519)
    if got != old:
        print("OBSERVABLE: anneal_temperature_range({(0,): .1, (0, 1): .2, "
              "(0, 2): .3}, spin=True) is now %r, it was %r" % (got, old))

    # default schedules of the annealers are derived from it
    for seed in range(5):
        L = {(i, j): rng.choice([-2, 1, 3]) for i in range(5) for j in range(i)}
        for sched in ('linear', 'geometric'):
            res = anneal_quso(L, num_anneals=3, anneal_duration=20,
                              schedule=sched, seed=seed)
            assert len(res) == 3
            for r in res:
                assert r.value == sum(
                    c * r.state[i] * r.state[j] for (i, j), c in L.items())
            P = {(0, 1, 2): 2, (1,): -1, (2, 3): 1.5, (): 1}
            res = anneal_pubo(P, num_anneals=3, anneal_duration=20,
                              schedule=sched, seed=seed)
            for r in res:
                x = r.state
                assert r.value == (2 * x[0] * x[1] * x[2] - x[1]
                                   + 1.5 * x[2] * x[3] + 1)


if __name__ == '__main__':
    main()
