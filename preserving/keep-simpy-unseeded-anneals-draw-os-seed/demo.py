"""Demo for change `unseeded-anneals-draw-os-seed` (C11, C12, C17).

* seeded calls are reproducible and different seeds are really used,
* unseeded calls return well formed results whose values match their states,
* zero temperature never increases the energy,
* at a positive temperature the distribution of the final states (many
  anneals of one call, seeded and unseeded) matches the exact k-sweep
  Metropolis distribution, in order and with random visiting.

Exits 0 with and without the change.  With the change it prints one
OBSERVABLE line (two unseeded calls right after each other differ).
"""

import itertools
import math
import random
import warnings
from qubovert.utils import QUSOMatrix, PUSOMatrix
from qubovert.sim import anneal_qubo, anneal_quso, anneal_pubo, anneal_puso

warnings.simplefilter("ignore")


def value(terms, z):
    return sum(c * math.prod(z[i] for i in k) for k, c in terms.items())


def exact_distribution(terms, n, init, Ts, in_order):
    """Distribution over final states after len(Ts) sweeps of n updates."""
    dist = {tuple(init[i] for i in range(n)): 1.}
    for T in Ts:
        for j in range(n):
            new = {}
            for s, p in dist.items():
                for i in ([j] if in_order else range(n)):
                    w = p if in_order else p / n
                    t = list(s)
                    t[i] = -t[i]
                    t = tuple(t)
                    dE = value(terms, t) - value(terms, s)
                    a = 1. if dE <= 0 else (math.exp(-dE / T) if T > 0 else 0.)
                    new[t] = new.get(t, 0.) + w * a
                    new[s] = new.get(s, 0.) + w * (1 - a)
            dist = new
    return dist


def check_distribution(res, dist, n):
    N = len(res)
    counts = {}
    for r in res:
        key = tuple(r.state[i] for i in range(n))
        counts[key] = counts.get(key, 0) + 1
    for s in itertools.product((1, -1), repeat=n):
        p = dist.get(s, 0.)
        c = counts.get(s, 0)
        if p == 0:
            assert c == 0, (s, c)
        else:
            sigma = math.sqrt(N * p * (1 - p)) + 1e-9
            assert abs(c - N * p) <= 6 * sigma + 1, (s, c, N * p)


def main():
    rng = random.Random(11)

    # --- well-formedness, reproducibility, zero temperature -------------
    for trial in range(40):
        n = rng.randint(1, 6)
        quadratic = rng.random() < .5
        terms = {}
        for _ in range(rng.randint(1, 2 * n)):
            d = rng.randint(1, min(n, 2 if quadratic else 4))
            terms[tuple(sorted(rng.sample(range(n), d)))] = rng.choice(
                [-3, -2, -1, 1, 2, 3, .5, -1.5])
        terms[(n - 1,)] = terms.get((n - 1,), 1)  # every index present
        if rng.random() < .5:
            terms[()] = rng.choice([-2, 1.5, 7])
        f = anneal_quso if quadratic else anneal_puso
        model = (QUSOMatrix if quadratic else PUSOMatrix)(terms)
        init = {i: rng.choice((1, -1)) for i in range(n)}
        for seed in (None, rng.randint(0, 2**31 - 1), 0):
            for in_order in (True, False):
                kw = dict(num_anneals=3, seed=seed, in_order=in_order,
                          schedule=[rng.choice([0, 1., 5.]) for _ in range(4)])
                res = f(model, initial_state=init, **kw)
                res2 = f(dict(terms), **kw)
                labelled = set(v for k in terms for v in k)
                for out, variables in ((res, set(range(n))),
                                       (res2, labelled)):
                    assert len(out) == 3
                    for r in out:
                        assert r.spin is True
                        assert set(r.state) == variables
                        assert set(r.state.values()) <= {1, -1}
                        assert r.value == value(terms, r.state)
                    assert out.best.value == min(r.value for r in out)
                if seed is not None:
                    assert f(model, initial_state=init, **kw) == res
                    assert f(dict(terms), **kw) == res2
                kw['schedule'] = [0, 0]
                cold = f(model, initial_state=init, **kw)
                assert all(r.value <= value(terms, init) for r in cold)
        assert dict(model) == terms

    # boolean wrappers, unseeded
    for f in (anneal_qubo, anneal_pubo):
        Q = {(0, 1): 2, (1, 2): -3, (0,): 1, (): 4}
        for r in f(Q, num_anneals=5, anneal_duration=7):
            assert r.spin is False and set(r.state) == {0, 1, 2}
            x = r.state
            assert r.value == 2*x[0]*x[1] - 3*x[1]*x[2] + x[0] + 4

    # different seeds give different runs (hot, 40 free spins)
    free = {(i,): 1 for i in range(40)}
    outs = [anneal_quso(free, schedule=[1e9], seed=s)[0].state
            for s in range(6)]
    assert all(a != b for a, b in itertools.combinations(outs, 2))

    # --- distribution of the final states -------------------------------
    cases = [
        ({(0,): 1}, 1, {0: -1}, [2.]),
        ({(0, 1): 1, (0,): -1, (1,): .5}, 2, {0: 1, 1: 1}, [1.5, 1.]),
        ({(0, 1): -1, (1, 2): 2, (0,): 1}, 3, {0: 1, 1: -1, 2: 1}, [2., 3.]),
    ]
    for terms, n, init, Ts in cases:
        for in_order in (True, False):
            dist = exact_distribution(terms, n, init, Ts, in_order)
            assert abs(sum(dist.values()) - 1) < 1e-9
            for seed in (None, 5):
                for f in (anneal_quso, anneal_puso):
                    res = f(terms, num_anneals=6000, initial_state=init,
                            schedule=Ts, in_order=in_order, seed=seed)
                    check_distribution(res, dist, n)
    # cubic model, puso kernel only
    terms, n, init, Ts = {(0, 1, 2): 1, (0,): .5}, 3, {0: 1, 1: 1, 2: 1}, [1.]
    for in_order in (True, False):
        dist = exact_distribution(terms, n, init, Ts, in_order)
        for seed in (None, 9):
            res = anneal_puso(terms, num_anneals=6000, initial_state=init,
                              schedule=Ts, in_order=in_order, seed=seed)
            check_distribution(res, dist, n)

    # --- a concrete difference ------------------------------------------
    # Two unseeded calls right after each other. The unchanged library seeds
    # with time(NULL) and therefore repeats itself within one second; at most
    # one of the three pairs below can straddle a tick of the clock.
    differ = []
    for _ in range(3):
        a = anneal_quso(free, schedule=[1e9])
        b = anneal_quso(free, schedule=[1e9])
        differ.append(a != b)
    if all(differ):
        print("OBSERVABLE: a = anneal_quso(free40, schedule=[1e9]); "
              "b = (same call again): a == b is now False, it was True "
              "(both calls fell in the same second of time(NULL))")


if __name__ == '__main__':
    main()
