"""Demo for keep-change 1 (bruteforce-deterministic-label-order).

Checks statement C09 (and the no-mutation part of C19) for the four brute
force solvers on random dict / Matrix / model inputs by an independent
enumeration with exact (Fraction / int) arithmetic.
"""
import itertools
import random
from fractions import Fraction

from qubovert import PUBO, PUSO, QUBO, QUSO
from qubovert.utils import (
    solve_pubo_bruteforce, solve_qubo_bruteforce,
    solve_puso_bruteforce, solve_quso_bruteforce,
    PUBOMatrix, QUSOMatrix,
)

rng = random.Random(12345)
LABELS = [
    [0, 1, 2, 3, 4],
    [8, 1, 16, 33, 5],
    ['a', 'b', 'c', 'd'],
    [0, 'x', (1, 2), 7, 'y'],          # mixed, still sortable by type
    [frozenset([1]), frozenset([2]), frozenset([1, 2]), 3],
    [1j, 2j, 3, 'q'],                  # complex: cannot be ordered
]


def spin_eval(D, x):
    tot = 0
    for k, c in D.items():
        t = c
        for lab in k:
            t = t * x[lab]
        tot += t
    return tot


def bool_eval(D, x):
    tot = 0
    for k, c in D.items():
        t = c
        for lab in k:
            t = t * x[lab]
        tot += t
    return tot


def random_dict(labels, deg, with_offset):
    D = {}
    for _ in range(rng.randint(1, 7)):
        k = tuple(rng.sample(labels, rng.randint(1, min(deg, len(labels)))))
        if any(tuple(sorted(k, key=repr)) == tuple(sorted(kk, key=repr))
               for kk in D):
            continue
        D[k] = rng.choice([-3, -2, -1, 1, 2, 3, Fraction(1, 2),
                           Fraction(-3, 2)])
    if with_offset:
        D[()] = rng.choice([-2, 5, Fraction(7, 3)])
    return D


def freeze(x):
    return frozenset(x.items())


def check(solver, D, spin, valid, case):
    variables = {lab for k in D for lab in k}
    before = dict(D)
    vals = (1, -1) if spin else (0, 1)
    ev = spin_eval if spin else bool_eval
    labs = list(variables)
    table = {}
    for t in itertools.product(vals, repeat=len(labs)):
        x = dict(zip(labs, t))
        if valid is None or valid(x):
            table[freeze(x)] = ev(before, x)
    kw = {} if valid is None else {'valid': valid}
    obj, sol = solver(D, **kw)
    obj_all, sols = solver(D, all_solutions=True, **kw)
    assert dict(D) == before, (case, "input mutated")
    if not table:
        assert obj is None and obj_all is None, case
        return
    m = min(table.values())
    assert obj == m and obj_all == m, (case, obj, obj_all, m)
    if not variables:
        assert sol == {} and sols == [{}], case
        return
    assert set(sol) == variables, (case, sol)
    assert table[freeze(sol)] == m, case
    minimisers = {f for f, v in table.items() if v == m}
    got = [freeze(s) for s in sols]
    assert all(set(s) == variables for s in sols), case
    assert len(got) == len(set(got)), (case, "duplicate minimiser")
    assert set(got) == minimisers, (case, "wrong set of minimisers")


n_cases = 0
for labels in LABELS:
    for rep in range(8):
        deg = rng.choice([2, 2, 3, 4])
        spin = rng.random() < .5
        D = random_dict(labels, deg, rng.random() < .5)
        quad = all(len(k) <= 2 for k in D)
        if spin:
            solver = solve_quso_bruteforce if quad and rng.random() < .5 \
                else solve_puso_bruteforce
        else:
            solver = solve_qubo_bruteforce if quad and rng.random() < .5 \
                else solve_pubo_bruteforce
        first = labels[0]
        hi = -1 if spin else 1
        valids = [None,
                  lambda x: x.get(first, hi) == hi,
                  lambda x: sum(1 for v in x.values() if v == hi) % 2 == 1,
                  lambda x: False]
        for valid in valids:
            check(solver, D, spin, valid, (labels, D, spin))
            n_cases += 1
        # the same function as a labelled model object
        cls = {solve_pubo_bruteforce: PUBO, solve_qubo_bruteforce: QUBO,
               solve_puso_bruteforce: PUSO, solve_quso_bruteforce: QUSO}
        if LABELS.index(labels) < 4:   # model objects need sortable labels
            M = cls[solver](D)
            check(solver, M, spin, None, ('model', labels, D))
            n_cases += 1

# Matrix inputs with gaps in the labels
for rep in range(10):
    D = random_dict([0, 3, 9, 17, 4], 3, rep % 2)
    check(solve_pubo_bruteforce, PUBOMatrix(D), False, None, ('PUBOMatrix', D))
    D2 = {k: v for k, v in D.items() if len(k) <= 2}
    if D2:
        check(solve_quso_bruteforce, QUSOMatrix(D2), True, None,
              ('QUSOMatrix', D2))
    n_cases += 2

# constants and the empty model
assert solve_pubo_bruteforce({}) == (0, {})
assert solve_puso_bruteforce({}, True) == (0, [{}])
assert solve_qubo_bruteforce({(): 7}) == (7, {})
assert solve_quso_bruteforce({(): -2}, all_solutions=True) == (-2, [{}])

# two minimisers, {1: 1, 8: 0} and {1: 0, 8: 1}; either one is a correct answer
D = {(1,): -1, (8,): -1, (1, 8): 2}
res = solve_qubo_bruteforce(D)
assert res in ((-1, {1: 1, 8: 0}), (-1, {1: 0, 8: 1}))
OLD = (-1, {8: 0, 1: 1})
OLD_ORDER = [8, 1]
if res != OLD or list(res[1]) != OLD_ORDER:
    print("OBSERVABLE: solve_qubo_bruteforce({(1,): -1, (8,): -1, (1, 8): 2})"
          " returned %r with key order %r; the unchanged library returns %r "
          "with key order %r" % (res, list(res[1]), OLD, OLD_ORDER))
print("ok, %d cases" % n_cases)
