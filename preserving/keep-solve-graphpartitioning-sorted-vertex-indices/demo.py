"""Demo for keep-change 3 (graphpartitioning-sorted-vertex-indices).

Checks statement C10 for GraphPartitioning on random small graphs by
enumerating every assignment of the formulation's variables, with an
independent evaluator and exact (dyadic) arithmetic.
"""
import itertools
import random

from qubovert.problems import GraphPartitioning

rng = random.Random(77)
POOLS = [
    [8, 1, 16, 33, 5, 40, 2, 64],
    list('hgfedcba'),
    [0, 'x', 3, 'y', (1, 2), (0, 'k'), 9, 'z'],
    [1j, 2j, 3, 'q', 5, 6],            # labels that cannot be ordered
]


def poly_eval(D, x):
    tot = 0
    for k, c in D.items():
        t = c
        for i in k:
            t *= x[i]
        tot += t
    return tot


def random_graph():
    pool = rng.choice(POOLS)
    nv = rng.choice([2, 4, 4, 6, 6, 8])
    nv = min(nv, len(pool) - len(pool) % 2)
    verts = rng.sample(pool, nv)
    edges = set()
    # make sure every vertex occurs (an even number of vertices = feasible)
    for v in verts:
        u = rng.choice([w for w in verts if w != v])
        if (u, v) not in edges:
            edges.add((v, u))
    for _ in range(rng.randint(0, nv)):
        u, v = rng.sample(verts, 2)
        if (u, v) not in edges and (v, u) not in edges:
            edges.add((u, v))
    if rng.random() < .3:
        v = rng.choice(verts)
        edges.add((v, v))     # documented: ignored
    return verts, edges


def cut(edges, p1, p2):
    return sum(w for (u, v), w in edges.items()
               if u != v and ((u in p1) != (v in p1)))


def check(verts, edges, weighted):
    if weighted:
        E = {e: rng.choice([1, 2, 3]) for e in edges}
        p = GraphPartitioning(E)
    else:
        E = {e: 1 for e in edges}
        p = GraphPartitioning(set(edges))
    before = dict(E)
    N = len(verts)
    assert p.num_binary_variables == N and p.V == set(verts)
    deg = {}
    for e in edges:
        for q in e:
            deg[q] = deg.get(q, 0) + 1
    maxdeg = max(deg.values())
    assert p.degree == maxdeg

    # decoding is a bijection between labels 0..N-1 and the vertices
    singles = [p.convert_solution([1 if j == i else -1 for j in range(N)])
               for i in range(N)]
    assert all(len(a) == 1 and len(b) == N - 1 and a | b == set(verts)
               for a, b in singles)
    index_to_vertex = [next(iter(a)) for a, _ in singles]
    assert set(index_to_vertex) == set(verts)

    # optimum of the stated problem
    best = None
    for half in itertools.combinations(verts, N // 2):
        c = cut(E, set(half), set(verts) - set(half))
        best = c if best is None or c < best else best

    # (generic Problem.solve_bruteforce: goes through to_qubo, so give it a
    # weight that certainly enforces the constraint)
    bf = p.solve_bruteforce(A=sum(E.values()) + 1)
    assert p.is_solution_valid(bf) and len(bf[0]) == len(bf[1])
    assert bf[0] | bf[1] == set(verts) and not (bf[0] & bf[1])
    assert cut(E, *bf) == best

    thr = min(2 * maxdeg, N) / 8
    if not weighted:
        settings = [(None, 1),
                    (thr + .25, 1), (2 * thr + .125, 2), (thr * 4 + 1, 4)]
    else:
        # the documented threshold is about unweighted graphs; for weighted
        # ones use a weight that certainly dominates the objective
        settings = [(sum(E.values()) + 1, 1), (2 * sum(E.values()) + .5, 2)]
    for A, B in settings:
        default = A is None
        L = p.to_quso() if default else p.to_quso(A, B)
        Q = p.to_qubo() if default else p.to_qubo(A, B)
        if default:
            A = thr * B
        for D in (L, Q):
            assert {i for k in D for i in k} <= set(range(N))
        energies = {}
        for z in itertools.product((1, -1), repeat=N):
            p1 = {index_to_vertex[i] for i in range(N) if z[i] == 1}
            p2 = set(verts) - p1
            for sol in (list(z), tuple(z), dict(enumerate(z))):
                assert p.convert_solution(sol, spin=True) == (p1, p2)
                assert p.is_solution_valid(sol, spin=True) == \
                    (len(p1) == len(p2))
            assert p.is_solution_valid((p1, p2)) == (len(p1) == len(p2))
            e = poly_eval(L, z)
            # the encoding: A (sum z)^2 + B cut
            assert e == A * (len(p1) - len(p2)) ** 2 + B * cut(E, p1, p2)
            x = tuple((1 - s) // 2 for s in z)
            assert poly_eval(Q, x) == e
            # boolean assignments decode to the same partition, up to order
            b1, b2 = p.convert_solution(list(x))
            assert {frozenset(b1), frozenset(b2)} == \
                {frozenset(p1), frozenset(p2)}
            assert p.is_solution_valid(list(x)) == (len(p1) == len(p2))
            energies[z] = e, (p1, p2)
        ground = min(e for e, _ in energies.values())
        assert ground == B * best, (edges, A, B, ground, best)
        gs = [part for e, part in energies.values() if e == ground]
        good = [len(a) == len(b) and cut(E, a, b) == best for a, b in gs]
        assert any(good)
        if not default:
            assert all(good), (edges, A, B)
    assert E == before


count = 0
for rep in range(36):
    verts, edges = random_graph()
    check(verts, edges, weighted=(rep % 3 == 2))
    count += 1

# documented example
edges = {("a", "b"), ("a", "c"), ("c", "d"), ("b", "c"), ("e", "f"),
         ("d", "e")}
p = GraphPartitioning(edges)
assert p.solve_bruteforce() in (({"a", "b", "c"}, {"d", "e", "f"}),
                                ({"d", "e", "f"}, {"a", "b", "c"}))

# which vertex does label 0 stand for?
p = GraphPartitioning({(8, 1), (1, 16), (16, 33)})
new = p.convert_solution([1, -1, -1, -1]), p.to_quso()[(0, 2)]
OLD = ({8}, {16, 1, 33}), 1.0
assert new in (OLD, (({1}, {8, 16, 33}), 0.5))
if new != OLD:
    print("OBSERVABLE: GraphPartitioning({(8, 1), (1, 16), (16, 33)}): "
          "convert_solution([1, -1, -1, -1]), to_quso()[(0, 2)] = %r; the "
          "unchanged library gives %r" % (new, OLD))
print("ok, %d graphs" % count)
