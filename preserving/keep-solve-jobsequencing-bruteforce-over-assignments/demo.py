"""Demo for keep-change 4 (jobsequencing-bruteforce-over-assignments).

Checks the JobSequencing part of statement C10: solve_bruteforce returns an
optimal feasible schedule (and with all_solutions every optimal schedule once),
is_solution_valid accepts exactly the schedules covering each job once, and
for small instances the QUBO ground states agree with that optimum.  Exact
integer arithmetic, independent evaluator.
"""
import itertools
import random

from qubovert.problems import JobSequencing

rng = random.Random(99)


def poly_eval(D, x):
    tot = 0
    for k, c in D.items():
        t = c
        for i in k:
            t *= x[i]
        tot += t
    return tot


def canon(sol):
    return tuple(frozenset(c) for c in sol)


def check(lengths, m, log_trick):
    p = JobSequencing(lengths, m, log_trick=log_trick)
    if isinstance(lengths, dict):
        L = dict(lengths)
    else:
        L = dict(enumerate(lengths))
    jobs = list(L)
    N = len(jobs)

    # the stated problem: every way to give each job to exactly one worker
    schedules = {}
    for workers in itertools.product(range(m), repeat=N):
        sol = tuple(frozenset(j for j, w in zip(jobs, workers) if w == k)
                    for k in range(m))
        schedules[sol] = max(sum(L[j] for j in c) for c in sol)
    opt = min(schedules.values())
    optimal = {s for s, v in schedules.items() if v == opt}

    bf = p.solve_bruteforce()
    assert isinstance(bf, tuple) and len(bf) == m
    assert all(isinstance(c, set) for c in bf)
    assert p.is_solution_valid(bf)
    assert canon(bf) in optimal, (lengths, m, bf)

    allbf = p.solve_bruteforce(all_solutions=True)
    assert isinstance(allbf, list)
    assert all(p.is_solution_valid(s) for s in allbf)
    got = [canon(s) for s in allbf]
    assert len(got) == len(set(got)) and set(got) == optimal, (lengths, m)
    # results do not alias each other
    assert len({id(c) for s in allbf for c in s}) == m * len(allbf)

    # is_solution_valid on raw assignments of the x variables
    n = m * N
    if n <= 10:
        for bits in itertools.product((0, 1), repeat=n):
            ok = all(sum(bits[ji * m + w] for w in range(m)) == 1
                     for ji in range(N))
            full = list(bits) + [0] * (p.num_binary_variables - n)
            assert p.is_solution_valid(full) == ok
            dec = p.convert_solution(full)
            assert dec == tuple(
                {jobs[ji] for ji in range(N) if bits[ji * m + w]}
                for w in range(m))
            if any(bits):
                spins = [1 - 2 * b for b in full]
                assert p.convert_solution(spins) == dec

    # the QUBO agrees with the brute force optimum
    nv = p.num_binary_variables
    if nv > 12:
        return False
    maxL = max(L.values())
    for A, B in ((None, 1), (maxL + 1, 1), (2 * maxL + .5, 2)):
        Q = p.to_qubo() if A is None else p.to_qubo(A, B)
        assert {i for k in Q for i in k} <= set(range(nv))
        en = {x: poly_eval(Q, x) for x in itertools.product((0, 1), repeat=nv)}
        ground = min(en.values())
        assert ground == B * opt, (lengths, m, log_trick, A, B, ground, opt)
        good = []
        for x, e in en.items():
            if e == ground:
                dec = p.convert_solution(list(x))
                good.append(p.is_solution_valid(dec) and canon(dec) in optimal)
        assert any(good)
        if A is not None:
            assert all(good)
    return True


count = small = 0
while count < 40:
    m = rng.choice([1, 2, 2, 3])
    N = rng.randint(1, 4 if m < 3 else 3)
    lens = [rng.randint(1, 3) for _ in range(N)]
    kind = rng.randrange(3)
    if kind == 0:
        lengths = lens
    elif kind == 1:
        lengths = tuple(lens)
    else:
        names = rng.sample(['j1', 'j2', 'j3', 'j4', 7, (1, 2), 'z'], N)
        lengths = dict(zip(names, lens))
    before = lengths.copy() if isinstance(lengths, dict) else type(lengths)(
        lengths)
    small += check(lengths, m, rng.random() < .5)
    assert lengths == before
    count += 1
# make sure that the QUBO cross check ran on a few two-worker instances
for lengths in ([1, 1], [2, 1], (1, 2), {'a': 1, 'b': 1}):
    for lt in (True, False):
        assert check(lengths, 2, lt)
        small += 1

# documented example
p = JobSequencing({"job1": 2, "job2": 3, "job3": 1}, 2)
sols = ({'job1', 'job3'}, {'job2'}), ({'job2'}, {'job1', 'job3'})
assert p.solve_bruteforce() in sols
assert p.solve_bruteforce(True) in (list(sols), list(reversed(sols)))

new = JobSequencing([2, 2], 2).solve_bruteforce()
OLD = ({1}, {0})
assert new in (OLD, ({0}, {1}))
if new != OLD:
    print("OBSERVABLE: JobSequencing([2, 2], 2).solve_bruteforce() returns %r,"
          " the unchanged library returns %r (both optimal)" % (new, OLD))
print("ok, %d instances (%d with the QUBO cross check)" % (count + 8, small))
