"""Demo for keep-change 2 (setcover-ancillas-grouped-by-element).

Checks statement C10 for SetCover on random small instances by enumerating
every assignment of the QUBO's variables with exact arithmetic (integer /
dyadic weights), independently of the library's value functions.
"""
import itertools
import random

from qubovert.problems import SetCover

rng = random.Random(2024)


def qubo_eval(Q, x):
    tot = 0
    for k, c in Q.items():
        t = c
        for i in k:
            t *= x[i]
        tot += t
    return tot


def quso_eval(L, z):
    tot = 0
    for k, c in L.items():
        t = c
        for i in k:
            t *= z[i]
        tot += t
    return tot


def random_instance():
    while True:
        n = rng.randint(1, 3)
        N = rng.randint(1, 3)
        U = set(rng.sample(range(10), n)) if rng.random() < .5 else \
            set(rng.sample('abcdefg', n))
        V = [set(rng.sample(sorted(U, key=str), rng.randint(1, n)))
             for _ in range(N)]
        if set().union(*V) != U:
            continue
        weights = None
        if rng.random() < .5:
            weights = [rng.choice([.25, .5, .75, 1]) for _ in range(N)]
            weights[rng.randrange(N)] = 1
        return U, V, weights


def check(U, V, weights, log_trick, A, B, default):
    p = SetCover(U, V, weights=weights, log_trick=log_trick)
    if default:
        A, B = 2, 1     # the documented default weights
    N = len(V)
    w = weights if weights is not None else [1] * N
    nv = p.num_binary_variables
    if nv > 13:
        return 0

    # the combinatorial problem itself
    def feasible(sel):
        return set().union(*[V[i] for i in sel]) == U if sel else not U

    covers = [set(i for i in range(N) if bits[i])
              for bits in itertools.product((0, 1), repeat=N)]
    feas = [c for c in covers if feasible(c)]
    opt = min(sum(w[i] for i in c) for c in feas) * B
    for c in covers:
        assert p.is_solution_valid(set(c)) == feasible(c)

    bf = p.solve_bruteforce()
    assert feasible(bf) and sum(w[i] for i in bf) * B == opt
    bfs = p.solve_bruteforce(all_solutions=True)
    assert sorted(map(sorted, bfs)) == sorted(
        sorted(c) for c in feas if sum(w[i] for i in c) * B == opt)

    Q = p.to_qubo() if default else p.to_qubo(A, B)
    used = {i for k in Q for i in k}
    assert used <= set(range(nv)), (used, nv)
    assert Q.num_binary_variables <= nv
    L = p.to_quso() if default else p.to_quso(A, B)
    assert {i for k in L for i in k} <= set(range(nv))

    energies = {}
    for bits in itertools.product((0, 1), repeat=nv):
        e = qubo_eval(Q, bits)
        energies[bits] = e
    ground = min(energies.values())
    assert ground == opt, (U, V, weights, log_trick, A, B, ground, opt)
    gs = [b for b, e in energies.items() if e == ground]
    decoded_ok = 0
    for b in gs:
        for sol in (list(b), tuple(b), dict(enumerate(b))):
            cover = p.convert_solution(sol)
            assert cover == {i for i in range(N) if b[i]}
            assert p.is_solution_valid(sol) == feasible(cover)
        z = [1 - 2 * v for v in b]
        if any(v == -1 for v in z):
            assert p.convert_solution(z) == cover
            assert p.convert_solution(dict(enumerate(z)), spin=True) == cover
        assert quso_eval(L, z) == ground
        good = feasible(cover) and sum(w[i] for i in cover) * B == opt
        decoded_ok += good
        if not default:     # A > B: every ground state is feasible + optimal
            assert good, (U, V, weights, log_trick, A, B, b)
    assert decoded_ok >= 1
    # the QUSO has the same minimum
    assert min(quso_eval(L, z)
               for z in itertools.product((1, -1), repeat=nv)) == ground \
        if nv <= 10 else True
    return 1


count = 0
while count < 40:
    U, V, weights = random_instance()
    log_trick = rng.random() < .5
    default = rng.random() < .3
    A, B = rng.choice([(2, 1), (1.5, 1), (3, 2), (1.25, 1), (8, .5)])
    count += check(U, V, weights, log_trick, A, B, default)

# documented example
p = SetCover({"a", "b", "c", "d"}, [{"a", "b"}, {"a", "c"}, {"c", "d"}])
assert p.solve_bruteforce() == {0, 2}

# where does the ancilla for (element 0, bit 1) live?
Q = SetCover({0, 1}, [{0}, {0, 1}]).to_qubo()
OLD = 0   # the unchanged library has no (2, 3) term, it has (2, 4): 8
new = Q.get((2, 3), 0)
assert new in (0, 8)
if new != OLD:
    print("OBSERVABLE: SetCover({0, 1}, [{0}, {0, 1}]).to_qubo()[(2, 3)] is "
          "%r, the unchanged library gives %r (ancillas are now numbered "
          "element by element instead of bit by bit)" % (new, OLD))
print("ok, %d instances" % count)
