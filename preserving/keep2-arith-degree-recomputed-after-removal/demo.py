"""demo for `degree-recomputed-after-removal` (PUBOMatrix.degree).

Random histories of documented edits on all ten model types; after every edit
the bookkeeping must bound the truth (C14), refresh must make it exact without
changing the function (C14), and the conversions that branch on ``degree``
(to_puso / to_quso / to_pubo / to_qubo, C04 and C01) must still preserve the
function, including on models whose top-degree terms were cancelled.
"""
import itertools
import random
import warnings
from fractions import Fraction

import numpy as np

from qubovert import PUBO, PUSO, QUBO, QUSO, PCBO, PCSO
from qubovert.utils import (
    PUBOMatrix, PUSOMatrix, QUBOMatrix, QUSOMatrix, pubo_value, puso_value
)

warnings.simplefilter('ignore')
rng = random.Random(99)
NEG_INF = -float('inf')
SPIN = (PUSOMatrix, QUSOMatrix, PUSO, QUSO, PCSO)
QUAD = (QUBOMatrix, QUSOMatrix, QUBO, QUSO)
MATRIX = (PUBOMatrix, PUSOMatrix, QUBOMatrix, QUSOMatrix)
ALL = MATRIX + (PUBO, PUSO, QUBO, QUSO, PCBO, PCSO)
COEFS = [1, -1, 2, -3, 0.5, Fraction(1, 3), np.int8(4), np.float32(1.5),
         np.int64(-2)]


def labels_for(cls):
    return [0, 1, 2, 3] if cls in MATRIX else ['a', 'b', 0, ('t', 1)]


def rand_key(cls, labels):
    top = 2 if cls in QUAD else 4
    return tuple(rng.sample(labels, rng.randint(0, min(top, len(labels)))))


def true_stats(M):
    keys = [k for k, v in M.items() if v]
    deg = max((len(k) for k in keys), default=NEG_INF)
    return deg, {i for k in keys for i in k}


def evaluate(M, x):
    spin = isinstance(M, SPIN)
    tot = 0
    for k, v in M.items():
        if spin:
            s = 1
            for i in k:
                s *= x[i]
            tot = tot + v * s
        elif all(x[i] for i in k):
            tot = tot + v
    return tot


def check_bounds(M):
    deg, var = true_stats(M)
    assert M.degree >= deg, (M, M.degree, deg)
    assert M.variables >= var
    assert M.num_binary_variables >= len(var)
    if hasattr(M, 'mapping'):
        m, r = M.mapping, M.reverse_mapping
        assert set(m) == M.variables
        assert sorted(r) == list(range(M.num_binary_variables))
        assert all(r[m[v]] == v for v in m)


def check_refresh(M, labels):
    deg, var = true_stats(M)
    N = M.copy()
    N.refresh()
    assert dict(N) == dict(M) and type(N) is type(M)
    assert N.degree == deg and N.variables == var
    assert N.num_binary_variables == len(var)
    vals = (1, -1) if isinstance(M, SPIN) else (0, 1)
    for bits in itertools.product(vals, repeat=len(labels)):
        x = dict(zip(labels, bits))
        assert evaluate(N, x) == evaluate(M, x)


def check_conversions(M, labels):
    """Enumerated / reduced forms keep the function (also on stale models)."""
    if not hasattr(M, 'mapping'):
        return
    spin = isinstance(M, SPIN)
    n, mp = M.num_binary_variables, M.mapping
    forms = [(M.to_pubo(), False), (M.to_puso(), True)]
    if M.degree <= 2:
        forms += [(M.to_qubo(), False), (M.to_quso(), True)]
    for D, dspin in forms:
        for k in D:
            assert all(isinstance(i, int) and 0 <= i < n for i in k)
        vals = (1, -1) if spin else (0, 1)
        for bits in itertools.product(vals, repeat=len(labels)):
            x = dict(zip(labels, bits))
            y = {}
            for lab, i in mp.items():
                b = x[lab]
                if spin != dspin:       # 0 <-> 1, 1 <-> -1
                    b = (1 - b) // 2 if spin else 1 - 2 * b
                y[i] = b
            got = (puso_value if dspin else pubo_value)(y, D)
            assert abs(got - evaluate(M, x)) < 1e-9, (M, D, x)
    if not isinstance(M, QUAD) and not isinstance(M, (PCBO, PCSO)):
        # degree reduction to 2 after cancellations: D(s) >= M(convert(s)),
        # same minimum (C01)
        D = M.to_qubo()
        assert D.degree <= 2
        na = D.num_binary_variables
        best_d = min(pubo_value(s, D) for s in
                     itertools.product((0, 1), repeat=max(na, n)))
        vals = (1, -1) if spin else (0, 1)
        best_m = min(evaluate(M, dict(zip(labels, b)))
                     for b in itertools.product(vals, repeat=len(labels)))
        assert abs(best_d - best_m) < 1e-9, (M, D)


nsteps = 0
for trial in range(50):
    cls = ALL[trial % len(ALL)]
    labels = labels_for(cls)
    M, history = cls(), []
    for step in range(rng.randint(4, 12)):
        op = rng.randrange(9)
        k, c = rand_key(cls, labels), rng.choice(COEFS)
        if op == 0:
            M[k] = c
        elif op == 1:
            M[k] += c
        elif op == 2:                       # cancel an existing term
            if M:
                k = rng.choice(list(M))
                if rng.random() < .5:
                    M[k] -= M[k]
                else:
                    M[k] = 0
        elif op == 3:
            M += {k: c}
        elif op == 4:
            M -= {kk: v for kk, v in list(M.items())[:2]}
        elif op == 5:
            M.update({k: 0, rand_key(cls, labels): c})
        elif op == 6:
            M *= rng.choice([2, -1, 0]) if rng.random() < .8 else 1
        elif op == 7 and rng.random() < .3:
            M.clear()
        elif op == 8 and cls in (PCBO, PCSO):
            M.add_constraint_eq_zero({(labels[0],): 1, (labels[1],): -1},
                                     lam=rng.choice([1, 2]))
        check_bounds(M)
        N = M.copy()
        check_bounds(N)
        nsteps += 1
    check_refresh(M, labels)
    check_conversions(M, labels)

# models whose top-degree terms were cancelled, through every conversion and
# the conversions with an explicit target degree
for cls in (PUBO, PUSO, PCBO, PCSO):
    H = cls({('a', 'b', 'c'): 2, ('a', 'b'): 1, ('c',): -1, (): 3})
    H[('c', 'b', 'a')] = 0
    check_bounds(H)
    check_conversions(H, ['a', 'b', 'c'])
    for D in (H.to_pubo(deg=2), H.to_puso(deg=2)):
        assert D.degree <= 2 and set(D.variables) <= {0, 1, 2}
    H[('a', 'b')] -= 1
    H[('c',)] += 1
    H -= 3
    assert H == {} and H.degree <= 3
    check_conversions(H, ['a', 'b', 'c'])

# the documented refresh example still ends in the refreshed state
P = PUBOMatrix()
P[(0,)] += 1
P[(0,)] -= 1
assert P == {} and P.degree >= NEG_INF
P.refresh()
assert (P.degree, P.num_binary_variables, P.variables) == (NEG_INF, 0, set())

print("checked", nsteps, "edits on", len(ALL), "model types")
P = PUBOMatrix({(0, 1, 2): 1, (0,): 1})
P[(0, 1, 2)] -= 1
H = PUSO({('a', 'b', 'c'): 2, ('a', 'b'): 1})
H[('a', 'b', 'c')] = 0
if P.degree != 3:
    print("OBSERVABLE: after P = PUBOMatrix({(0,1,2): 1, (0,): 1}); "
          "P[(0,1,2)] -= 1, P.degree is %r (unchanged library: 3, until "
          "refresh); PUSO({('a','b','c'): 2, ('a','b'): 1}) with the cubic "
          "term set to 0 reports degree %r (unchanged library: 3)"
          % (P.degree, H.degree))
