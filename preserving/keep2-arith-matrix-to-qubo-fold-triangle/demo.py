"""demo for `matrix-to-qubo-fold-triangle` (qubovert.utils.matrix_to_qubo).

Checks by brute force that the QUBOMatrix built from a square matrix is the
function x -> x^T M x (C04), is stored canonically (C05), has bookkeeping that
bounds the truth and becomes exact on refresh (C14), and that qubo_to_matrix
maps it back to a matrix of the same function (C04), for integer, float,
narrow numpy, boolean and exact rational entries.
"""
import itertools
import random
import warnings
from fractions import Fraction

import numpy as np

from qubovert.utils import (
    QUBOMatrix, matrix_to_qubo, qubo_to_matrix, qubo_value
)

warnings.simplefilter('ignore')
rng = random.Random(314)


def quad_form(M, x):
    n = len(x)
    tot = 0
    for i in range(n):
        for j in range(n):
            if x[i] and x[j]:
                # as numbers: a boolean True counts 1
                tot = tot + (0 + M[i][j])
    return tot


def make(kind, n):
    small = [[rng.choice([0, 0, 1, -1, 2, -3, 5]) for _ in range(n)]
             for _ in range(n)]
    if rng.random() < .3:                      # lower triangular input
        small = [[v if j <= i else 0 for j, v in enumerate(r)]
                 for i, r in enumerate(small)]
    if rng.random() < .3 and n > 1:            # an antisymmetric pair
        i, j = rng.sample(range(n), 2)
        small[i][j], small[j][i] = 4, -4
    if kind == 'list':
        return small
    if kind == 'fraction':
        return np.array([[Fraction(v, 3) for v in r] for r in small],
                        dtype=object)
    if kind == 'bool':
        return np.array(small) != 0
    if kind == 'uint8':
        return np.abs(np.array(small)).astype(np.uint8)
    return np.array(small).astype(kind)


KINDS = ['list', 'fraction', 'bool', 'uint8', np.int8, np.int16, np.int64,
         np.float32, np.float64]
count = 0
for trial in range(90):
    kind, n = KINDS[trial % len(KINDS)], rng.randint(1, 5)
    M = make(kind, n)
    keep = np.array(M, dtype=object).tolist()
    Q = matrix_to_qubo(M)
    assert np.array(M, dtype=object).tolist() == keep      # input untouched
    assert type(Q) is QUBOMatrix
    for k, v in Q.items():                                 # canonical
        assert isinstance(k, tuple) and 1 <= len(k) <= 2
        assert list(k) == sorted(set(k)) and v != 0
    for x in itertools.product((0, 1), repeat=n):          # same function
        want = quad_form(M, x)
        assert Q.value(x) == want == qubo_value(x, Q), (M, x)
        assert Q.value(dict(enumerate(x))) == want
    # bookkeeping: upper bounds, exact after refresh, function unchanged
    true_vars = {i for k in Q for i in k}
    true_deg = max((len(k) for k in Q), default=-float('inf'))
    assert Q.variables >= true_vars and Q.degree >= true_deg
    assert Q.num_binary_variables >= len(true_vars)
    assert Q.num_binary_variables == len(Q.variables)
    R = Q.copy()
    R.refresh()
    assert R == Q and R.variables == true_vars and R.degree == true_deg
    assert R.num_binary_variables == len(true_vars)
    # and back to a matrix
    if Q and kind != 'fraction':
        for sym in (False, True):
            B = qubo_to_matrix(Q, symmetric=sym)
            assert B.shape == (Q.max_index + 1,) * 2
            for x in itertools.product((0, 1), repeat=n):
                y = x[:B.shape[0]]
                rest = [i for i in range(B.shape[0], n) if x[i]]
                if rest:
                    continue
                assert abs(float(quad_form(B, y)) - float(quad_form(M, x))) \
                    < 1e-9
            if sym:
                assert (B == B.T).all()
            else:
                assert (np.tril(B, -1) == 0).all()
        assert matrix_to_qubo(qubo_to_matrix(Q)) == Q
    count += 1

for bad in ([[1, 2, 3], [1, 0, 1]], [1, 2], [[[1]]]):
    try:
        matrix_to_qubo(bad)
        raise AssertionError("accepted a non-square input")
    except ValueError:
        pass

print("checked", count, "matrices of", len(KINDS), "entry types")
order = list(matrix_to_qubo([[1, 0, 0], [2, 3, 0], [4, 5, 6]]))
old_order = [(0,), (0, 1), (1,), (0, 2), (1, 2), (2,)]
A = matrix_to_qubo([[1, 2], [-2, 0]])
if order != old_order:
    print("OBSERVABLE: list(matrix_to_qubo([[1,0,0],[2,3,0],[4,5,6]])) is "
          "%r (unchanged library: %r); matrix_to_qubo([[1,2],[-2,0]]) "
          "reports variables %r, num_binary_variables %d (unchanged "
          "library: {0, 1}, 2) for the same model {(0,): 1}"
          % (order, old_order, A.variables, A.num_binary_variables))
