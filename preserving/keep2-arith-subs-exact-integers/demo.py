"""demo for `subs-exact-integers` (DictArithmetic.subs).

Asserts C16 (symbolic weight then subs == numeric weight directly; original
unchanged), the C19 part about not mutating the receiver, and that the numbers
produced are the ones ``float(v.subs(...))`` used to produce, for random
PCBO / PCSO models, their penalties and their reduced forms.
"""
import random
import itertools
from fractions import Fraction

import numpy as np
from sympy import Symbol, Integer, Rational

from qubovert import PCBO, PCSO, PUBO, PUSO, QUBO, QUSO
from qubovert.utils import (
    DictArithmetic, PUBOMatrix, PUSOMatrix, QUBOMatrix, QUSOMatrix
)

rng = random.Random(20240611)
lam, mu = Symbol('lam'), Symbol('mu')
LABELS = ['a', 'b', 0, 1, ('t', 2)]


def rand_poly(nvars, nterms, maxdeg, coefs=(-3, -2, -1, 1, 2, 3)):
    P = {}
    for _ in range(nterms):
        k = tuple(rng.sample(LABELS[:nvars], rng.randint(0, maxdeg)))
        P[k] = P.get(k, 0) + rng.choice(coefs)
    return P


def close(a, b):
    if isinstance(a, (int, Fraction)) and isinstance(b, (int, Fraction)):
        return a == b
    return abs(complex(a) - complex(b)) <= 1e-9 * max(1, abs(complex(b)))


def same_terms(A, B):
    keys = set(A) | set(B)
    return all(close(A.get(k, 0), B.get(k, 0)) for k in keys)


def same_model(A, B):
    assert type(A) is type(B), (type(A), type(B))
    assert same_terms(dict(A), dict(B)), (A, B)
    if hasattr(A, 'constraints'):
        ca, cb = A.constraints, B.constraints
        assert set(ca) == set(cb), (ca, cb)
        for k in ca:
            assert len(ca[k]) == len(cb[k])
            for x, y in zip(ca[k], cb[k]):
                assert same_terms(dict(x), dict(y)), (x, y)
        assert A.num_ancillas == B.num_ancillas


def snapshot(M):
    s = [type(M), dict(M), {k: str(v) for k, v in M.items()}]
    if hasattr(M, 'constraints'):
        s.append({k: [dict(x) for x in v] for k, v in M.constraints.items()})
        s.append(M.num_ancillas)
    if hasattr(M, 'mapping'):
        s.append(M.mapping)
    return s


def build(cls, w, seq):
    """Build a constrained model; every weight is ``w`` times an integer."""
    M = cls(seq['objective'])
    for meth, P, mult, kw in seq['constraints']:
        getattr(M, meth)(P, lam=w * mult, **kw)
    return M


RELS = ['add_constraint_eq_zero', 'add_constraint_lt_zero',
        'add_constraint_le_zero', 'add_constraint_gt_zero',
        'add_constraint_ge_zero', 'add_constraint_ne_zero']

import warnings
warnings.simplefilter('ignore')

ntested = 0
for trial in range(40):
    cls = (PCBO, PCSO)[trial % 2]
    seq = {'objective': rand_poly(4, 4, 3), 'constraints': []}
    for _ in range(rng.randint(1, 2)):
        meth = rng.choice(RELS)
        kw = {}
        if meth not in ('add_constraint_eq_zero', ):
            kw['log_trick'] = rng.random() < .5
        seq['constraints'].append(
            (meth, rand_poly(3, 3, 2), rng.choice([1, 2, 3]), kw))
    c = rng.choice([1, 2, 3, 7, 2.5, 0.75, 10])

    sym = build(cls, lam, seq)
    num = build(cls, c, seq)
    before = snapshot(sym)
    got = sym.subs(lam, c)
    assert snapshot(sym) == before, "subs changed the receiver"
    same_model(got, num)

    # every coefficient is the number float(v.subs()) used to give
    for k, v in sym.items():
        want = float(v.subs(lam, c)) if hasattr(v, 'subs') else v
        assert close(got[k], want), (k, got[k], want)
        assert not hasattr(got[k], 'free_symbols') or not got[k].free_symbols

    # reduced forms with a symbolic penalty
    for meth in (('to_qubo', 'to_quso', 'to_pubo', 'to_puso')):
        if meth in ('to_pubo', 'to_puso'):
            Dsym = getattr(num, meth)(deg=2, lam=mu)
            Dnum = getattr(num, meth)(deg=2, lam=c)
        else:
            Dsym = getattr(num, meth)(lam=mu)
            Dnum = getattr(num, meth)(lam=c)
        b = snapshot(Dsym)
        same_model(Dsym.subs(mu, c), Dnum)
        assert snapshot(Dsym) == b
    # partial substitution keeps the remaining symbol
    two = build(cls, lam, seq)
    two[('a',)] += mu
    part = two.subs(lam, c)
    full = part.subs({mu: 3})
    ref = build(cls, c, seq)
    ref[('a',)] += 3
    same_model(full, ref)
    ntested += 1

# every plain type, with numeric coefficient types that have no ``subs``
for cls in (DictArithmetic, PUBOMatrix, PUSOMatrix, QUBOMatrix, QUSOMatrix,
            PUBO, PUSO, QUBO, QUSO):
    for coef in (3, 2.5, Fraction(2, 3), np.int8(5), np.uint8(200),
                 np.float32(1.5), np.float64(-2.25), Integer(4),
                 Rational(1, 4)):
        D = cls({(0,): coef, (0, 1): lam * 2, (): lam * Rational(1, 2)})
        R = D.subs(lam, 4)
        assert type(R) is cls
        assert R[(0, 1)] == 8 and R[()] == 2 and close(R[(0,)], coef)
        if not hasattr(coef, 'subs'):
            assert type(R[(0,)]) is type(coef)      # untouched, not promoted
        assert D[(0, 1)] == lam * 2                 # receiver unchanged
        R = D.subs(lam, 0)                          # zero results are dropped
        assert set(R) == {(0,)}

print("checked", ntested, "random constrained models; all assertions hold")
v = PUBO({('x',): lam, ('x', 'y'): lam / 2}).subs(lam, 3)
new = repr(dict(v))
old = "{('x',): 3.0, ('x', 'y'): 1.5}"
if new != old:
    print("OBSERVABLE: PUBO({('x',): lam, ('x','y'): lam/2}).subs(lam, 3) "
          "is %s (unchanged library: %s): an exactly integral result is "
          "now an int, not a float" % (new, old))
