"""demo for `xor-multilinear-form` (qubovert.sat.XOR / XNOR).

Brute-force checks of C07 (every gate tree evaluates to its truth function,
inputs untouched, documented result type), C06 (the XOR / XNOR constraint
methods penalise exactly the violating assignments, no ancillas) and the
canonical-storage part of C05 for the models that come out.
"""
import itertools
import random
import warnings
from fractions import Fraction

import numpy as np
from sympy import Integer

import qubovert as qv
from qubovert import PUBO, QUBO, PCBO
from qubovert.utils import PUBOMatrix, QUBOMatrix
from qubovert.sat import BUFFER, NOT, AND, NAND, OR, NOR, XOR, XNOR

warnings.simplefilter('ignore')
rng = random.Random(77)

GATES = {
    'BUFFER': (BUFFER, lambda a: a[0]),
    'NOT': (NOT, lambda a: 1 - a[0]),
    'AND': (AND, lambda a: int(all(a))),
    'NAND': (NAND, lambda a: 1 - int(all(a))),
    'OR': (OR, lambda a: int(any(a))),
    'NOR': (NOR, lambda a: 1 - int(any(a))),
    'XOR': (XOR, lambda a: sum(a) % 2),
    'XNOR': (XNOR, lambda a: 1 - sum(a) % 2),
}
LABELS = ['a', 'b', 0, 1, ('t', 2), frozenset({3}), 2.5, None]
COEF = [int, float, Fraction, np.int8, np.int64, np.float32, Integer]


def evaluate(P, x):
    """Direct evaluation of a boolean polynomial given as a dict."""
    tot = 0
    for k, v in P.items():
        if all(x[i] for i in k):
            tot = tot + v
    return tot


def leaf_model(labels, intlabels):
    """A 0/1 valued model over two labels, with a random coefficient type."""
    t = rng.choice(COEF)
    one, two = t(1), t(2)
    cls = rng.choice([dict, PUBO, QUBO, PCBO] +
                     ([PUBOMatrix, QUBOMatrix] if intlabels else []))
    i, j = rng.sample(labels, 2)
    kind = rng.randrange(4)
    if kind == 0:      # and
        d, f = {(i, j): one}, (lambda x: x[i] & x[j])
    elif kind == 1:    # xor
        d = {(i,): one, (j,): one, (i, j): -two}
        f = (lambda x: x[i] ^ x[j])
    elif kind == 2:    # not
        d, f = {(): one, (i,): -one}, (lambda x: 1 - x[i])
    else:              # i and not j
        d, f = {(i,): one, (i, j): -one}, (lambda x: x[i] & (1 - x[j]))
    return cls(d), f


def tree(depth, labels, intlabels):
    """Return (thunk building the expression, truth function, leaves)."""
    if depth == 0 or rng.random() < .25:
        if rng.random() < .6:
            lab = rng.choice(labels)
            return (lambda: lab), (lambda x: x[lab]), []
        m, f = leaf_model(labels, intlabels)
        return (lambda: m), f, [m]
    name = rng.choice(list(GATES) + ['XOR', 'XNOR', 'XOR'])
    n = 1 if name in ('BUFFER', 'NOT') else rng.randint(1, 4)
    subs = [tree(depth - 1, labels, intlabels) for _ in range(n)]
    gate, truth = GATES[name]
    leaves = [m for s in subs for m in s[2]]
    return ((lambda: gate(*[s[0]() for s in subs])),
            (lambda x: truth([s[1](x) for s in subs])), leaves)


def canonical(P):
    from qubovert.utils import ordering_key
    for k, v in P.items():
        assert isinstance(k, tuple) and len(set(k)) == len(k)
        assert list(k) == sorted(k, key=ordering_key)
        assert v != 0


ntrees = nkeyerr = 0
while ntrees < 60:
    intlabels = rng.random() < .3
    labels = [0, 1, 2, 3] if intlabels else rng.sample(LABELS, 4)
    build, truth, leaves = tree(3, labels, intlabels)
    before = [(type(m), dict(m), list(m.items())) for m in leaves]
    try:
        P = build()
    except KeyError:
        # only the degree two types may refuse (value of degree > 2)
        assert any(isinstance(m, (QUBO, QUBOMatrix)) for m in leaves)
        nkeyerr += 1
        continue
    assert before == [(type(m), dict(m), list(m.items())) for m in leaves], \
        "an operand was modified"
    if not hasattr(P, 'value'):       # a bare label / plain dict leaf
        continue
    for bits in itertools.product((0, 1), repeat=len(labels)):
        x = dict(zip(labels, bits))
        assert evaluate(P, x) == truth(x), (P, x)
        assert P.value(x) == truth(x)
    canonical(P)
    if hasattr(P, 'mapping'):
        m, r = P.mapping, P.reverse_mapping
        assert set(m) == P.variables and sorted(r) == list(range(len(m)))
        assert all(r[m[v]] == v for v in m)
    ntrees += 1

# result type follows the first operand (documented rule)
for first in (PUBO({('a',): 1}), QUBO({('a',): 1}), PCBO({('a',): 1}),
              PUBOMatrix({(0,): 1}), QUBOMatrix({(0,): 1})):
    assert type(XOR(first, 1)) is type(first)
    assert type(XNOR(first, 1)) is type(first)
assert type(XOR('a', QUBO({('b',): 1}), PCBO({('c',): 1}))) is PUBO
assert type(XOR({('a',): 1}, 'b')) is PUBO

# a degree two type keeps working where the value has degree <= 2
q = QUBO({('c',): 1, ('a', 'c'): -1, ('a', 'b'): 1})   # if a then b else c
R = XOR(q, {('a', 'b'): 1})
assert type(R) is QUBO and R == {('c',): 1, ('a', 'c'): -1}
try:
    XOR(QUBO({('a',): 1}), 'b', 'c')
    raise AssertionError("degree three value accepted by a QUBO")
except KeyError:
    pass

# C06: the constraint methods built on XOR / XNOR
nconstr = 0
for trial in range(40):
    labels = rng.sample(LABELS, 4)
    n = rng.randint(2, 4)
    ops, fs = [], []
    for _ in range(n):
        if rng.random() < .7:
            lab = rng.choice(labels)
            ops.append(lab), fs.append(lambda x, lab=lab: x[lab])
        else:
            m, f = leaf_model(labels, False)
            while isinstance(m, QUBO):
                m, f = leaf_model(labels, False)
            ops.append(m), fs.append(f)
    lam = rng.choice([1, 2, 3.5, Fraction(7, 2)])
    for meth, ok in (
        ('add_constraint_XOR', lambda t: sum(t) % 2 == 1),
        ('add_constraint_XNOR', lambda t: sum(t) % 2 == 0),
        ('add_constraint_eq_XOR', lambda t: t[0] == sum(t[1:]) % 2),
        ('add_constraint_eq_XNOR', lambda t: t[0] == 1 - sum(t[1:]) % 2),
    ):
        if 'eq' in meth and n < 3:
            continue
        H = PCBO()
        getattr(H, meth)(*ops, lam=lam)
        assert H.num_ancillas == 0 and H.variables <= set(labels)
        for bits in itertools.product((0, 1), repeat=4):
            x = dict(zip(labels, bits))
            t = [f(x) for f in fs]
            pen = evaluate(H, x)
            if ok(t):
                assert pen == 0 and H.is_solution_valid(x)
            else:
                assert pen >= lam and not H.is_solution_valid(x)
        nconstr += 1

print("checked %d gate trees (%d refused by a degree two type) and %d "
      "XOR/XNOR constraints" % (ntrees, nkeyerr, nconstr))
new = list(XOR('a', 'b').items())
old = [(('a',), 1), (('a', 'b'), -2), (('b',), 1)]
assert dict(new) == dict(old)
if new != old:
    print("OBSERVABLE: list(XOR('a','b').items()) is %r (unchanged library: "
          "%r) -- same model, other term order; and XOR(QUBO(if a then b "
          "else c), {():1}) now returns %r where the unchanged library "
          "raised KeyError" % (new, old, dict(XOR(q, {(): 1}))))
