"""demo for `eq-or-nor-halves-gadget`.

C06 for all sixteen logical constraint methods of PCBO (the changed ones are
add_constraint_eq_OR / add_constraint_eq_NOR; the others call them or share
their helpers): arities 2..5, operands that are labels, nested sat
expressions, PUBO dicts and models with various coefficient types; the added
terms use no ancillas, are 0 exactly on the valid assignments and >= lam on
the others, and is_solution_valid agrees.  Also C16 (symbolic lam), C19
(operands untouched, info round trip) and C08 (constrained optimum).
"""
import itertools
import random
import warnings
from fractions import Fraction
from functools import reduce

import numpy as np
import sympy

import qubovert as qv
from qubovert.sat import AND, OR, XOR, NOT, NOR
from qubovert.utils import get_info, create_from_info, solve_pubo_bruteforce

rng = random.Random(1606)


def frac(v):
    if isinstance(v, np.generic):
        v = v.item()
    if isinstance(v, sympy.Basic):
        v = sympy.Rational(v)
        return Fraction(int(v.p), int(v.q))
    return Fraction(v)


def value(D, x):
    tot = Fraction(0)
    for k, v in D.items():
        p = frac(v)
        for i in k:
            p *= x[i]
        tot += p
    return tot


LABELS = ['x', 0, 1, ('t', 2), 'y', 5]


def operand():
    """(object to pass, truth function of an assignment)."""
    kind = rng.randrange(9)
    l, m = rng.sample(LABELS, 2)
    if kind <= 2:
        return l, lambda s: s[l]
    if kind == 3:
        return AND(l, m), lambda s: s[l] & s[m]
    if kind == 4:
        return NOT(l), lambda s: 1 - s[l]
    if kind == 5:
        return XOR(l, OR(m, l)), lambda s: s[l] ^ (s[m] | s[l])
    if kind == 6:
        one = rng.choice([1, np.int8(1), np.float32(1), Fraction(1),
                          sympy.Integer(1), 1.0])
        return {(l, m): one}, lambda s: s[l] & s[m]
    if kind == 7:
        return qv.boolean_var(l), lambda s: s[l]
    return NOR(l, m), lambda s: 1 - (s[l] | s[m])


def par(bits):
    return reduce(lambda p, q: p ^ q, bits, 0)


GATES = {
    'AND': (2, lambda b: int(all(b))), 'NAND': (2, lambda b: 1 - int(all(b))),
    'OR': (2, lambda b: int(any(b))), 'NOR': (2, lambda b: 1 - int(any(b))),
    'XOR': (2, par), 'XNOR': (2, lambda b: 1 - par(b)),
    'BUFFER': (1, lambda b: b[0]), 'NOT': (1, lambda b: 1 - b[0]),
}
LAMS = [1, 2, 5, Fraction(3, 2), 2.5, np.float32(1.5), np.uint8(3),
        sympy.Integer(2)]


def snapshot(ops):
    return [(type(o), dict(o), [type(v) for v in o.values()])
            if isinstance(o, dict) else o for o in ops]


def check(method, gate, eq, arity, lam):
    ops, fns = zip(*[operand() for _ in range(arity + (1 if eq else 0))])
    snap = snapshot(ops)
    H = qv.PCBO()
    with warnings.catch_warnings(record=True) as w:
        warnings.simplefilter('always')
        getattr(H, method)(*ops, lam=lam)
    assert not any('overflow' in str(m.message) for m in w)
    assert snapshot(ops) == snap, "operand mutated"
    assert H.num_ancillas == 0 and set(H.variables) <= set(LABELS)
    assert not any(str(v).startswith('__a') for v in H.variables)
    truth = GATES[gate][1]
    for xs in itertools.product((0, 1), repeat=len(LABELS)):
        s = dict(zip(LABELS, xs))
        bits = [f(s) for f in fns]
        ok = (bits[0] == truth(bits[1:])) if eq else bool(truth(bits))
        f = value(H, s)
        assert (f == 0) if ok else (f >= frac(lam)), (method, ops, s, f)
        assert H.is_solution_valid(s) == ok
    # C19: info round trip
    G = create_from_info(get_info(H))
    assert type(G) is qv.PCBO and G == H and G.constraints == H.constraints
    assert get_info(G) == get_info(H)
    return H


n = 0
for gate, (amin, _) in GATES.items():
    for eq in (False, True):
        method = 'add_constraint_' + ('eq_' if eq else '') + gate
        many = gate not in ('BUFFER', 'NOT')
        reps = 9 if gate in ('OR', 'NOR') and eq else 2
        for r in range(reps):
            arity = (2 + (r % 4)) if many else 1
            check(method, gate, eq, arity, rng.choice(LAMS))
            n += 1

# C16: symbolic weight, and the original stays as it was
lam = sympy.Symbol('lam')
for method in ('add_constraint_eq_OR', 'add_constraint_eq_NOR'):
    for ops in (('a', 'b', 'c'), ('a', 'b', 'c', 'd'),
                ('a', AND('b', 'c'), 'd', NOT('e'), 'b')):
        Hs = getattr(qv.PCBO({('b',): 2, (): 1}), method)(*ops, lam=lam)
        snap = dict(Hs)
        for c in (1, 3, Fraction(5, 2), 2.5):
            Hn = getattr(qv.PCBO({('b',): 2, (): 1}), method)(*ops, lam=c)
            got = Hs.subs(lam, c)
            assert got == Hn and type(got) is qv.PCBO
            assert got.constraints == Hn.constraints
        assert dict(Hs) == snap
        n += 1

# C08: the constrained optimum survives penalisation and quadratisation
for trial in range(6):
    labs = ['a', 'b', 'c', 'd', 'e']
    f = {(l,): rng.randint(-3, 3) for l in labs}
    f[('a', 'c')] = rng.randint(-2, 2)
    f = {k: v for k, v in f.items() if v}
    lam = 2 * sum(abs(v) for v in f.values()) + 1
    H = qv.PCBO(f)
    meth = ['add_constraint_eq_OR', 'add_constraint_eq_NOR'][trial % 2]
    getattr(H, meth)('a', 'b', 'c', 'd', 'e', lam=lam)
    want = (lambda s: s['a'] == (s['b'] | s['c'] | s['d'] | s['e'])) \
        if trial % 2 == 0 else \
        (lambda s: s['a'] == 1 - (s['b'] | s['c'] | s['d'] | s['e']))
    feas = [dict(zip(labs, xs)) for xs in itertools.product((0, 1), repeat=5)]
    opt = min(value(f, s) for s in feas if want(s))
    sol = H.solve_bruteforce()
    assert want(sol) and value(f, sol) == opt
    for D in (H.to_pubo(), H.to_qubo()):
        e, sols = solve_pubo_bruteforce(D, all_solutions=True)
        assert e == opt
        for s in sols:
            x = H.remove_ancilla_from_solution(H.convert_solution(s))
            x = {l: x.get(l, 0) for l in labs}
            assert want(x) and H.is_solution_valid(x) and value(f, x) == opt
    n += 1

H = qv.PCBO().add_constraint_eq_OR('a', 'b', 'c', 'd', lam=2)
OLD = {('b',): 2, ('a', 'b'): -4, ('a', 'b', 'c'): 4, ('b', 'c'): -2,
       ('c',): 2, ('a', 'c'): -4, ('a', 'b', 'd'): 4,
       ('a', 'b', 'c', 'd'): -4, ('a', 'c', 'd'): 4, ('b', 'd'): -2,
       ('b', 'c', 'd'): 2, ('c', 'd'): -2, ('d',): 2, ('a', 'd'): -4,
       ('a',): 2}
if dict(H) != OLD:
    print("OBSERVABLE: add_constraint_eq_OR('a','b','c','d', lam=2) == %r "
          "(degree %d, %d terms; unchanged library: degree 4, 15 terms: %r)"
          % (dict(H), H.degree, H.num_terms, OLD))
print("ok: %d checks" % n)
