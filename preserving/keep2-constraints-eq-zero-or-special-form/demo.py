"""demo for `eq-zero-or-special-form`.

PCBO/PCSO.add_constraint_eq_zero on polynomials of the shape
s*(z - x - y + x*y) (ie z == OR(x, y)), on near misses of that shape and on
random polynomials: C02 / C03 (exact non-negative penalty, no ancillas needed,
is_solution_valid), C06 (eq_OR with a repeated operand collapses to that
shape), C16 (symbolic lam commutes with subs), C19 (argument untouched).
"""
import itertools
import random
import warnings
from fractions import Fraction

import numpy as np
import sympy

import qubovert as qv
from qubovert.utils import pubo_to_puso

rng = random.Random(77)


def frac(v):
    if isinstance(v, np.generic):
        v = v.item()
    if isinstance(v, sympy.Basic):
        v = sympy.Rational(v)
        return Fraction(int(v.p), int(v.q))
    return Fraction(v)


def value(D, x):
    tot = Fraction(0)
    for k, v in D.items():
        p = frac(v)
        for i in k:
            p *= x[i]
        tot += p
    return tot


def check_eq(cls, P, lam, bounds=None):
    """brute force check of C02 / C03 for one `== 0` constraint."""
    spin = cls is qv.PCSO
    P0, T0 = dict(P), {k: type(v) for k, v in P.items()}
    with warnings.catch_warnings(record=True) as w:
        warnings.simplefilter('always')
        H = cls().add_constraint_eq_zero(P, lam=lam, bounds=bounds)
    assert not any('overflow' in str(m.message) for m in w), (P, lam)
    assert dict(P) == P0 and {k: type(v) for k, v in P.items()} == T0
    unsat = any('cannot be satisfied' in str(m.message) for m in w)
    labels = sorted({i for k in P for i in k}, key=str)
    assert H.num_ancillas == 0 and set(H.variables) <= set(labels)
    assert H.constraints == {'eq': [(qv.PUSO if spin else qv.PUBO)(P0)]}
    dom = (1, -1) if spin else (0, 1)
    for xs in itertools.product(dom, repeat=len(labels)):
        x = dict(zip(labels, xs))
        ok = value(P, x) == 0
        f = value(H, x)
        assert f >= 0
        assert H.is_solution_valid(x) == ok
        if not unsat:
            assert (f == 0) if ok else (f >= frac(lam)), (P, x, f)
    return H


LABELS = ['z', 0, 1, ('t', 2), 'y', 5]
SCALES = [
    lambda: rng.choice([1, -1, 2, -3]),
    lambda: np.int8(rng.choice([1, -1, 2, -3])),
    lambda: np.int16(rng.choice([1, -1, 20, -30])),
    lambda: Fraction(rng.choice([1, -1, 3, -5])),
    lambda: sympy.Integer(rng.choice([1, -1, 2])),
    lambda: sympy.Rational(rng.choice([2, -2, 6]), 2),
    lambda: float(rng.choice([1, -1, 2, -3])),
    lambda: np.float32(rng.choice([1, -1, 2, -3])),
]
LAMS = [1, 2, 5, Fraction(3, 2), 2.5, np.uint8(3), np.float32(1.5),
        sympy.Integer(2)]

n = 0
for trial in range(40):
    z, x, y = rng.sample(LABELS, 3)
    s = rng.choice(SCALES)()
    P = {(z,): s, (x,): -s, (y,): -s, (x, y): s}
    kind = trial % 4
    if kind == 1:      # near miss: one coefficient differs
        k = rng.choice(list(P))
        P[k] = P[k] + P[k]
    elif kind == 2:    # near miss: z sits in the product
        P = {(z,): s, (x,): -s, (y,): -s, (x, z): s}
    elif kind == 3 and trial % 8 == 3:   # mixed unsigned / signed storage
        P = {(z,): np.uint8(1), (x,): np.int8(-1), (y,): np.int8(-1),
             (x, y): np.uint8(1)}
    lam = rng.choice(LAMS)
    check_eq(qv.PCBO, P, lam, bounds=rng.choice([None, (-4, 4)])
             if kind else None)
    n += 1
    # the same function on spins
    if not isinstance(s, (np.integer, sympy.Basic)):
        check_eq(qv.PCSO, dict(pubo_to_puso(P)), lam)
        n += 1

# random `== 0` constraints, unrelated to the special shape
for trial in range(20):
    labels = rng.sample(LABELS, 3)
    P = {}
    for _ in range(rng.randint(1, 4)):
        P[tuple(rng.sample(labels, rng.randint(1, 3)))] = rng.choice(
            [-2, -1, 1, 2])
    if rng.random() < .5:
        P[()] = rng.choice([-1, 1])
    check_eq(rng.choice([qv.PCBO, qv.PCSO]), P, rng.choice(LAMS[:5]))
    n += 1

# C06: eq_OR whose operands collapse to z == OR(x, y)
for lam in (1, 3, Fraction(5, 2)):
    H = qv.PCBO().add_constraint_eq_OR('z', 'x', 'y', 'x', lam=lam)
    assert H.num_ancillas == 0 and set(H.variables) <= {'x', 'y', 'z'}
    for zz, xx, yy in itertools.product((0, 1), repeat=3):
        sol = {'z': zz, 'x': xx, 'y': yy}
        ok = zz == (xx | yy)
        f = value(H, sol)
        assert (f == 0) if ok else (f >= lam)
        assert H.is_solution_valid(sol) == ok

# C16: symbolic weight commutes with subs, original untouched
lam = sympy.Symbol('lam')
P = {('z',): 2, ('x',): -2, ('y',): -2, ('x', 'y'): 2}
Hs = qv.PCBO({('x',): 1}).add_constraint_eq_zero(P, lam=lam)
snapshot = dict(Hs)
for c in (1, 4, Fraction(7, 2)):
    Hn = qv.PCBO({('x',): 1}).add_constraint_eq_zero(P, lam=c)
    got = Hs.subs(lam, c)
    assert got == Hn and type(got) is qv.PCBO
    assert got.constraints == Hn.constraints
assert dict(Hs) == snapshot

H = qv.PCBO().add_constraint_eq_zero(
    {('z',): 1, ('x',): -1, ('y',): -1, ('x', 'y'): 1}, lam=5)
OLD = {('z',): 5, ('x', 'z'): -10, ('y', 'z'): -10, ('x', 'y', 'z'): 10,
       ('x',): 5, ('y',): 5, ('x', 'y'): -5}
if dict(H) != OLD:
    print("OBSERVABLE: eq_zero(z - x - y + xy, lam=5) == %r, degree %d "
          "(unchanged library: %r, degree 3)" % (dict(H), H.degree, OLD))
print("ok: %d constraints" % n)
