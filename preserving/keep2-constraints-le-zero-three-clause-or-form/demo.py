"""demo for `le-zero-three-clause-or-form`.

"At least one of two / three / four clauses" written as an inequality in every
way the library offers (le, ge, lt, gt, ne), on PCBO and PCSO: C02 / C03 by
brute force over variables and ancillas (F >= 0, min over ancillas 0 iff the
relation holds, >= lam otherwise, is_solution_valid, distinct ancillas for
successive constraints), C08 (constrained optimum survives penalisation and
to_qubo), C16 (symbolic lam), C19 (argument untouched).
"""
import itertools
import operator
import random
import warnings
from fractions import Fraction

import numpy as np
import sympy

import qubovert as qv
from qubovert.utils import pubo_to_puso, solve_pubo_bruteforce, \
    solve_qubo_bruteforce

rng = random.Random(4242)
RELS = {'eq': operator.eq, 'ne': operator.ne, 'lt': operator.lt,
        'le': operator.le, 'gt': operator.gt, 'ge': operator.ge}


def frac(v):
    if isinstance(v, np.generic):
        v = v.item()
    if isinstance(v, sympy.Basic):
        v = sympy.Rational(v)
        return Fraction(int(v.p), int(v.q))
    return Fraction(v)


def value(D, x):
    tot = Fraction(0)
    for k, v in D.items():
        p = frac(v)
        for i in k:
            p *= x[i]
        tot += p
    return tot


def add_and_check(H, P, rel, lam, log_trick, seen_ancillas):
    """add `P rel 0` to H and brute force the terms it added."""
    spin = isinstance(H, qv.PCSO)
    cls = type(H)
    P0, T0 = dict(P), {k: type(v) for k, v in P.items()}
    before = cls(H)
    with warnings.catch_warnings(record=True) as w:
        warnings.simplefilter('always')
        getattr(H, 'add_constraint_%s_zero' % rel)(
            P, lam=lam, log_trick=log_trick)
    assert not any('overflow' in str(m.message) for m in w), (P, rel, lam)
    assert dict(P) == P0 and {k: type(v) for k, v in P.items()} == T0
    unsat = any('cannot be satisfied' in str(m.message) for m in w)
    F = dict(cls(H) - before)
    labels = sorted({i for k in P for i in k}, key=str)
    anc = sorted({i for k in F for i in k if i not in labels}, key=str)
    assert all(str(a).startswith('__a') for a in anc)
    assert not (set(anc) & seen_ancillas)
    seen_ancillas |= set(anc)
    assert all(int(str(a)[3:]) < H.num_ancillas for a in anc)
    assert len(anc) <= 6
    dom = (1, -1) if spin else (0, 1)
    for xs in itertools.product(dom, repeat=len(labels)):
        x = dict(zip(labels, xs))
        ok = RELS[rel](value(P, x), 0)
        best = None
        for as_ in itertools.product(dom, repeat=len(anc)):
            s = dict(x)
            s.update(zip(anc, as_))
            f = value(F, s)
            assert f >= 0, (P, rel, s, f)
            best = f if best is None or f < best else best
        if not unsat:
            assert (best == 0) if ok else (best >= frac(lam)), \
                (P, rel, lam, x, best)
    return anc


LABELS = ['a', 0, 1, ('t', 2), 'y', 5]
ONES = [lambda: 1, lambda: np.int8(1), lambda: Fraction(1),
        lambda: sympy.Integer(1), lambda: 1.0, lambda: np.float32(1)]
LAMS = [1, 2, 5, Fraction(3, 2), 2.5, np.uint8(3), np.float32(1.5)]


def at_least_one(nclauses, rel, one):
    """sum(clauses) >= 1 written with relation `rel`."""
    labels = rng.sample(LABELS, 4)
    clauses = set()
    while len(clauses) < nclauses:
        clauses.add(tuple(sorted(rng.sample(labels, rng.choice([1, 1, 2])),
                                 key=str)))
    o = one()
    if rel == 'le':      # 1 - sum <= 0
        P = {k: 0 * o - o for k in clauses}
        P[()] = o
    elif rel == 'ge':    # sum - 1 >= 0
        P = {k: o for k in clauses}
        P[()] = 0 * o - o
    elif rel == 'lt':    # -sum < 0
        P = {k: 0 * o - o for k in clauses}
    else:                # gt / ne:  sum > 0, sum != 0
        P = {k: o for k in clauses}
    return P


n = 0
for trial in range(48):
    rel = ['le', 'ge', 'lt', 'gt', 'ne'][trial % 5]
    nclauses = [2, 3, 3, 4][trial % 4]
    P = at_least_one(nclauses, rel, ONES[trial % len(ONES)])
    H = qv.PCBO()
    if trial % 2:
        H[('a',)] += 1
    seen = set()
    add_and_check(H, P, rel, rng.choice(LAMS), trial % 3 == 0, seen)
    # a second constraint on the same model draws fresh ancillas
    P2 = {(LABELS[0],): 1, (LABELS[1],): 2, (LABELS[2], LABELS[3]): 1, (): -2}
    add_and_check(H, P2, rng.choice(['le', 'ge']), 2, trial % 2 == 0,
                  seen)
    labels = sorted(set(LABELS), key=str)
    for xs in itertools.product((0, 1), repeat=len(labels)):
        x = dict(zip(labels, xs))
        good = all(
            RELS[r](value(Q, x), 0)
            for r, v in H.constraints.items() for Q in v)
        assert H.is_solution_valid(x) == good
    n += 2

# the same on spins (C03)
for trial in range(12):
    rel = ['le', 'ge', 'lt', 'gt', 'ne'][trial % 5]
    P = at_least_one([2, 3][trial % 2], rel, ONES[0])
    Hs = dict(pubo_to_puso(P))
    H = qv.PCSO()
    anc = add_and_check(H, Hs, rel, rng.choice(LAMS[:5]), trial % 2 == 0,
                        set())
    assert len(anc) <= H.num_ancillas
    n += 1

# C08: constrained optimum through penalisation and quadratisation
for trial in range(8):
    labs = ['a', 'b', 'c', 'd']
    f = {(l,): rng.randint(1, 4) for l in labs}
    f[('a', 'b')] = -rng.randint(0, 3)
    H = qv.PCBO(f)
    lam = sum(abs(v) for v in f.values()) + 1
    H.add_constraint_ge_zero({('a',): 1, ('b', 'c'): 1, ('d',): 1, (): -1},
                             lam=lam, log_trick=trial % 2 == 0)
    feas = []
    for xs in itertools.product((0, 1), repeat=4):
        x = dict(zip(labs, xs))
        if x['a'] + x['b'] * x['c'] + x['d'] >= 1:
            feas.append(value(f, x))
    opt = min(feas)
    sol = H.solve_bruteforce()
    assert H.is_solution_valid(sol) and value(f, sol) == opt
    for conv, solver in ((H.to_pubo, solve_pubo_bruteforce),
                         (H.to_qubo, solve_qubo_bruteforce)):
        D = conv()
        e, sols = solver(D, all_solutions=True)
        assert e == opt
        for s in sols:
            x = H.remove_ancilla_from_solution(H.convert_solution(s))
            assert set(x) <= set(labs)
            x = {l: x.get(l, 0) for l in labs}
            assert H.is_solution_valid(x) and value(f, x) == opt
    n += 1

# C16
lam = sympy.Symbol('lam')
P = {('a',): -1, ('b',): -1, ('c', 'a'): -1, (): 1}
Hs = qv.PCBO({('b',): 2}).add_constraint_le_zero(P, lam=lam)
snap = dict(Hs)
for c in (1, 3, Fraction(5, 2)):
    Hn = qv.PCBO({('b',): 2}).add_constraint_le_zero(P, lam=c)
    got = Hs.subs(lam, c)
    assert got == Hn and type(got) is qv.PCBO
    assert got.constraints == Hn.constraints
    assert got.num_ancillas == Hn.num_ancillas
assert dict(Hs) == snap

H = qv.PCBO().add_constraint_le_zero(
    {('a',): -1, ('b',): -1, ('c',): -1, (): 1}, lam=5)
OLD_ANC, OLD_DEG = 2, 2
if (H.num_ancillas, H.degree) != (OLD_ANC, OLD_DEG):
    print("OBSERVABLE: le_zero(1 - a - b - c, lam=5) == %r: %d ancillas, "
          "degree %d (unchanged library: %d ancillas '__a0', '__a1', "
          "degree %d)" % (dict(H), H.num_ancillas, H.degree, OLD_ANC,
                          OLD_DEG))
print("ok: %d constraint checks" % n)
