"""demo for `pubo-extrema-pivot-cancellation`.

C15: approximate_*_extrema enclose the true extrema (checked exactly, with
Fractions, by brute force) for int / Fraction / numpy / sympy / float
coefficients.  C02 / C03: the comparison constraints built with bounds omitted
(so the bounds come from approximate_pubo_extrema) are exact non-negative
penalties.
"""
import itertools
import operator
import random
import warnings
from fractions import Fraction

import numpy as np
import sympy

import qubovert as qv
from qubovert.utils import (
    approximate_pubo_extrema, approximate_qubo_extrema,
    approximate_puso_extrema, approximate_quso_extrema,
)

rng = random.Random(20261005)


def frac(v):
    """exact value of a coefficient."""
    if isinstance(v, np.generic):
        v = v.item()
    if isinstance(v, sympy.Basic):
        v = sympy.Rational(v)
        return Fraction(int(v.p), int(v.q))
    return Fraction(v)


def value(D, x, spin=False):
    tot = Fraction(0)
    for k, v in D.items():
        p = frac(v)
        for i in k:
            p *= x[i]
        tot += p
    return tot


def true_extrema(D, labels, spin=False):
    vals = [
        value(D, dict(zip(labels, a)))
        for a in itertools.product((1, -1) if spin else (0, 1),
                                   repeat=len(labels))
    ]
    return min(vals), max(vals)


FAMILIES = {
    'int': lambda: rng.randint(-6, 6),
    'Fraction': lambda: Fraction(rng.randint(-9, 9), rng.randint(1, 4)),
    'int8': lambda: np.int8(rng.randint(-6, 6)),
    'uint8+int8': lambda: (np.uint8(rng.randint(0, 9)) if rng.random() < .5
                           else np.int8(rng.randint(-9, 0))),
    'int16': lambda: np.int16(rng.randint(-300, 300)),
    'sympyInteger': lambda: sympy.Integer(rng.randint(-6, 6)),
    'sympyRational': lambda: sympy.Rational(rng.randint(-9, 9),
                                            rng.randint(1, 4)),
    'float': lambda: rng.randint(-24, 24) / 4,
    'float32': lambda: np.float32(rng.randint(-24, 24) / 4),
    'mixed': lambda: rng.choice([
        rng.randint(-6, 6), Fraction(rng.randint(-9, 9), 2),
        np.int8(rng.randint(-6, 6)), sympy.Integer(rng.randint(-6, 6)),
        rng.randint(-8, 8) / 2])(),
}
FAMILIES['mixed'] = lambda: rng.choice(
    [FAMILIES[k] for k in FAMILIES if k != 'mixed'])()

LABELS = [0, 1, 'a', ('t', 2), 4]


def random_dict(fam, deg, nterms, offset=True):
    D = {}
    for _ in range(nterms):
        k = tuple(rng.sample(LABELS, rng.randint(1, deg)))
        D[k] = FAMILIES[fam]()
    if offset and rng.random() < .6:
        D[()] = FAMILIES[fam]()
    return D


# ---------------------------------------------------------------- C15
count = 0
for fam in FAMILIES:
    for _ in range(12):
        deg = rng.choice([1, 2, 3, 4])
        D = random_dict(fam, deg, rng.randint(0, 7))
        with warnings.catch_warnings():
            warnings.simplefilter('error')   # no numpy overflow allowed
            for obj in (D, qv.PUBO(D), qv.PCBO(D)):
                lo, hi = approximate_pubo_extrema(obj)
                tmin, tmax = true_extrema(obj, LABELS)
                assert frac(lo) <= tmin and tmax <= frac(hi), (D, lo, hi)
        if 'uint8' in fam or fam == 'mixed':
            # (the spin functions negate coefficients; unsigned ones wrap
            # around there in the unchanged library as well -- not our topic)
            count += 1
            continue
        for obj in (D, qv.PUSO(D)):
            lo, hi = approximate_puso_extrema(obj)
            tmin, tmax = true_extrema(obj, LABELS, spin=True)
            assert frac(lo) <= tmin and tmax <= frac(hi), (D, lo, hi)
        if deg <= 2:
            lo, hi = approximate_qubo_extrema(qv.QUBO(D))
            tmin, tmax = true_extrema(qv.QUBO(D), LABELS)
            assert frac(lo) <= tmin and tmax <= frac(hi)
            lo, hi = approximate_quso_extrema(qv.QUSO(D))
            tmin, tmax = true_extrema(qv.QUSO(D), LABELS, spin=True)
            assert frac(lo) <= tmin and tmax <= frac(hi)
        count += 1
    c = FAMILIES[fam]()
    for f in (approximate_pubo_extrema, approximate_puso_extrema,
              approximate_qubo_extrema, approximate_quso_extrema):
        lo, hi = f({(): c})
        assert lo == hi == c
        assert f({}) == (0, 0)

# narrow integers: sums that just fit must not wrap around
lo, hi = approximate_pubo_extrema(
    {(0,): np.int8(100), (0, 1): np.int8(-100), (1,): np.int8(20)})
assert lo <= 0 and hi >= 120

# ---------------------------------------------------------------- C02 / C03
RELS = {'eq': operator.eq, 'ne': operator.ne, 'lt': operator.lt,
        'le': operator.le, 'gt': operator.gt, 'ge': operator.ge}


def check_constraint(cls, P, rel, lam, log_trick):
    spin = cls is qv.PCSO
    P0 = dict(P)
    with warnings.catch_warnings(record=True) as w:
        warnings.simplefilter('always')
        H = cls()
        kw = {} if rel == 'eq' else {'log_trick': log_trick}
        getattr(H, 'add_constraint_%s_zero' % rel)(P, lam=lam, **kw)
    assert P == P0
    unsat = any('cannot be satisfied' in str(m.message) for m in w)
    labels = sorted({i for k in P for i in k}, key=str)
    anc = [v for v in H.variables if v not in labels]
    assert all(str(a).startswith('__a') for a in anc)
    assert len(anc) <= H.num_ancillas
    if len(anc) > 8:      # too large for brute force; draw another one
        return None
    dom = (1, -1) if spin else (0, 1)
    for xs in itertools.product(dom, repeat=len(labels)):
        x = dict(zip(labels, xs))
        ok = RELS[rel](value(P, x), 0)
        assert H.is_solution_valid(x) == ok
        best = None
        for as_ in itertools.product(dom, repeat=len(anc)):
            s = dict(x)
            s.update(zip(anc, as_))
            f = value(H, s)
            assert f >= 0
            best = f if best is None or f < best else best
        if not unsat:
            if ok:
                assert best == 0, (P, rel, x, best)
            else:
                assert best >= lam, (P, rel, x, best)
    return H


nchecked = trial = 0
while nchecked < 36:
    trial += 1
    cls = qv.PCBO if trial % 3 else qv.PCSO
    labels = rng.sample(LABELS, 3)
    P = {}
    for _ in range(rng.randint(1, 4)):
        P[tuple(rng.sample(labels, rng.randint(1, 3)))] = rng.choice(
            [-2, -1, 1, 2])
    if rng.random() < .7:
        P[()] = rng.choice([-2, -1, 1, 2])
    if trial % 4 == 0:    # force a linear term that cancels a product term
        P[(labels[0],)] = 2
        P[(labels[0], labels[1])] = -2
    rel = rng.choice(sorted(RELS))
    lam = rng.choice([1, 2, Fraction(3, 2), 5])
    if check_constraint(cls, P, rel, lam, rng.random() < .5) is not None:
        nchecked += 1

# ---------------------------------------------------------------- observable
got = approximate_pubo_extrema({(0,): 3, (0, 1): -2})
OLD = (-2, 3)
if got != OLD:
    print("OBSERVABLE: approximate_pubo_extrema({(0,): 3, (0, 1): -2}) "
          "== %r (unchanged library: %r)" % (got, OLD))
H = qv.PCBO().add_constraint_le_zero({('x',): 3, ('x', 'y'): -2, (): -2})
OLD_ANC = 3
if H.num_ancillas != OLD_ANC:
    print("OBSERVABLE: le_zero(3x - 2xy - 2) uses %d ancillas "
          "(unchanged library: %d)" % (H.num_ancillas, OLD_ANC))
print("ok: %d extrema cases, %d constraints" % (count, nchecked))
