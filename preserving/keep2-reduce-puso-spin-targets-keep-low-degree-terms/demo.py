"""Demo for `puso-spin-targets-keep-low-degree-terms`.

Brute-force check of the degree-reduction statement (C01), of the
no-reduction conversions (C04) and of the label part of C14 for random PUSO and
PCSO models and their spin targets to_puso(deg) / to_quso (plus the boolean
targets, which the change leaves alone). Exact rational arithmetic; all
numbers are dyadic because the library's boolean -> spin conversion divides
by two in floating point. Exits 0 with and without the change.
"""
import itertools
import random
import sys
from fractions import Fraction

import numpy as np
import qubovert as qv

random.seed(77012)
LABELS = ['a', 'b', 0, 1, ('t', 2), 'c', 7]


def frac(v):
    if isinstance(v, np.generic):
        v = v.item()
    return Fraction(v)


def evaluate(D, s):
    tot = Fraction(0)
    for k, v in D.items():
        p = 1
        for i in k:
            p *= s[i]
        tot += frac(v) * p
    return tot


def random_model(cls, nvars, maxdeg, nterms, coefs, coefs_low=None):
    labels = random.sample(LABELS, nvars)
    m = cls()
    for _ in range(nterms):
        d = random.randint(0, maxdeg)
        k = tuple(random.sample(labels, min(d, nvars)))
        m[k] += random.choice(coefs_low if coefs_low and d <= 2 else coefs)
    top = tuple(labels[:maxdeg])
    m[top] += random.choice(coefs)
    if not m[top]:
        m[top] += random.choice(coefs)
    return m


def check_form(M, D, target, spin_form, strong):
    """C01 (and C04 when nothing had to be reduced) for one form D of M."""
    n = M.num_binary_variables
    assert all(len(k) <= target for k in D), (target, dict(D))
    used = set(i for k in D for i in k)
    assert all(isinstance(i, int) and i >= 0 for i in used)
    anc = sorted(i for i in used if i >= n)
    assert anc == list(range(n, n + len(anc))), anc
    assert len(anc) <= 7, "demo instance too big"
    total = n + len(anc)
    mapping = M.mapping
    assert sorted(mapping.values()) == list(range(n))
    to_spin = {0: 1, 1: -1}
    seen = {}
    for s in itertools.product((1, -1) if spin_form else (0, 1),
                               repeat=total):
        sol = dict(enumerate(s))
        z = M.convert_solution(sol, spin=spin_form)
        assert set(z) == set(mapping)
        for lab, i in mapping.items():
            assert z[lab] == (s[i] if spin_form else to_spin[s[i]])
        # the other container types give the same answer
        assert M.convert_solution(list(s), spin=spin_form) == z
        assert M.convert_solution(tuple(s), spin=spin_form) == z
        mv, dv = evaluate(M, z), evaluate(D, sol)
        if strong:
            assert dv >= mv, (dict(M), dict(D), sol)
        if not anc:
            assert dv == mv
        key = tuple(z[l] for l in sorted(mapping, key=mapping.get))
        seen[key] = seen.get(key, False) or dv == mv
    assert len(seen) == 2 ** n and all(seen.values())


def run():
    count = 0
    coef_sets = [
        [-3, -2, -1, 1, 2, 3],
        [Fraction(-5, 2), Fraction(1, 4), Fraction(7, 4), Fraction(-1),
         Fraction(2)],
        [np.float32(1.5), -0.25, np.float32(-2), 0.5, np.float32(3)],
    ]
    # narrow integers only on the terms of degree <= 2 (with the unchanged
    # library an int8 coefficient of a term that must be reduced overflows
    # as soon as a Python-int penalty above 127 meets it)
    narrow = [np.int8(-3), np.int8(2), np.int8(1), np.float32(1.5), -0.25]
    for trial in range(40):
        coefs = coef_sets[trial % 3]
        cls = qv.PCSO if trial % 4 == 3 else qv.PUSO
        maxdeg = random.choice([3, 3, 4])
        M = random_model(cls, random.randint(3, 4), maxdeg, 4, coefs,
                         narrow if trial % 3 == 2 else None)
        if cls is qv.PCSO and trial % 8 == 3:
            # a spin constraint z_i + z_j == 0 with a dyadic weight
            l2 = list(M.mapping)[:2]
            M.add_constraint_eq_zero({(l2[0],): 1, (l2[1],): 1}, lam=4)
        stale = trial % 5 == 4
        if stale:
            # bookkeeping is only an upper bound: kill the top term
            top = max(M, key=len)
            M[top] = 0
        else:
            M.refresh()
        maxc = max([abs(frac(v)) for v in M.values()] + [Fraction(1)])
        # the penalties act on the boolean image of the spin terms, whose
        # coefficients are at most 2**deg * (sum of |spin coefficients|)
        big = 64 * sum(abs(frac(v)) for v in M.values()) + 1
        lams = [(None, True), (big, True), (lambda v: abs(v), True),
                (lambda v: 2 * abs(v) + 1, True), (type(maxc)(1) / 8, False)]
        if trial % 3 != 1:
            lams[1] = (float(big), True)
            lams[4] = (0.125, False)
        for lam, strong in random.sample(lams, 2):
            before = dict(M)
            info = (M.mapping, M.variables, M.num_binary_variables, M.degree)
            forms = [
                (M.to_quso(lam=lam), 2, True),
                (M.to_puso(deg=2, lam=lam), 2, True),
                (M.to_puso(deg=3, lam=lam), 3, True),
                (M.to_qubo(lam=lam), 2, False),
                (M.to_pubo(deg=2, lam=lam), 2, False),
            ]
            assert type(forms[0][0]) is qv.utils.QUSOMatrix
            assert type(forms[1][0]) is qv.utils.PUSOMatrix
            assert type(forms[2][0]) is qv.utils.PUSOMatrix
            assert type(forms[3][0]) is qv.utils.QUBOMatrix
            assert type(forms[4][0]) is qv.utils.PUBOMatrix
            if not stale:
                for D, target, spin_form in random.sample(forms[:3], 2) + \
                        random.sample(forms[3:], 1):
                    check_form(M, D, target, spin_form, strong)
                    count += 1
            else:
                # unrefreshed model: the forms still denote M's function on
                # consistent ancillas; check the spin ones
                for D, target, spin_form in forms[:3]:
                    check_form(M, D, target, spin_form, strong)
                    count += 1
            # no reduction required: exact relabelling (C04)
            E = M.to_puso()
            assert type(E) is qv.utils.PUSOMatrix
            check_form(M, E, max(M.degree, 0), True, True)
            assert M.to_enumerated() == E
            # inputs untouched (C19)
            assert dict(M) == before
            assert info == (M.mapping, M.variables,
                            M.num_binary_variables, M.degree)
    # documented exception for a too small degree
    H = qv.PUSO({(0, 1, 2): 1, (0,): 2})
    for bad in (1, 0):
        try:
            H.to_puso(deg=bad)
        except ValueError:
            pass
        else:
            raise AssertionError("deg < 2 must raise ValueError")
    return count


def observable():
    H = qv.PUSO({(0, 1, 2): 1, (0, 1): -1})
    L = dict(H.to_quso())
    old = {(3,): -2.5, (): 5.75, (0, 2): 3.25, (0,): 1.25, (2,): 1.25,
           (0, 3): -4.5, (2, 3): -4.5, (1, 3): -2.0, (1,): 1.0, (1, 2): 1.0}
    if L == old:
        print("same output as the unchanged library")
        return False
    print("OBSERVABLE: PUSO({(0,1,2): 1, (0,1): -1}).to_quso() == %r; the "
          "unchanged library returns %r (ancilla 3 now pairs variables 0,1 instead "
          "of 0,2, and the (0,1) coupling is no longer sent through the "
          "boolean form)" % (L, old))
    return True


if __name__ == "__main__":
    n = run()
    d = observable()
    print("checked %d forms by brute force; differs from unchanged "
          "library: %s" % (n, d))
    sys.exit(0)
