"""Demo for `reduce-pair-choice-by-ranked-max`.

Brute-force check of the degree-reduction statement (C01) and of the label
part of C14 on random PUBO / PUSO / PCBO models, with and without `pairs`
hints, for constant / callable / default penalties, exact arithmetic only.
Exits 0 with and without the change.
"""
import itertools
import random
import sys
from fractions import Fraction

import numpy as np
import qubovert as qv

random.seed(20240611)
LABELS = ['a', 'b', 0, 1, ('t', 2), 'c', 7]


def frac(v):
    if isinstance(v, (np.generic,)):
        v = v.item()
    return Fraction(v)


def evaluate(D, s):
    tot = Fraction(0)
    for k, v in D.items():
        p = 1
        for i in k:
            p *= s[i]
        tot += frac(v) * p
    return tot


def random_model(cls, nvars, maxdeg, nterms, coefs):
    labels = random.sample(LABELS, nvars)
    m = cls()
    for _ in range(nterms):
        d = random.randint(0, maxdeg)
        k = tuple(random.sample(labels, min(d, nvars)))
        m[k] += random.choice(coefs)
    # make sure there is something to reduce
    top = tuple(labels[:maxdeg])
    m[top] += random.choice(coefs)
    if not m[top]:
        m[top] += random.choice(coefs)
    m.refresh()
    return m


def check_reduction(M, D, target, spin_model, spin_form, strong):
    """C01 for one reduced form D of M."""
    n = M.num_binary_variables
    assert D.degree <= max(target, 0) or not D, (D.degree, target)
    assert all(len(k) <= target for k in D)
    used = set(i for k in D for i in k)
    assert all(isinstance(i, int) and i >= 0 for i in used)
    anc = sorted(i for i in used if i >= n)
    total = n + len(anc)
    assert len(anc) <= 7, "demo instance too big"
    # ancillas are labelled n, n+1, ... by the library
    assert anc == list(range(n, n + len(anc))), anc
    mapping = M.mapping
    assert sorted(mapping.values()) == list(range(n))
    vals_model = (1, -1) if spin_model else (0, 1)
    vals_form = (1, -1) if spin_form else (0, 1)
    conv = {(0, 1): {0: 1, 1: -1}, (1, 0): {1: 0, -1: 1}}
    best_by_x = {}
    for s in itertools.product(vals_form, repeat=total):
        sol = dict(enumerate(s))
        x = M.convert_solution(sol, spin=spin_form)
        assert set(x) == set(mapping)
        # the relabelling is the mapping, the encoding 0 <-> 1, 1 <-> -1
        for lab, i in mapping.items():
            e = s[i]
            if spin_form != spin_model:
                e = conv[(int(spin_form), int(spin_model))][e]
            assert x[lab] == e
        mv = evaluate(M, x)
        dv = evaluate(D, sol)
        if strong:
            assert dv >= mv, (dict(M), dict(D), sol)
        key = tuple(x[l] for l in sorted(mapping, key=mapping.get))
        hit = best_by_x.get(key, False)
        best_by_x[key] = hit or dv == mv
    assert len(best_by_x) == 2 ** n
    assert all(best_by_x.values()), "some x has no exact extension"


def run():
    count = 0
    coef_sets = [
        [-3, -2, -1, 1, 2, 3],
        [Fraction(-5, 2), Fraction(1, 4), Fraction(7, 4), Fraction(-1),
         Fraction(2)],
        [np.int8(-3), np.int8(2), np.uint8(3), np.float32(1.5), -0.25],
    ]
    # a constant penalty too small to dominate. All numbers are dyadic: the
    # boolean -> spin conversion divides by two in floating point, and the
    # check below is done in exact rational arithmetic
    weak = [0.125, Fraction(1, 8), 0.125]
    for trial in range(36):
        coefs = coef_sets[trial % 3]
        kind = trial % 4
        if kind in (0, 1):
            M = random_model(qv.PUBO, random.randint(3, 5), 4, 5, coefs)
            spin_model = False
        elif kind == 2:
            # (the unchanged library cannot turn unsigned numpy spin
            # coefficients into boolean ones, so leave those out here)
            coefs = [c for c in coefs if not isinstance(c, np.uint8)]
            M = random_model(qv.PUSO, random.randint(3, 4), 3, 3, coefs)
            spin_model = True
        else:
            M = random_model(qv.PCBO, random.randint(3, 4), 4, 4, coefs)
            spin_model = False
        labels = list(M.mapping)
        # pair hints: a few real pairs, possibly one with a foreign label
        hints = [None, None]
        if len(labels) >= 2:
            h = {tuple(random.sample(labels, 2)) for _ in range(2)}
            hints.append(h)
            hints.append(h | {(labels[0], 'not-a-label')})
        maxc = max(abs(frac(v)) for v in M.values())
        lams = [
            (None, True), (maxc * 4 + 1, True),
            (lambda v: abs(v), True), (lambda v: 2 * abs(v) + 1, True),
            (weak[trial % 3], False),
        ]
        for (lam, strong), pairs in itertools.product(
                random.sample(lams, 2), random.sample(hints, 2)):
            # for a spin model the reduced boolean coefficients are not the
            # model's own coefficients, so only the default / callable
            # penalties are known to dominate them; keep a huge constant too
            if spin_model and lam is not None and not callable(lam):
                lam_use = (maxc * 64 + 1) if strong else lam
            else:
                lam_use = lam
            forms = [
                (M.to_qubo(lam=lam_use, pairs=pairs), 2, False),
                (M.to_quso(lam=lam_use, pairs=pairs), 2, True),
                (M.to_pubo(deg=3, lam=lam_use, pairs=pairs), 3, False),
                (M.to_puso(deg=2, lam=lam_use, pairs=pairs), 2, True),
            ]
            D, target, spin_form = random.choice(forms)
            before = dict(M)
            check_reduction(M, D, target, spin_model, spin_form, strong)
            assert dict(M) == before
            count += 1
    # the documented promise about hints: a hinted pair that occurs in a term
    # to reduce is reduced to one ancilla (test-suite instance, shortened)
    chain = qv.PUBO({
        ('x0', 'x1'): -1, ('x1',): 1, ('x1', 'x2'): -1, ('x2',): 1,
        ('x3', 'x2'): -1, ('x3',): 1, ('x4', 'x3'): -1, ('x4',): 1,
    }) ** 2
    hp = {('x0', 'x1'), ('x1', 'x2'), ('x2', 'x3'), ('x3', 'x4')}
    q = chain.to_qubo(pairs=hp)
    assert q.num_binary_variables - chain.num_binary_variables == 4
    return count


def observable():
    # when the last term (0, 1, 4) is reduced, both (0, 1) and (1, 4) already
    # own an ancilla: (1, 4) -> 5 occurs in three terms, (0, 1) -> 6 in two.
    P = qv.PUBO({(i,): 1 for i in range(5)})
    for k in [(1, 2, 4), (1, 3, 4), (0, 1, 3), (0, 1, 4)]:
        P[k] += 1
    assert P.mapping == {i: i for i in range(5)}
    Q = P.to_qubo()
    old = {(0,): 1, (1,): 1, (2,): 1, (3,): 1, (4,): 1, (5,): 12, (1, 4): 4,
           (1, 5): -8, (4, 5): -8, (2, 5): 1, (3, 5): 1, (6,): 12, (0, 1): 4,
           (0, 6): -8, (1, 6): -8, (3, 6): 1, (4, 6): 1}
    last_new = sorted(set(Q) - set(old))
    last_old = sorted(set(old) - set(Q))
    if dict(Q) == old:
        print("same output as the unchanged library")
        return False
    print("OBSERVABLE: PUBO x0+..+x4 + x1x2x4 + x1x3x4 + x0x1x3 + x0x1x4 "
          ".to_qubo(): the last term becomes %r (weights %r, %r on the "
          "ancillas 5, 6); the unchanged library gives %r (weights 12, 12)"
          % (last_new, Q[(5,)], Q[(6,)], last_old))
    return dict(Q) != old


if __name__ == "__main__":
    n = run()
    differs = observable()
    print("checked %d reduced forms by brute force; output differs from "
          "unchanged library: %s" % (n, differs))
    sys.exit(0)
