"""Demo for `refresh-keeps-label-order`.

Random edit histories on the six labelled model types; checks the bookkeeping
statement (C14: upper bounds before, exactness after refresh(), mappings are
mutually inverse bijections onto 0..n-1, function unchanged), the
relabelling/convert_solution round trip (C04), brute force solving (C09) and a
light form of the reduction statement (C01: same minimum) on the refreshed
models. Exact arithmetic (ints / Fractions / small numpy scalars only).
Exits 0 with and without the change.
"""
import itertools
import random
import sys
from fractions import Fraction

import numpy as np
import qubovert as qv

random.seed(991)
LABELS = ['a', 'b', 'c', 0, 1, (2, 'x'), 'd']
TYPES = [qv.QUBO, qv.QUSO, qv.PUBO, qv.PUSO, qv.PCBO, qv.PCSO]
SPIN = {qv.QUSO, qv.PUSO, qv.PCSO}
COEFS = [-3, -2, -1, 1, 2, 3, Fraction(1, 2), Fraction(-3, 4),
         np.int8(2), np.int8(-1), np.uint8(3), np.float32(0.5), 0]


def frac(v):
    if isinstance(v, np.generic):
        v = v.item()
    return Fraction(v)


def evaluate(D, s):
    tot = Fraction(0)
    for k, v in D.items():
        p = 1
        for i in k:
            p *= s[i]
        tot += frac(v) * p
    return tot


def true_variables(M):
    return set(i for k, v in M.items() for i in k)


def check_upper_bounds(M):
    tv = true_variables(M)
    assert tv <= M.variables
    assert M.num_binary_variables >= len(tv)
    assert M.degree >= max([len(k) for k in M] + [0]) or not M
    m, r = M.mapping, M.reverse_mapping
    assert set(m) == M.variables, (m, M.variables)
    assert sorted(m.values()) == list(range(M.num_binary_variables))
    assert r == {v: k for k, v in m.items()}


def check_exact(M):
    tv = true_variables(M)
    assert M.variables == tv
    assert M.num_binary_variables == len(tv)
    if M:
        assert M.degree == max(len(k) for k in M)
    else:
        assert M.degree <= 0      # the library reports -inf here
    m, r = M.mapping, M.reverse_mapping
    assert set(m) == tv
    assert sorted(m.values()) == list(range(len(tv)))
    assert r == {v: k for k, v in m.items()}
    assert M.max_index == len(tv) - 1


def random_history(cls):
    spin = cls in SPIN
    maxdeg = 2 if cls in (qv.QUBO, qv.QUSO) else 3
    labels = random.sample(LABELS, random.randint(3, 5))
    M = cls()
    for _ in range(random.randint(4, 12)):
        op = random.random()
        k = tuple(random.choice(labels)
                  for _ in range(random.randint(0, maxdeg)))
        if len(set(k)) > maxdeg:
            continue
        c = random.choice(COEFS)
        try:
            if op < 0.35:
                M[k] = c
            elif op < 0.6:
                M[k] += c
            elif op < 0.7 and M:
                M[random.choice(list(M))] = 0          # delete a term
            elif op < 0.78:
                M -= {k: c}
            elif op < 0.84 and maxdeg > 2:
                M *= {(labels[0],): 1, (): 1}
                if M.degree > 4:
                    M.clear()
            elif op < 0.9:
                M.update({k: c})
            elif op < 0.94:
                M.set_mapping({l: i for i, l in enumerate(
                    sorted(M.variables, key=lambda x: str(x), reverse=True))})
            elif op < 0.97 and cls in (qv.PCBO, qv.PCSO):
                a, b = labels[0], labels[1]
                if spin:
                    M.add_constraint_eq_zero({(a,): 1, (b,): 1}, lam=2)
                else:
                    M.add_constraint_eq_zero({(a,): 1, (b,): -1}, lam=2)
            else:
                M.clear()
        except OverflowError:
            # numpy refuses to mix an unsigned narrow scalar with a
            # negative Python int; not the library's business
            continue
    return M


def run():
    n_models = 0
    for trial in range(60):
        cls = TYPES[trial % 6]
        spin = cls in SPIN
        M = random_history(cls)
        check_upper_bounds(M)
        before = dict(M)
        old_rank = M.mapping
        cons = getattr(M, 'constraints', None)
        nanc = getattr(M, 'num_ancillas', None)
        C = M.copy()
        M.refresh()
        assert type(M) is cls
        # function unchanged, canonical storage
        assert dict(M) == before and M == C
        assert all(v for v in M.values())
        check_exact(M)
        if cons is not None:
            assert M.constraints == cons and M.num_ancillas == nanc
        # refreshing twice changes nothing
        snap = (M.mapping, M.reverse_mapping, M.variables, M.degree)
        M.refresh()
        assert snap == (M.mapping, M.reverse_mapping, M.variables, M.degree)
        # the properties are copies
        M.mapping.clear(), M.reverse_mapping.clear(), M.variables.clear()
        check_exact(M)
        # C04: enumerated form + convert_solution
        E = M.to_enumerated()
        n = M.num_binary_variables
        assert all(i in range(n) for k in E for i in k)
        vals = (1, -1) if spin else (0, 1)
        best = None
        # (the library's own evaluators sum in the coefficients' own types,
        # which for narrow unsigned numpy scalars is not exact)
        plain = all(isinstance(v, (int, Fraction)) for v in M.values())
        for s in itertools.product(vals, repeat=n):
            x = M.convert_solution(list(s), spin=spin)
            assert x == M.convert_solution(dict(enumerate(s)), spin=spin)
            assert x == {M.reverse_mapping[i]: s[i] for i in range(n)}
            v = evaluate(E, s)
            assert evaluate(M, x) == v
            if plain:
                assert frac(M.value(x)) == v
            best = v if best is None else min(best, v)
        # C09: brute force on the refreshed model
        if plain and (cls not in (qv.PCBO, qv.PCSO) or not M.constraints):
            sol = M.solve_bruteforce()
            assert set(sol) == M.variables
            assert evaluate(M, sol) == (best if best is not None else 0)
        # C01 (light): reductions of the refreshed model keep the minimum
        if cls in (qv.PUBO, qv.PCBO) and n and M.degree > 2 and plain:
            Q = M.to_qubo()
            anc = sorted(i for i in Q.variables if i >= n)
            assert anc == list(range(n, n + len(anc)))
            tot = n + len(anc)
            if tot <= 12:
                qbest = min(evaluate(Q, s) for s in
                            itertools.product((0, 1), repeat=tot))
                assert qbest == best
        # a label added after the refresh gets the next free integer
        M[('brand', 'new')[:1]] += 1
        check_upper_bounds(M)
        assert M.mapping['brand'] == n
        n_models += 1
    return n_models


def observable():
    P = qv.PUBO()
    P[('a',)] = 1
    P[('b',)] = 1
    P[('a',)] = 0
    P[('a',)] = 2       # 'a' kept index 0, but its term now comes last
    assert P.mapping == {'a': 0, 'b': 1}
    P.refresh()
    new = (P.mapping, dict(P.to_pubo()))
    old = ({'b': 0, 'a': 1}, {(0,): 1, (1,): 2})
    if new == old:
        print("same output as the unchanged library")
        return False
    print("OBSERVABLE: P[('a',)]=1; P[('b',)]=1; P[('a',)]=0; P[('a',)]=2; "
          "P.refresh(): (P.mapping, P.to_pubo()) == %r; the unchanged "
          "library gives %r" % (new, old))
    return True


if __name__ == "__main__":
    n = run()
    d = observable()
    print("checked %d edit histories; differs from unchanged library: %s"
          % (n, d))
    sys.exit(0)
