"""Demo for `variable-count-derived-from-variable-set`.

Random edit histories on all ten model types; checks the bookkeeping statement
(C14: variables / degree / num_binary_variables are upper bounds, mappings are
inverse bijections onto 0..n-1, exact after refresh()), that spin models with
stale bookkeeping still put their ancillas above every mapping label (C01 /
C14), the relabelling round trip (C04), brute force (C09) and that annealer
states cover exactly the model's variables (C11). Not an observable change:
the program prints the same thing with and without it. Exits 0 both ways.
"""
import itertools
import random
import sys
from fractions import Fraction

import numpy as np
import qubovert as qv
from qubovert.utils import QUBOMatrix, QUSOMatrix, PUBOMatrix, PUSOMatrix
from qubovert.sim import anneal_puso, anneal_pubo, anneal_quso, anneal_qubo

random.seed(4242)
LABELLED = [qv.QUBO, qv.QUSO, qv.PUBO, qv.PUSO, qv.PCBO, qv.PCSO]
MATRIX = [QUBOMatrix, QUSOMatrix, PUBOMatrix, PUSOMatrix]
SPIN = {qv.QUSO, qv.PUSO, qv.PCSO, QUSOMatrix, PUSOMatrix}
QUAD = {qv.QUBO, qv.QUSO, QUBOMatrix, QUSOMatrix}
COEFS = [-3, -2, -1, 1, 2, 3, Fraction(1, 2), Fraction(-3, 4),
         np.int8(2), np.int8(-1), np.uint8(3), np.float32(0.5), 0, 0.0]


def frac(v):
    if isinstance(v, np.generic):
        v = v.item()
    return Fraction(v)


def evaluate(D, s):
    tot = Fraction(0)
    for k, v in D.items():
        p = 1
        for i in k:
            p *= s[i]
        tot += frac(v) * p
    return tot


def true_variables(M):
    return set(i for k in M for i in k)


def check_bounds(M, exact):
    tv = true_variables(M)
    V = M.variables
    assert isinstance(V, set) and tv <= V
    assert M.num_binary_variables == len(V)
    tdeg = max([len(k) for k in M] + [0])
    if exact:
        assert V == tv
        assert M.degree == tdeg if M else M.degree <= 0
    else:
        assert M.degree >= tdeg or not M
    V.add('never a label')                   # a copy
    assert 'never a label' not in M.variables
    if type(M) in LABELLED:
        m, r = M.mapping, M.reverse_mapping
        assert set(m) == M.variables
        assert sorted(m.values()) == list(range(M.num_binary_variables))
        assert r == {v: k for k, v in m.items()}
        assert M.max_index == M.num_binary_variables - 1
    else:
        assert M.max_index == (max(M.variables) if M.variables else None)


def random_history(cls):
    maxdeg = 2 if cls in QUAD else 4
    labels = [0, 1, 2, 3, 5] if cls in MATRIX else \
        random.sample(['a', 'b', 'c', 0, 1, (2, 'x'), 'd'], 5)
    M = cls()
    for _ in range(random.randint(3, 12)):
        op = random.random()
        k = tuple(random.choice(labels)
                  for _ in range(random.randint(0, maxdeg)))
        if cls in QUAD:
            odd = [x for x in set(k) if k.count(x) % 2] if cls in SPIN \
                else set(k)
            if len(odd) > 2:
                continue
        c = random.choice(COEFS)
        try:
            if op < 0.35:
                M[k] = c
            elif op < 0.6:
                M[k] += c
            elif op < 0.72 and M:
                M[random.choice(list(M))] = 0
            elif op < 0.8:
                M -= {k: c}
            elif op < 0.86 and cls not in QUAD and M.degree <= 2:
                M *= {(labels[0],): 1, (): 1}
            elif op < 0.92:
                M.update({k: c, (labels[1],): 0})
            elif op < 0.96:
                M.clear()
            else:
                M = M.copy()
        except OverflowError:
            # numpy refuses to mix an unsigned narrow scalar with a
            # negative Python int; not the library's business
            continue
        check_bounds(M, exact=False)
    return M


def run():
    shown = []
    for trial in range(70):
        cls = (LABELLED + MATRIX)[trial % 10]
        spin = cls in SPIN
        M = random_history(cls)
        before = dict(M)
        stale_n = M.num_binary_variables
        # spin models with stale bookkeeping: ancillas above every label
        if cls in (qv.PUSO, qv.PCSO) and M.degree > 2 and all(
                isinstance(v, (int, Fraction)) for v in M.values()):
            for D in (M.to_qubo(), M.to_quso(), M.to_pubo(deg=2),
                      M.to_puso(deg=2)):
                assert D.degree <= 2
                used = true_variables(D)
                real = {M.mapping[i] for i in true_variables(M)}
                anc = sorted(used - set(range(stale_n)))
                assert anc == list(range(stale_n, stale_n + len(anc)))
                assert real <= set(range(stale_n))
        assert dict(M) == before
        M.refresh()
        assert type(M) is cls and dict(M) == before
        check_bounds(M, exact=True)
        n = M.num_binary_variables
        shown.append(n)
        # C04 / C09 on the refreshed model
        if cls in LABELLED:
            E = M.to_enumerated()
            assert E.num_binary_variables == n == len(E.variables)
            conv = (lambda s: M.convert_solution(s, spin=spin))
        else:
            E = M
            conv = (lambda s: {i: s[j] for j, i in
                               enumerate(sorted(M.variables))})
        plain = all(isinstance(v, (int, Fraction)) for v in M.values())
        best = None
        vals = (1, -1) if spin else (0, 1)
        for s in itertools.product(vals, repeat=n):
            x = conv(list(s))
            assert set(x) == M.variables
            v = evaluate(M, x)
            if cls in LABELLED:
                assert v == evaluate(E, s)
            best = v if best is None else min(best, v)
        if plain and not getattr(M, 'constraints', None):
            sol = M.solve_bruteforce()
            assert set(sol) == M.variables
            assert evaluate(M, sol) == (best if best is not None else 0)
        # C11: annealer states cover the model's variables
        if n and trial % 2 == 0:
            fn = {True: {True: anneal_quso, False: anneal_puso},
                  False: {True: anneal_qubo, False: anneal_pubo}
                  }[spin][cls in QUAD]
            F = type(M)({k: float(frac(v)) for k, v in M.items()})
            res = fn(F, num_anneals=2, anneal_duration=5, seed=3)
            assert len(res) == 2
            for r in res:
                if cls in MATRIX:
                    assert set(r.state) == set(range(F.max_index + 1))
                else:
                    assert set(r.state) == F.variables
                assert set(r.state.values()) <= set(vals)
                assert abs(r.value - F.value(r.state)) < 1e-9
    return shown


if __name__ == "__main__":
    import warnings
    warnings.simplefilter("ignore")
    shown = run()
    print("checked %d histories; variable counts after refresh: %s"
          % (len(shown), shown))
    sys.exit(0)
