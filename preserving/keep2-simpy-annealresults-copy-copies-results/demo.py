"""demo for `annealresults-copy-copies-results`.

C13 around `copy` (and the other operations, to see nothing else moved) on
random collections, plus independence of the copy.  Exits 0 with and without
the change.
"""
import random
from fractions import Fraction

import numpy as np

from qubovert.sim import AnnealResults, AnnealResult, anneal_quso

rnd = random.Random(4242)
VALUES = [-3, -3, 0, 2, 0.25, Fraction(-1, 2), Fraction(2), np.int8(-3),
          np.float32(0.25), np.uint8(2), np.int64(7)]


def new_result():
    spin = rnd.random() < .5
    vals = (1, -1) if spin else (0, 1)
    return AnnealResult({k: rnd.choice(vals) for k in ('a', 1, (2, 'b'))},
                        rnd.choice(VALUES), spin)


def snapshot(res):
    return [(dict(r.state), r.value, type(r.value), r.spin) for r in res]


def invariant(res, expected):
    """expected: snapshot the collection must be equal to"""
    assert isinstance(res, AnnealResults)
    assert snapshot(res) == expected
    if not expected:
        assert res.best is None
    else:
        assert any(res.best is r for r in res)
        assert res.best.value == min(e[1] for e in expected)
        assert all(res.best.value <= r.value for r in res)


shared = set()
for trial in range(200):
    res = AnnealResults(new_result() for _ in range(rnd.randint(0, 6)))
    snap = snapshot(res)
    invariant(res, snap)
    c = res.copy()
    invariant(c, snap)
    assert c == res and c is not res
    shared.add(any(x is y for x, y in zip(c, res)))

    # structural edits of the copy never reach the original, and vice versa
    for obj, other in ((c, res), (res, c)):
        before = snapshot(other)
        for _ in range(4):
            op = rnd.randrange(6)
            if op == 0:
                obj.append(new_result())
            elif op == 1 and obj:
                obj.pop(rnd.randrange(len(obj)))
            elif op == 2 and obj:
                obj[rnd.randrange(len(obj))] = new_result()
            elif op == 3:
                obj.sort()
                assert all(a.value <= b.value for a, b in zip(obj, obj[1:]))
            elif op == 4:
                obj += [new_result()]
            elif op == 5 and obj:
                del obj[::2]
            invariant(obj, snapshot(obj))
        invariant(other, before)

    # copies of copies, of slices, of derived collections
    d = res.copy().copy()
    invariant(d, snapshot(res))
    invariant(res[1:].copy(), snapshot(res)[1:])
    invariant((res + c).copy(), snapshot(res) + snapshot(c))
    b, s = res.to_boolean().copy(), res.copy().to_spin()
    assert [x.value for x in b] == [x.value for x in res] == [x.value for x in s]
    assert all(not x.spin for x in b) and all(x.spin for x in s)
    assert list(b.to_spin()) == list(s) and list(s.to_boolean()) == list(b)

    # AnnealResult.copy is independent of the original
    if res:
        r = res[0]
        rc = r.copy()
        assert rc == r and rc is not r and rc.state is not r.state
        rc.state['new'] = 1
        assert 'new' not in r.state

# a copy of an annealer's output is still a faithful record (C11)
L = {(0, 1): 1, (1, 2): -2, (0,): Fraction(1, 2), (): np.int8(3)}
out = anneal_quso(L, num_anneals=5, seed=3).copy()
for r in out:
    z = r.state
    assert set(z) == {0, 1, 2} and r.spin is True
    assert r.value == z[0] * z[1] - 2 * z[1] * z[2] + z[0] / 2 + 3
assert out.best.value == min(r.value for r in out)

res = AnnealResults([AnnealResult({0: 1}, 1, True)])
c = res.copy()
c[0].state[0] = -1
if shared == {False}:
    assert res[0].state == {0: 1}
    print("OBSERVABLE: results.copy()[0] is results[0] -> False (was True); "
          "after c = results.copy(); c[0].state[0] = -1 the original state "
          "is still {0: 1} (was {0: -1})")
else:
    assert res[0].state == {0: -1}
print("ok")
