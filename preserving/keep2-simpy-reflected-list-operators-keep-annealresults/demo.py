"""demo for `reflected-list-operators-keep-annealresults`.

Random sequences of the list operations of C13 on AnnealResults, mirrored on a
plain list; after every step the C13 invariants are asserted.
Exits 0 with and without the change.
"""
import random
from fractions import Fraction

import numpy as np

from qubovert.sim import AnnealResults, AnnealResult

rnd = random.Random(77)
VALUES = [-2, -2, 0, 1, 1.5, Fraction(1, 2), Fraction(-2), np.int8(3),
          np.float32(-0.5), np.uint8(1), np.int64(-2), 2.0]


def new_result():
    spin = rnd.random() < .5
    vals = (1, -1) if spin else (0, 1)
    return AnnealResult({i: rnd.choice(vals) for i in range(3)},
                        rnd.choice(VALUES), spin)


def invariant(res, model):
    assert isinstance(res, AnnealResults), type(res)
    assert list(res) == model and len(res) == len(model)
    assert all(x is y for x, y in zip(res, model))
    if not model:
        assert res.best is None
    else:
        assert any(res.best is r or res.best == r for r in res)
        assert all(res.best.value <= r.value for r in res)
        assert res.best.value == min(r.value for r in model)


def operand():
    items = [new_result() for _ in range(rnd.randint(0, 3))]
    return rnd.choice([list, AnnealResults])(items)


reflected_types = set()
for trial in range(300):
    model = [new_result() for _ in range(rnd.randint(0, 4))]
    res = AnnealResults(model)
    invariant(res, model)
    for step in range(12):
        op = rnd.randrange(22)
        if op == 0:
            r = new_result(); res.append(r); model.append(r)
        elif op == 1:
            r = new_result()
            res.add_state(r.state, r.value, r.spin); model.append(res[-1])
        elif op == 2:
            r, i = new_result(), rnd.randint(-6, 6)
            res.insert(i, r); model.insert(i, r)
        elif op == 3 and model:
            r = rnd.choice(model); res.remove(r); model.remove(r)
        elif op == 4 and model:
            i = rnd.randrange(-len(model), len(model))
            assert res.pop(i) is model.pop(i)
        elif op == 5:
            o = operand(); res.extend(o); model.extend(o)
        elif op == 6:
            o = operand(); d = res + o
            invariant(d, model + list(o)); invariant(res, model)
        elif op == 7:
            o = operand(); res += o; model += list(o)
        elif op == 8:
            k = rnd.randint(-1, 3); d = res * k
            invariant(d, model * k)
        elif op == 9:
            i, j = sorted(rnd.randint(-5, 5) for _ in range(2))
            invariant(res[i:j], model[i:j])
            invariant(res[::-1], model[::-1])
        elif op == 10 and model:
            i, r = rnd.randrange(len(model)), new_result()
            res[i] = r; model[i] = r
        elif op == 11:
            i, j = sorted(rnd.randint(-5, 5) for _ in range(2))
            o = operand(); res[i:j] = o; model[i:j] = list(o)
        elif op == 12 and model:
            i = rnd.randrange(len(model)); del res[i]; del model[i]
        elif op == 13:
            i, j = sorted(rnd.randint(-5, 5) for _ in range(2))
            del res[i:j]; del model[i:j]
        elif op == 14 and rnd.random() < .2:
            res.clear(); model.clear()
        elif op == 15:
            res.sort(); model.sort(key=lambda r: r.value)
            assert all(a.value <= b.value for a, b in zip(res, res[1:]))
        elif op == 16:
            invariant(res.copy(), model)
        elif op == 17:
            f = lambda r: r.value > 0
            invariant(res.filter(f), [r for r in model if f(r)])
            g = lambda s: s[0] == 1
            invariant(res.filter_states(g), [r for r in model if g(r.state)])
        elif op == 18:
            d = res.apply_function(lambda r: AnnealResult(
                r.state, -float(r.value), r.spin))
            assert isinstance(d, AnnealResults) and len(d) == len(model)
            assert (d.best is None) == (not model)
            if model:
                assert d.best.value == min(-float(r.value) for r in model)
            d = res.convert_states(lambda s: {str(k): v for k, v in s.items()})
            assert isinstance(d, AnnealResults)
            assert [r.value for r in d] == [r.value for r in model]
        elif op == 19:
            b, s = res.to_boolean(), res.to_spin()
            for d, flag in ((b, False), (s, True)):
                assert isinstance(d, AnnealResults) and len(d) == len(model)
                assert all(x.spin is flag and x.value == y.value
                           for x, y in zip(d, model))
                assert (d.best is None) == (not model)
                if model:
                    assert d.best.value == min(r.value for r in model)
            assert list(b.to_spin()) == list(s) and list(s.to_boolean()) == list(b)
        elif op == 20:
            # reflected forms: the elements are those of the plain-list result;
            # if an AnnealResults comes back its `best` must be right.
            k = rnd.randint(-1, 3)
            o = [new_result() for _ in range(rnd.randint(0, 2))]
            for d, m in ((k * res, k * model), (o + res, o + model)):
                assert isinstance(d, list) and list(d) == m
                assert all(x is y for x, y in zip(d, m))
                reflected_types.add(type(d).__name__)
                if isinstance(d, AnnealResults):
                    invariant(d, m)
            try:
                (1, 2) + res
                raise AssertionError("tuple + results should raise, as for a list")
            except TypeError:
                pass
        elif op == 21:
            k = rnd.randint(1, 3)   # (k = 0 is not among the C13 operations)
            res *= k; model *= k
        invariant(res, model)

if reflected_types == {'AnnealResults'}:
    print("OBSERVABLE: type(2 * results) and type([r] + results) are "
          "AnnealResults (with a correct .best); they were plain `list`")
else:
    assert reflected_types == {'list'}, reflected_types
print("ok")
