"""demo for `schedule-interpolated-without-numpy`.

C11 / C12 / C19 for the annealers with 'linear' and 'geometric' schedules
over many durations, temperature ranges and coefficient types, plus the
documented exceptions of the schedule arguments.  All coefficients are dyadic,
so values are compared exactly.  Exits 0 with and without the change.
"""
import random
import warnings
from fractions import Fraction

import numpy as np
import sympy

from qubovert.sim import (
    anneal_quso, anneal_puso, anneal_qubo, anneal_pubo, AnnealResults,
    anneal_temperature_range,
)
from qubovert.utils import QUBOVertWarning, QUSOMatrix, PUBOMatrix

warnings.simplefilter("ignore")
rnd = random.Random(99)

COEFS = [int, float, Fraction, np.int8, np.float32, np.int64,
         sympy.Integer, lambda v: Fraction(v, 4), lambda v: np.uint8(abs(v)),
         lambda v: sympy.Rational(v, 2)]
BUILTIN = (0, 1, 2, 7)       # positions in COEFS with builtin / Fraction numbers


def prod(xs):
    r = 1
    for x in xs:
        r *= x
    return r


def exact(c):
    if isinstance(c, sympy.Basic):
        return Fraction(int(c.p), int(c.q))
    if isinstance(c, (np.floating, float)):
        return Fraction(float(c))
    if isinstance(c, np.integer):
        return Fraction(int(c))
    return Fraction(c)


def value(model, state):
    return sum(exact(c) * prod(state[v] for v in k) for k, c in model.items())


def random_model(labels, degree, wrap):
    m = {}
    for _ in range(rnd.randint(1, 2 * len(labels))):
        k = tuple(sorted(rnd.sample(labels, rnd.randint(
            1, min(degree, len(labels)))), key=str))
        m[k] = wrap(rnd.choice([-3, -2, -1, 1, 2, 3]))
    if rnd.random() < .5:
        m[()] = wrap(rnd.choice([-2, 1, 5]))
    return m


def check(results, model, variables, spin, num_anneals):
    assert isinstance(results, AnnealResults) and len(results) == num_anneals
    for r in results:
        assert r.spin is spin and set(r.state) == set(variables)
        assert all(v in ((1, -1) if spin else (0, 1))
                   for v in r.state.values())
        assert exact(float(r.value)) == value(model, r.state)
    assert float(results.best.value) == min(float(r.value) for r in results)
    assert any(results.best is r for r in results)


def plain(results):
    return [(sorted(r.state.items(), key=str), float(r.value), r.spin)
            for r in results]


FUNCS = [(anneal_quso, True, 2), (anneal_puso, True, 4),
         (anneal_qubo, False, 2), (anneal_pubo, False, 4)]
RANGES = [None, (3, 1), (2.5, 2.5), (10., .01), (np.float32(3), np.float32(.5)),
          (np.int8(4), np.int8(1)), (Fraction(7, 2), 1), (5, 0), (0, 0)]
for trial in range(80):
    func, spin, degree = FUNCS[trial % 4]
    ci = trial % len(COEFS)
    labels = rnd.choice([list(range(5)), ['a', 'b', ('c', 1), 3], [0, 1]])
    model = random_model(labels, degree, COEFS[ci])
    before = dict(model)
    variables = {v for k in model for v in k}
    schedule = rnd.choice(['linear', 'geometric'])
    tr = rnd.choice(RANGES)
    if tr is None and ci not in BUILTIN:
        tr = (3, 1)    # see notes: default range is computed in the
        #                coefficients' own (possibly narrow / sympy) arithmetic
    if schedule == 'geometric' and tr is not None and (
            0 in tr or isinstance(tr[0], Fraction)):
        tr = (3, 1)    # zero is documented as invalid for 'geometric'
    num_anneals = rnd.randint(1, 4)
    kwargs = dict(num_anneals=num_anneals, schedule=schedule,
                  temperature_range=tr, seed=rnd.randint(0, 999),
                  anneal_duration=rnd.choice([1, 2, 3, 10, 57]),
                  in_order=rnd.random() < .5)
    init = None
    if rnd.random() < .5:
        init = {v: rnd.choice((1, -1) if spin else (0, 1)) for v in variables}
        kwargs['initial_state'] = dict(init)
    res = func(model, **kwargs)
    check(res, model, variables, spin, num_anneals)
    assert plain(res) == plain(func(model, **kwargs)), "not reproducible"
    assert model == before and all(type(model[k]) is type(before[k])
                                   for k in model)
    if init is not None:
        assert kwargs['initial_state'] == init
        if tr == (0, 0):     # linear, all temperatures zero: never uphill
            for r in res:
                assert value(model, r.state) <= value(model, init)

# Matrix models, a linear schedule that is zero throughout: exact sweeps
for trial in range(30):
    n = rnd.randint(1, 6)
    M = QUSOMatrix()
    for i in range(n):
        M[(i,)] = rnd.choice([-3, -1, 1, 3])      # odd fields, even couplings:
    for _ in range(rnd.randint(0, 2 * n)):        # no zero energy change
        i, j = rnd.randrange(n), rnd.randrange(n)
        if i != j:
            M[(min(i, j), max(i, j))] = rnd.choice([-4, -2, 2, 4])
    model = dict(M)
    init = {i: rnd.choice((1, -1)) for i in range(n)}
    sweeps = rnd.randint(0, 4)
    res = anneal_quso(M, num_anneals=2, schedule='linear',
                      temperature_range=(0, 0), anneal_duration=sweeps,
                      initial_state=init, seed=trial)
    ref = dict(init)
    for _ in range(sweeps):
        for i in range(n):
            fl = dict(ref)
            fl[i] = -ref[i]
            if value(model, fl) < value(model, ref):
                ref = fl
    assert all(r.state == ref for r in res), (res, ref)
    B = PUBOMatrix({k: c for k, c in model.items()})
    resb = anneal_pubo(B, num_anneals=2, schedule='geometric',
                       anneal_duration=5, seed=trial)
    check(resb, dict(B), range(B.max_index + 1), False, 2)

# documented exceptions and warnings of the schedule arguments
L = {(0, 1): 1, (1, 2): -2, (0,): 1, (2, 3): 1}
for f in (anneal_quso, anneal_puso, anneal_qubo, anneal_pubo):
    for bad in (dict(schedule='something'), dict(temperature_range=(1, 2)),
                dict(anneal_duration=-1), dict(anneal_duration=-2),
                dict(temperature_range=(1, 2), schedule='linear'),
                dict(temperature_range=(1, 0)),          # geometric with zero
                dict(temperature_range=(0, 0))):
        try:
            f(L, **bad)
        except ValueError:
            pass
        else:
            raise AssertionError("ValueError expected for %s" % bad)
    with warnings.catch_warnings(record=True) as w:
        warnings.simplefilter("always")
        f(L, temperature_range=(2, 1), schedule=[3, 2, 0])
        assert any(issubclass(x.category, QUBOVertWarning) for x in w)
    assert f(L, num_anneals=0) == AnnealResults() == f(L, num_anneals=-3)
    assert len(f(L, anneal_duration=0, num_anneals=2)) == 2
    # a constant model gets the default range (0, 0) replaced by (1, 1)
    assert plain(f({(): 3}, num_anneals=2)) == [([], 3.0, f in (
        anneal_quso, anneal_puso))] * 2
assert anneal_temperature_range({}) == (0, 0)
T0, Tf = anneal_temperature_range(L, spin=True)
assert T0 >= Tf >= 0

# ordinary seeded calls return what they always returned
r = anneal_quso(L, num_anneals=3, anneal_duration=50, seed=5)
assert plain(r) == plain(anneal_puso(L, num_anneals=3, anneal_duration=50,
                                     seed=5))
OLD = [[-1, -1, -1, 1], [-1, 1, 1, -1], [-1, 1, 1, -1]]
assert [[x.state[i] for i in range(4)] for x in r] == OLD

# what is observable: end points that numpy.geomspace cannot take
try:
    r = anneal_quso(L, temperature_range=(Fraction(3), Fraction(1, 2)), seed=1)
    check(r, L, range(4), True, 1)
    m = {(0,): sympy.Rational(1, 2), (0, 1): sympy.Integer(2)}
    r2 = anneal_quso(m, num_anneals=2, seed=1)     # default range, geometric
    check(r2, m, range(2), True, 2)
    print("OBSERVABLE: anneal_quso(L, temperature_range=(Fraction(3), "
          "Fraction(1, 2))) returns %r and a model with sympy numbers anneals "
          "with the default range; both raised TypeError (numpy.geomspace "
          "has no log10 for Fraction / sympy.Float) before" % plain(r))
except TypeError:
    pass
print("ok")
