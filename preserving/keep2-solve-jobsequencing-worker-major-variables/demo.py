"""Demo for jobsequencing-worker-major-variables.

Checks statement C10 for JobSequencing by brute force over ALL assignments of
the QUBO variables (exact integer arithmetic), without assuming anything about
the layout of the assignment variables or of the slack variables (only
``convert_solution`` is used to interpret an assignment).
"""
import itertools
import random
import numpy as np
from qubovert.problems import JobSequencing
from qubovert.utils import solve_quso_bruteforce, boolean_to_spin

rng = random.Random(915)


def all_energies(Q, n):
    """Energies of the QUBO ``Q`` on all 2^n assignments (int64, exact)."""
    idx = np.arange(1 << n, dtype=np.int64)
    X = (idx[:, None] >> np.arange(n, dtype=np.int64)) & 1
    E = np.zeros(1 << n, dtype=np.int64)
    for k, v in Q.items():
        assert isinstance(v, int) and all(0 <= i < n for i in k), (k, v)
        t = np.full(1 << n, v, dtype=np.int64)
        for i in set(k):
            t = t * X[:, i]
        E += t
    return X, E


def makespan(lengths, sol):
    return max(sum(lengths[j] for j in w) for w in sol)


def optimum(lengths, m):
    jobs = list(lengths)
    best = None
    for assign in itertools.product(range(m), repeat=len(jobs)):
        loads = [0] * m
        for j, w in zip(jobs, assign):
            loads[w] += lengths[j]
        best = max(loads) if best is None else min(best, max(loads))
    return best


def is_partition(lengths, sol, m):
    if not (isinstance(sol, tuple) and len(sol) == m):
        return False
    seen = [j for w in sol for j in w]
    return len(seen) == len(set(seen)) and set(seen) == set(lengths)


def check_instance(lengths, m, log_trick, container):
    if container == "dict":
        arg = dict(lengths)
    else:
        arg = container(lengths[i] for i in range(len(lengths)))
    before = repr(arg)
    p = JobSequencing(arg, m, log_trick=log_trick)
    n = p.num_binary_variables
    opt = optimum(lengths, m)
    max_L = max(lengths.values())
    nx = m * len(lengths)

    # the dedicated brute force solver
    sol = p.solve_bruteforce()
    assert is_partition(lengths, sol, m) and p.is_solution_valid(sol)
    assert makespan(lengths, sol) == opt
    for s in p.solve_bruteforce(all_solutions=True):
        assert is_partition(lengths, s, m) and makespan(lengths, s) == opt

    for weights in ("default", "above"):
        B = rng.randint(1, 3)
        if weights == "default":
            Q = p.to_qubo(B=B)  # default A
        else:
            A = B * max_L + rng.randint(1, 3)
            Q = p.to_qubo(A, B)
        assert Q.num_binary_variables <= n
        X, E = all_energies(Q, n)
        ground = E.min()
        assert ground == B * opt, (ground, B, opt, lengths, m, log_trick)
        good = 0
        for row in X[E == ground]:
            x = [int(t) for t in row]
            dec = p.convert_solution(x)
            # same decoding for dict / tuple / spin inputs
            assert dec == p.convert_solution(dict(enumerate(x)))
            assert dec == p.convert_solution(tuple(x))
            assert dec == p.convert_solution(boolean_to_spin(x), spin=True)
            ok = (
                is_partition(lengths, dec, m) and
                makespan(lengths, dec) == opt and
                sum(lengths[j] for j in dec[0]) == opt
            )
            assert p.is_solution_valid(x) == is_partition(lengths, dec, m)
            good += ok
            if weights == "above":
                assert ok, (lengths, m, log_trick, x, dec)
        assert good >= 1

        # the spin form has the same ground energy
        if n <= 10 and weights == "default":
            assert solve_quso_bruteforce(p.to_quso(B=B))[0] == ground

    # is_solution_valid accepts exactly the feasible job assignments
    for bits in itertools.product((0, 1), repeat=nx):
        x = list(bits) + [0] * (n - nx)
        dec = p.convert_solution(x)
        assert p.is_solution_valid(x) == is_partition(lengths, dec, m)
        assert p.is_solution_valid(dec) == is_partition(lengths, dec, m)
        assert sum(len(w) for w in dec) == sum(bits)

    assert repr(arg) == before  # the input is not modified
    return p


count = 0
for trial in range(40):
    m = 2
    N = rng.choice((1, 2, 2, 3))
    names = rng.sample(["a", "b", "c", 0, 1, 2, ("t", 1)], N)
    container = rng.choice(("dict", list, tuple))
    if container != "dict":
        names = list(range(N))
    hi = 3 if N < 3 else 2
    lengths = {j: rng.randint(1, hi) for j in names}
    log_trick = bool(trial % 2)
    if not log_trick and sum(lengths.values()) > 5:
        lengths = {j: 1 for j in names}
    check_instance(lengths, m, log_trick, container)
    count += 1

# three workers, log trick
check_instance({"x": 1, "y": 1}, 3, True, "dict")
check_instance({0: 1, 1: 2}, 3, True, list)
count += 2

p = JobSequencing([2, 1], 2)
x = [1, 1, 0, 0] + [0] * (p.num_binary_variables - 4)
Q = p.to_qubo()
new = (p.convert_solution(x), Q[(1,)], Q[(2,)])
old = (({0}, {0}), 6, 1)
if new != old:
    print("OBSERVABLE: p = JobSequencing([2, 1], 2); "
          "(p.convert_solution([1, 1, 0, 0, 0...]), Q[(1,)], Q[(2,)]) "
          "was %r, is %r" % (old, new))
print("ok: %d instances checked" % count)
