"""Demo for setcover-logtrick-bounded-slack.

Checks statement C10 for SetCover by brute force over ALL assignments of the
QUBO variables with exact arithmetic (ints / Fractions), making no assumption
about the number, the weights or the layout of the slack variables.
"""
import itertools
from math import gcd
import random
from fractions import Fraction
import numpy as np
from qubovert.problems import SetCover
from qubovert.utils import boolean_to_spin, solve_quso_bruteforce

rng = random.Random(77)


def all_energies(Q, n):
    """Exact energies of ``Q`` on all 2^n assignments.

    The coefficients (ints or Fractions) are scaled by their common
    denominator ``D``, so the int64 array that is returned holds ``D * energy``.
    """
    D = 1
    for k, v in Q.items():
        assert isinstance(v, (int, Fraction)), (k, v, type(v))
        assert all(0 <= i < n for i in k), k
        D = D * Fraction(v).denominator // gcd(D, Fraction(v).denominator)
    idx = np.arange(1 << n, dtype=np.int64)
    X = (idx[:, None] >> np.arange(n, dtype=np.int64)) & 1
    E = np.zeros(1 << n, dtype=np.int64)
    for k, v in Q.items():
        c = Fraction(v) * D
        assert c.denominator == 1 and abs(c.numerator) < 2 ** 40
        t = np.full(1 << n, c.numerator, dtype=np.int64)
        for i in set(k):
            t = t * X[:, i]
        E += t
    return X, E, D


def is_cover(U, V, chosen):
    covered = set()
    for i in chosen:
        covered |= V[i]
    return covered == U


def optimum(U, V, w):
    best = None
    for r in itertools.product((0, 1), repeat=len(V)):
        chosen = {i for i, b in enumerate(r) if b}
        if is_cover(U, V, chosen):
            c = sum(w[i] for i in chosen)
            best = c if best is None or c < best else best
    return best


def check_instance(U, V, weights, log_trick):
    Ub, Vb = set(U), [set(v) for v in V]
    if weights is None:
        p, w = SetCover(U, V, log_trick=log_trick), [1] * len(V)
    else:
        p, w = SetCover(U, V, weights, log_trick=log_trick), list(weights)
    n, N = p.num_binary_variables, len(V)
    opt = optimum(U, V, w)
    assert opt is not None and p.is_coverable()

    # problem specific brute force
    sol = p.solve_bruteforce()
    assert is_cover(U, V, sol) and sum(w[i] for i in sol) == opt
    allsols = p.solve_bruteforce(all_solutions=True)
    assert all(is_cover(U, V, s) and sum(w[i] for i in s) == opt
               for s in allsols)
    assert len({frozenset(s) for s in allsols}) == len(allsols)

    # is_solution_valid accepts exactly the covers
    for r in itertools.product((0, 1), repeat=N):
        x = list(r) + [0] * (n - N)
        chosen = {i for i, b in enumerate(r) if b}
        assert p.convert_solution(x) == chosen
        assert p.convert_solution(dict(enumerate(x))) == chosen
        assert p.convert_solution(boolean_to_spin(x), spin=True) == chosen
        assert p.is_solution_valid(x) == is_cover(U, V, chosen)
        assert p.is_solution_valid(chosen) == is_cover(U, V, chosen)

    if n > 15:
        return False

    for which in ("default", "above", "fraction"):
        if which == "default":
            A, B = 2, 1
            Q = p.to_qubo()
        elif which == "above":
            B = rng.randint(1, 4)
            A = B + rng.randint(1, 3)
            Q = p.to_qubo(A, B)
        else:
            B = Fraction(rng.randint(1, 5), rng.randint(1, 5))
            A = B + Fraction(1, rng.randint(1, 7))
            Q = p.to_qubo(A, B)
        assert Q.num_binary_variables <= n
        X, E, D = all_energies(Q, n)
        ground = int(E.min())
        assert Fraction(ground, D) == B * opt, (ground, D, B, opt, U, V, w)
        for row in X[E == ground]:
            x = [int(t) for t in row]
            dec = p.convert_solution(x)
            assert p.is_solution_valid(x) and is_cover(U, V, dec)
            assert sum(w[i] for i in dec) == opt
        # an assignment that does not decode to a cover is never a ground state
        for row, e in zip(X, E):
            if not is_cover(U, V, {i for i in range(N) if row[i]}):
                assert e > ground
        if which == "default" and n <= 10:
            assert solve_quso_bruteforce(p.to_quso())[0] * D == ground

    assert (U, list(V)) == (Ub, Vb)  # inputs are not modified
    return True


labels = ["a", "b", "c", "d", 0, 1, (1, 2)]
count = full = 0
while count < 40:
    nU = rng.randint(1, 3)
    U = set(rng.sample(labels, nU))
    N = rng.randint(1, 4)
    V = [set(x for x in U if rng.random() < .6) for _ in range(N)]
    if set().union(*V) != U:
        continue
    container = rng.choice((list, tuple))
    V = container(V)
    weights = None
    if rng.random() < .4:
        ws = [Fraction(rng.randint(1, 4), 4) for _ in range(N)]
        ws[rng.randrange(N)] = Fraction(1)
        weights = container(ws)
    log_trick = bool(count % 4)
    full += check_instance(U, V, weights, log_trick)
    count += 1
assert full >= 20, full

# the largest multiplicity is 5, 6 and 7 (slack must reach M - 1)
for M in (5, 6, 7):
    U, V = {"u"}, [{"u"}] * M
    p = SetCover(U, V)
    n = p.num_binary_variables
    if n <= 16:
        X, E, D = all_energies(p.to_qubo(3, 2), n)
        assert D == 1 and E.min() == 2
        for row in X[E == 2]:
            assert len(p.convert_solution([int(t) for t in row])) == 1
        # choosing all M subsets is feasible and costs exactly 2*M
        assert min(e for row, e in zip(X, E) if all(row[:M])) == 2 * M
        # ... as does choosing any k of them
        for k in range(1, M + 1):
            assert min(e for row, e in zip(X, E) if sum(row[:M]) == k) == 2*k

p = SetCover({"a", "b", "c", "d"}, [{"a", "b"}, {"a", "c"}, {"c", "d"}])
new = (p.M, p.num_binary_variables, len(p.to_qubo()))
old = (2, 15, 48)
if new != old:
    print("OBSERVABLE: SetCover({a,b,c,d}, [{a,b},{a,c},{c,d}]) with the log "
          "trick: (M, num_binary_variables, number of QUBO terms) was %r, "
          "is %r" % (old, new))
print("ok: %d instances, %d with full enumeration of the QUBO" % (count, full))
