"""Demo for vertexcover-undirected-edges-once.

Checks statement C10 for VertexCover by brute force over all assignments with
exact arithmetic (ints / Fractions). Graphs may contain an edge in both
orientations and self loops.
"""
import itertools
import random
from fractions import Fraction
from qubovert.problems import VertexCover
from qubovert.utils import (
    boolean_to_spin, qubo_value, quso_value, solve_qubo_bruteforce,
    solve_quso_bruteforce
)

rng = random.Random(4242)
pool = ["a", "b", "c", 0, 1, 2, (0, 1), "zz"]


def is_cover(edges, chosen):
    return all(u in chosen or v in chosen for u, v in edges)


def check_instance(edges):
    before = set(edges)
    p = VertexCover(edges)
    verts = {x for e in edges for x in e}
    assert p.V == verts and p.E == before
    n = p.num_binary_variables
    assert n == len(verts)
    undirected = {frozenset(e) for e in edges}

    opt = min(
        len(c) for r in range(n + 1)
        for c in map(set, itertools.combinations(verts, r))
        if is_cover(edges, c)
    )

    sol = p.solve_bruteforce()
    assert is_cover(edges, sol) and len(sol) == opt and sol <= verts
    for s in p.solve_bruteforce(all_solutions=True):
        assert is_cover(edges, s) and len(s) == opt

    # decoding is a bijection between assignments and vertex subsets
    decoded = {}
    for bits in itertools.product((0, 1), repeat=n):
        x = list(bits)
        dec = p.convert_solution(x)
        assert dec == p.convert_solution(dict(enumerate(x)))
        assert dec == p.convert_solution(tuple(x))
        assert dec == p.convert_solution(boolean_to_spin(x), spin=True)
        assert dec <= verts and len(dec) == sum(bits)
        decoded[bits] = dec
        assert p.is_solution_valid(x) == is_cover(edges, dec)
        assert p.is_solution_valid(dec) == is_cover(edges, dec)
    assert len({frozenset(d) for d in decoded.values()}) == 1 << n

    for which in ("default", "int", "fraction"):
        if which == "default":
            A, B = 2, 1
            Q, L = p.to_qubo(), p.to_quso()
        elif which == "int":
            B = rng.randint(1, 4)
            A = B + rng.randint(1, 3)
            Q, L = p.to_qubo(A, B), p.to_quso(A, B)
        else:
            B = Fraction(rng.randint(1, 6), rng.randint(1, 6))
            A = B + Fraction(1, rng.randint(1, 9))
            Q, L = p.to_qubo(A, B), p.to_quso(A, B)
        assert all(0 <= i < n for k in Q for i in k)
        energies = {}
        for bits, dec in decoded.items():
            e = qubo_value(list(bits), Q)
            assert e == quso_value(boolean_to_spin(list(bits)), L)
            energies[bits] = e
            uncovered = sum(
                1 for f in undirected if not (f & dec)
            )
            # cost of the chosen vertices plus a penalty that vanishes on
            # covers and is at least A per uncovered edge of the graph
            pen = e - B * len(dec)
            assert pen == 0 if uncovered == 0 else pen >= A * uncovered
        ground = min(energies.values())
        assert ground == B * opt
        for bits, e in energies.items():
            if e == ground:
                assert is_cover(edges, decoded[bits])
                assert len(decoded[bits]) == opt
        if n:
            assert solve_qubo_bruteforce(Q)[0] == ground
            assert solve_quso_bruteforce(L)[0] == ground

    assert edges == before  # the input is not modified
    return p


count = 0
while count < 60:
    nv = rng.randint(2, 5)
    vs = rng.sample(pool, nv)
    edges = set()
    for _ in range(rng.randint(1, 6)):
        u, v = rng.choice(vs), rng.choice(vs)
        if u == v and rng.random() < .7:
            continue
        edges.add((u, v))
        if rng.random() < .35:
            edges.add((v, u))  # the same edge in the other orientation
    if not edges:
        continue
    check_instance(edges)
    count += 1

new = dict(VertexCover({(0, 1), (1, 0)}).to_qubo())
old = {(0,): -3, (1,): -3, (0, 1): 4, (): 4}
if new != old:
    print("OBSERVABLE: VertexCover({(0, 1), (1, 0)}).to_qubo() was %r, is %r"
          % (old, new))
print("ok: %d graphs checked" % count)
