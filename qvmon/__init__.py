"""qvmon -- runtime monitors for jtiosue/qubovert (see ../DESIGN.md)."""
