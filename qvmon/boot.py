"""Select the repository under test, (re)build the C extension from its working
tree and inject it, switch the guarded hooks on.  See DESIGN.md section 1.1."""
import importlib.machinery
import importlib.util
import os
import shutil
import subprocess
import sys
import sysconfig

GUARD = "JTIOSUE_QUBOVERT_VERIF"
EXT_NAME = "qubovert.sim._canneal"
SOURCES = ["qubovert/sim/_canneal.c", "qubovert/sim/src/pcg_basic.c",
           "qubovert/sim/src/random.c", "qubovert/sim/src/anneal_quso.c",
           "qubovert/sim/src/anneal_puso.c"]
FLAVOURS = {
    "plain": ["-O2"],
    "hook": ["-O1", "-g", "-D%s=1" % GUARD],
    "asan": ["-O1", "-g", "-fno-omit-frame-pointer",
             "-fsanitize=address,undefined", "-fsanitize-recover=all", "-D%s=1" % GUARD],
    "asan-gate": ["-O1", "-g", "-fno-omit-frame-pointer",
                  "-fsanitize=address,undefined", "-fno-sanitize-recover=all",
                  "-D%s=1" % GUARD],
}


class Inconclusive(Exception):
    pass


def repo_root():
    return os.path.realpath(os.environ.get("QV_REPO", "/repo"))


def asan_runtime():
    out = subprocess.run(["clang", "-print-file-name=libclang_rt.asan-x86_64.so"],
                         capture_output=True, text=True).stdout.strip()
    if not os.path.isfile(out):
        raise Inconclusive("ASan runtime not found: %r" % out)
    return out


def build_ext(flavour, outdir, root=None):
    """Compile the extension of the working tree with clang; returns the .so path."""
    root = root or repo_root()
    inc = sysconfig.get_paths()["include"]
    so = os.path.join(outdir, "_canneal_%s%s" % (
        flavour.replace("-", "_"), sysconfig.get_config_var("EXT_SUFFIX")))
    cmd = ["clang", "-shared", "-fPIC", "-Wno-everything", "-I", inc,
           "-I", os.path.join(root, "qubovert/sim/src")] + FLAVOURS[flavour] + \
          [os.path.join(root, s) for s in SOURCES] + ["-lm", "-o", so]
    p = subprocess.run(cmd, capture_output=True, text=True)
    if p.returncode != 0 or not os.path.isfile(so):
        raise Inconclusive("extension build failed (%s): %s" % (flavour, p.stderr[-2000:]))
    return so


def inject(so_path):
    loader = importlib.machinery.ExtensionFileLoader(EXT_NAME, so_path)
    spec = importlib.util.spec_from_file_location(EXT_NAME, so_path, loader=loader)
    mod = importlib.util.module_from_spec(spec)
    loader.exec_module(mod)
    sys.modules[EXT_NAME] = mod
    return mod


def boot(ext_path=None):
    """Import qubovert from QV_REPO with the guard on; returns the package."""
    os.environ[GUARD] = "1"
    root = repo_root()
    if sys.path[0] != root:
        sys.path.insert(0, root)
    ext_path = ext_path or os.environ.get("QV_EXT_PATH")
    if ext_path:
        inject(ext_path)
    import qubovert
    f = os.path.realpath(qubovert.__file__)
    if not f.startswith(root + os.sep):
        raise Inconclusive("qubovert imported from %s, not from %s" % (f, root))
    if ext_path:
        from qubovert.sim import _anneal
        m = sys.modules[EXT_NAME]
        if _anneal.c_anneal_quso is not m.c_anneal_quso:
            raise Inconclusive("injected extension is not the one bound by qubovert.sim._anneal")
    return qubovert


def child_env(flavour=None, ext_path=None, extra=None):
    env = dict(os.environ)
    env["PYTHONHASHSEED"] = "0"
    env[GUARD] = "1"
    env["PYTHONPATH"] = os.path.dirname(os.path.dirname(os.path.abspath(__file__)))
    env.pop("PYTHONSTARTUP", None)
    if ext_path:
        env["QV_EXT_PATH"] = ext_path
    if flavour and flavour.startswith("asan"):
        env["LD_PRELOAD"] = asan_runtime()
        env["PYTHONMALLOC"] = "malloc"
    if extra:
        env.update(extra)
    return env
