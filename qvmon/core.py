"""Shard context, case loop, JSON helpers.  A property module provides

    ID, RULE, TIERS = {'quick': {'shards': s, 'cases': n}, 'thorough': {...}}
    FLOORS  (dict category -> minimum count, or callable(tier) -> dict)
    EXT     (None | 'plain' | 'hook' | 'asan')   extension flavour injected
    setup(ctx)              optional, once per shard after boot
    case(ctx, rng, idx)     one generated case; reports through ctx
    finish(ctx)             optional
"""
import collections
import hashlib
import json
import os
import random
import time
import traceback
from fractions import Fraction


class Expected(Exception):
    """raised by oracles to abandon a case that is outside the property's scope"""


def jsonable(o, depth=0):
    if depth > 12:
        return repr(o)
    if o is None or isinstance(o, (bool, int, str)):
        return o
    if isinstance(o, float):
        return o if o == o and abs(o) != float("inf") else repr(o)
    if isinstance(o, Fraction):
        return int(o) if o.denominator == 1 else float(o)
    if isinstance(o, dict):
        return {(k if isinstance(k, str) else repr(k)): jsonable(v, depth + 1) for k, v in o.items()}
    if isinstance(o, (list, tuple, set, frozenset)):
        seq = list(o)
        if isinstance(o, (set, frozenset)):
            seq = sorted(seq, key=repr)
        return [jsonable(v, depth + 1) for v in seq]
    try:
        import numpy as np
        if isinstance(o, np.generic):
            return jsonable(o.item(), depth + 1)
        if isinstance(o, np.ndarray):
            return jsonable(o.tolist(), depth + 1)
    except Exception:
        pass
    return repr(o)


def digest(o):
    return hashlib.blake2b(repr(o).encode(), digest_size=8).hexdigest()


class Ctx:
    def __init__(self, prop, tier, seed, shard, nshards):
        self.prop, self.tier, self.seed = prop, tier, seed
        self.shard, self.nshards = shard, nshards
        self.cats = collections.Counter()        # branch / class histogram
        self.mon = collections.Counter()         # monitor evaluation counters
        self.exc = collections.Counter()         # exceptions seen (by type@where)
        self.violations = []
        self.digests = set()
        self.samples = []
        self.notes = {}
        self.harness_errors = []
        self.evaluations = 0
        self.idx = None
        self.max_violations = 40
        self.extra = {}

    # -- reporting ------------------------------------------------------------
    def cat(self, name, n=1):
        self.cats[name] += n

    def count(self, name, n=1):
        self.mon[name] += n

    def nontrivial(self, obj):
        self.digests.add(digest(obj))

    def sample(self, obj, limit=4):
        if len(self.samples) < limit:
            self.samples.append(jsonable(obj))

    def violation(self, tag, what, witness=None):
        """tag: mechanism tag (never contains random values); what: one line."""
        if len(self.violations) < self.max_violations:
            self.violations.append({
                "property": self.prop, "tag": tag, "what": what,
                "seed": self.seed, "tier": self.tier, "shard": self.shard,
                "nshards": self.nshards, "idx": self.idx,
                "witness": jsonable(witness)})
        self.cats["violation:" + tag] += 1

    def call(self, where, fn, *a, expect=(), _w=None, **kw):
        """Call library code.  An exception in `expect` is counted and returned;
        any other exception is a violation 'exception:<Type>@<where>' with
        witness `_w`.  Returns (ok, result_or_exception)."""
        try:
            return True, fn(*a, **kw)
        except expect as e:
            self.exc["expected:%s@%s" % (type(e).__name__, where)] += 1
            return False, e
        except Exception as e:   # noqa
            self.exc["%s@%s" % (type(e).__name__, where)] += 1
            self.violation("exception:%s@%s" % (type(e).__name__, where),
                           "%s raised %r" % (where, e),
                           {"case": _w, "trace": traceback.format_exc()[-1500:]})
            return False, e

    def result(self):
        return {
            "prop": self.prop, "tier": self.tier, "seed": self.seed, "shard": self.shard,
            "evaluations": self.evaluations,
            "cats": dict(self.cats), "mon": dict(self.mon), "exc": dict(self.exc),
            "violations": self.violations, "digests": sorted(self.digests),
            "samples": self.samples, "harness_errors": self.harness_errors[:5],
            "notes": jsonable(self.notes), "extra": jsonable(self.extra),
        }


def case_rng(seed, prop, shard, idx):
    return random.Random("%s:%s:%s:%s" % (seed, prop, shard, idx))


class LineCov:
    """sys.monitoring LINE events (DISABLE after the first hit, so the cost is one callback per line) for code under
    <repo>/qubovert: which anchored lines did this shard's workload execute at all?  Informational evidence."""

    def __init__(self, root):
        import sys
        self.root = os.path.join(root, "qubovert") + os.sep
        self.hit = set()
        self.mon = sys.monitoring
        self.tool = self.mon.COVERAGE_ID
        self.mon.use_tool_id(self.tool, "qvmon-linecov")
        self.mon.register_callback(self.tool, self.mon.events.LINE, self._line)
        self.mon.set_events(self.tool, self.mon.events.LINE)

    def _line(self, code, line):
        f = code.co_filename
        if f.startswith(self.root):
            self.hit.add((f[len(self.root):], line))
        return self.mon.DISABLE

    def stop(self):
        self.mon.set_events(self.tool, 0)
        self.mon.free_tool_id(self.tool)
        out = {}
        for f, l in self.hit:
            out.setdefault(f, []).append(l)
        return {f: sorted(v) for f, v in out.items()}


def run_shard(mod, tier, seed, shard, nshards, cases, only=None, budget_s=None):
    ctx = Ctx(mod.ID, tier, seed, shard, nshards)
    t0 = time.time()
    cov = None
    if os.environ.get("QV_LINECOV") == "1":
        from . import boot
        cov = LineCov(boot.repo_root())
    if hasattr(mod, "setup"):
        mod.setup(ctx)
    rng_range = [only] if only is not None else range(cases)
    progress = os.environ.get("QV_PROGRESS")
    pfd = os.open(progress, os.O_WRONLY | os.O_CREAT, 0o644) if progress else None
    for idx in rng_range:
        if pfd is not None:
            os.pwrite(pfd, b"%-12d" % idx, 0)
        if budget_s and time.time() - t0 > budget_s:
            ctx.notes["budget_stop_at"] = idx
            break
        ctx.idx = idx
        rng = case_rng(seed, mod.ID, shard, idx)
        try:
            mod.case(ctx, rng, idx)
        except Expected:
            ctx.cats["skipped:out-of-scope"] += 1
        except Exception:   # noqa -- a bug in the harness, never a verdict
            ctx.harness_errors.append({"idx": idx, "trace": traceback.format_exc()[-3000:]})
            if len(ctx.harness_errors) > 20:
                break
        ctx.evaluations += 1
        if len(ctx.violations) >= ctx.max_violations:
            break
    ctx.idx = None
    if hasattr(mod, "finish"):
        mod.finish(ctx)
    ctx.notes["wall_s"] = round(time.time() - t0, 2)
    res = ctx.result()
    if cov is not None:
        res["lines"] = cov.stop()
    return res


def scribble(obj):
    """edit a returned object the way a caller might (it owns what it got back)"""
    try:
        if isinstance(obj, dict):
            for k in list(obj)[:1]:
                obj[k] = obj[k] * 3 if not isinstance(obj[k], (dict, list, set)) else obj[k]
            obj[("__scribble__",)] = 41
        elif isinstance(obj, list):
            obj.append("__scribble__")
        elif isinstance(obj, set):
            obj.add("__scribble__")
    except Exception:   # noqa
        pass
