/* libFuzzer + ASan + UBSan harness for the C annealing kernels of jtiosue/qubovert (property C17, thorough tier).
 *
 * The decoder turns fuzz bytes into a call that satisfies the kernels' precondition (exactly what
 * qubovert/sim/_anneal.py hands over: indices in [0, N), distinct spins per term, symmetric neighbour
 * lists, num_anneals >= 1), so every report is a defect of the kernel, not of the harness.  The kernels
 * are compiled with -DJTIOSUE_QUBOVERT_VERIF=1, so the H2 in-kernel invariants (dE used == E(after) -
 * E(before), cache == recomputation, index bounds) are evaluated too; after each call the harness checks
 * the result itself: spins in {+1,-1}, reported value == energy recomputed here, zero-temperature runs
 * from a given state never raise the energy, identical seeded calls give identical results.
 */
#include <stdint.h>
#include <stddef.h>
#include <stdlib.h>
#include <string.h>
#include <stdio.h>
#include <math.h>
#include "anneal_quso.h"
#include "anneal_puso.h"

extern long qvverif_checks, qvverif_mismatches, qvverif_bounds;

typedef struct { const uint8_t *p; size_t n; } In;
static unsigned take(In *in, unsigned mod) {
    if(!in->n) return 0;
    unsigned v = *in->p++; in->n--;
    return mod ? v % mod : v;
}
static const double TEMPS[] = {0., 0., 1e-300, 1e-3, 0.3, 1., 2.5, 40., 1e300, 5e-324};
static const double COEFS[] = {-4., -2., -1., -0.5, 0.25, 0.5, 1., 1.5, 3., 8., 1e-6, 1e6};
#define FAIL(msg) do { fprintf(stderr, "QVFUZZ oracle failure: %s\n", msg); abort(); } while(0)

static double puso_energy(int *s, long nt, int *nc, int *terms, double *c) {
    double e = 0; long idx = 0;
    for(long t=0; t<nt; t++) { int pr = 1; for(int k=0; k<nc[t]; k++) pr *= s[terms[idx++]]; e += c[t] * pr; }
    return e;
}

static void fuzz_puso(In *in) {
    int N = 1 + take(in, 10);
    long nt = take(in, 9);                       /* 0 terms allowed: a model whose terms all cancelled */
    int nc[8]; int terms[8 * 6]; double c[8]; long len = 0;
    for(long t=0; t<nt; t++) {
        int deg = 1 + take(in, N < 6 ? N : 6);
        int used[10] = {0}; int d = 0;
        for(int k=0; k<deg; k++) { int v = take(in, N); if(!used[v]) { used[v] = 1; d++; } }
        nc[t] = d;
        for(int v=0; v<N; v++) if(used[v]) terms[len++] = v;      /* sorted, distinct: a squashed key */
        c[t] = COEFS[take(in, 12)];
    }
    int lenTs = take(in, 6); double Ts[6]; int allzero = 1;
    for(int i=0; i<lenTs; i++) { Ts[i] = TEMPS[take(in, 10)]; if(Ts[i] != 0.) allzero = 0; }
    int na = 1 + take(in, 3), in_order = take(in, 2), init = take(in, 2);
    int seed = take(in, 16) == 0 ? -1 : (int)take(in, 0) * 7919;
    int *states = (int*)malloc(sizeof(int) * na * N); double *values = (double*)malloc(sizeof(double) * na);
    int first[10]; double e0 = 0;
    if(init) {
        for(int j=0; j<N; j++) first[j] = take(in, 2) ? 1 : -1;
        for(int a=0; a<na; a++) for(int j=0; j<N; j++) states[a * N + j] = first[j];
        e0 = puso_energy(first, nt, nc, terms, c);
    }
    anneal_puso(na, states, values, N, nt, nc, terms, c, lenTs, Ts, in_order, init, seed);
    if(init && allzero && in_order) {      /* every anneal must equal the label-order zero-temperature sweep from `first` */
        int ref[10]; int tie = 0; memcpy(ref, first, sizeof(int) * N);
        for(int t=0; t<lenTs; t++) for(int i=0; i<N; i++) {
            double before = puso_energy(ref, nt, nc, terms, c); ref[i] = -ref[i];
            double dE = puso_energy(ref, nt, nc, terms, c) - before;
            if(fabs(dE) < 1e-9 * (1. + fabs(before))) tie = 1;
            if(!(dE < 0)) ref[i] = -ref[i];
        }
        if(!tie) for(int a=0; a<na; a++) if(memcmp(ref, states + a * N, sizeof(int) * N)) FAIL("puso zero-temperature in-order result differs from the reference sweep");
    }
    for(int a=0; a<na; a++) {
        for(int j=0; j<N; j++) if(states[a * N + j] != 1 && states[a * N + j] != -1) FAIL("puso spin not +-1");
        double e = puso_energy(states + a * N, nt, nc, terms, c);
        if(fabs(e - values[a]) > 1e-9 * (1. + fabs(e))) FAIL("puso value != energy of returned state");
        if(init && allzero && e > e0 + 1e-9 * (1. + fabs(e0))) FAIL("puso zero-temperature run raised the energy");
    }
    if(seed >= 0) {       /* determinism: the same seeded call again */
        int *s2 = (int*)malloc(sizeof(int) * na * N); double *v2 = (double*)malloc(sizeof(double) * na);
        if(init) for(int a=0; a<na; a++) for(int j=0; j<N; j++) s2[a * N + j] = first[j];
        anneal_puso(na, s2, v2, N, nt, nc, terms, c, lenTs, Ts, in_order, init, seed);
        if(memcmp(states, s2, sizeof(int) * na * N)) FAIL("puso seeded call not reproducible");
        free(s2); free(v2);
    }
    free(states); free(values);
}

static void fuzz_quso(In *in) {
    int N = 1 + take(in, 10);
    double h[10]; double Jm[10][10]; int has[10][10];
    memset(has, 0, sizeof(has));
    for(int i=0; i<N; i++) h[i] = take(in, 3) ? COEFS[take(in, 12)] : 0.;
    int npairs = take(in, 14);
    /* neighbour lists in the order the couplings arrive (as _anneal.py builds them from the model's term order) */
    int nb[10][10]; double nj[10][10]; int cnt[10] = {0};
    for(int k=0; k<npairs; k++) {
        int i = take(in, N), j = take(in, N);
        if(i == j || has[i][j]) continue;
        double v = COEFS[take(in, 12)];
        has[i][j] = has[j][i] = 1; Jm[i][j] = Jm[j][i] = v;
        nb[i][cnt[i]] = j; nj[i][cnt[i]++] = v;
        nb[j][cnt[j]] = i; nj[j][cnt[j]++] = v;
    }
    int num_neighbors[10], neighbors[100]; double J[100]; int len = 0;
    for(int i=0; i<N; i++) { num_neighbors[i] = cnt[i];
        for(int k=0; k<cnt[i]; k++) { neighbors[len] = nb[i][k]; J[len] = nj[i][k]; len++; } }
    int lenTs = take(in, 6); double Ts[6]; int allzero = 1;
    for(int i=0; i<lenTs; i++) { Ts[i] = TEMPS[take(in, 10)]; if(Ts[i] != 0.) allzero = 0; }
    int na = 1 + take(in, 3), in_order = take(in, 2), init = take(in, 2);
    int seed = take(in, 16) == 0 ? -1 : (int)take(in, 0) * 7919;
    int *states = (int*)malloc(sizeof(int) * na * N); double *values = (double*)malloc(sizeof(double) * na);
    int first[10]; double e0 = 0;
#define QENERGY(s, out) do { double e_ = 0; for(int i_=0; i_<N; i_++) { e_ += h[i_] * (s)[i_]; \
        for(int j_=i_+1; j_<N; j_++) if(has[i_][j_]) e_ += Jm[i_][j_] * (s)[i_] * (s)[j_]; } out = e_; } while(0)
    if(init) {
        for(int j=0; j<N; j++) first[j] = take(in, 2) ? 1 : -1;
        for(int a=0; a<na; a++) for(int j=0; j<N; j++) states[a * N + j] = first[j];
        QENERGY(first, e0);
    }
    anneal_quso(na, states, values, N, h, num_neighbors, neighbors, J, lenTs, Ts, in_order, init, seed);
    if(init && allzero && in_order) {
        int ref[10]; int tie = 0; memcpy(ref, first, sizeof(int) * N);
        for(int t=0; t<lenTs; t++) for(int i=0; i<N; i++) {
            double before, after; QENERGY(ref, before); ref[i] = -ref[i]; QENERGY(ref, after);
            double dE = after - before;
            if(fabs(dE) < 1e-9 * (1. + fabs(before))) tie = 1;
            if(!(dE < 0)) ref[i] = -ref[i];
        }
        if(!tie) for(int a=0; a<na; a++) if(memcmp(ref, states + a * N, sizeof(int) * N)) FAIL("quso zero-temperature in-order result differs from the reference sweep");
    }
    for(int a=0; a<na; a++) {
        for(int j=0; j<N; j++) if(states[a * N + j] != 1 && states[a * N + j] != -1) FAIL("quso spin not +-1");
        double e; QENERGY(states + a * N, e);
        if(fabs(e - values[a]) > 1e-9 * (1. + fabs(e))) FAIL("quso value != energy of returned state");
        if(init && allzero && e > e0 + 1e-9 * (1. + fabs(e0))) FAIL("quso zero-temperature run raised the energy");
    }
    if(seed >= 0) {
        int *s2 = (int*)malloc(sizeof(int) * na * N); double *v2 = (double*)malloc(sizeof(double) * na);
        if(init) for(int a=0; a<na; a++) for(int j=0; j<N; j++) s2[a * N + j] = first[j];
        anneal_quso(na, s2, v2, N, h, num_neighbors, neighbors, J, lenTs, Ts, in_order, init, seed);
        if(memcmp(states, s2, sizeof(int) * na * N)) FAIL("quso seeded call not reproducible");
        free(s2); free(v2);
    }
    free(states); free(values);
}

int LLVMFuzzerTestOneInput(const uint8_t *data, size_t size) {
    In in = {data, size};
    if(take(&in, 2)) fuzz_puso(&in); else fuzz_quso(&in);
    if(qvverif_mismatches) FAIL("H2 hook: dE used != E(after) - E(before) / stale cache");
    if(qvverif_bounds) FAIL("H2 hook: index outside [0, len_state)");
    return 0;
}
