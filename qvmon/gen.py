"""Seeded generators shared by the property modules (DESIGN.md 1.4 / 3)."""
from . import lib as L

DYADIC = [-4, -3, -2, -1, -0.5, 0.5, 1, 1.5, 2, 3, 5, 0.25, -0.75, 8]
INTS = [-3, -2, -1, 1, 2, 3]

LABEL_POOLS = [
    [0, 1, 2, 3, 4, 5],
    ["a", "b", "c", "d", "e", "f"],
    [0, "x", (1, 2), -1, "y", (0, "q")],
    [-5, 0, "a", 2.5, None, ("t", 1)],
    ["x0", "x1", "x2", "x3", "x4", "x5"],
    [3, 7, 1, 0, 12, 5],
    [-1, -2, "a", -3, 1, "b"],                 # hash(-1) == hash(-2) in CPython: distinct labels with equal hashes
    [1000, 257, ("v", 7), "lab", 300.5, 2],    # labels that are not interned singletons: equal objects need not be identical
    [2.0, 5.0, 1.0, "x", 3.0, 0.0],            # float labels equal to ints other models of the same process use (2.0 == 2)
    [True, "p", False, 7, (0, 1), "q"],        # bool labels are labels (variables named True / False), never constants; no 0/1 beside them
]
MATRIX_POOLS = [[0, 1, 2, 3, 4, 5], [0, 2, 3, 6, 7, 9], [1, 4, 5, 8, 2, 11]]


def labels(rng, n, matrix=False):
    pool = list(rng.choice(MATRIX_POOLS if matrix else LABEL_POOLS))
    rng.shuffle(pool)
    return pool[:n]


def fresh(l):
    """an equal label that is (where CPython allows) a different object: callers build labels at run time"""
    if isinstance(l, tuple) and l:
        return tuple(list(l))
    if isinstance(l, str) and len(l) > 1:
        return "".join(list(l))
    if isinstance(l, bool) or l is None:
        return l
    if isinstance(l, int) and not -6 < l < 257:
        return int(str(l))
    if isinstance(l, float):
        return float(repr(l))
    return l


def rand_key(rng, labs, maxdeg, raw=False):
    """raw: may repeat labels and is unsorted"""
    d = rng.randint(0, maxdeg)
    if raw:
        k = tuple(rng.choice(labs) for _ in range(d))
    else:
        d = min(d, len(labs))
        k = tuple(rng.sample(labs, d))
    if rng.random() < 0.3:
        k = tuple(fresh(x) for x in k)
    return k


def rand_terms(rng, labs, maxdeg, nterms=None, coefs=None, raw=False, lo=0, hi=6):
    """dict of raw terms (values accumulated; zeros removed)"""
    coefs = coefs or DYADIC
    out = {}
    for _ in range(nterms if nterms is not None else rng.randint(lo, hi)):
        k = rand_key(rng, labs, maxdeg, raw)
        out[k] = out.get(k, 0) + rng.choice(coefs)
        if not out[k]:
            del out[k]
    return out


_MODEL_OF = {"calls": 0, "named": 0}


def model_of(T, terms):
    """Build a library model of type T from raw terms via item += (the documented way).  About every sixth model that has a linear
    term is grown out of a variable object instead (T.create_var(x): a one-term model that carries its name; in-place edits
    keep the name): x = create_var(x0); x *= c0; then the other terms are added in place.  Same function, same type -- only
    the object's history (and its `name`) differ, which no property lets matter."""
    _MODEL_OF["calls"] += 1
    import zlib
    if zlib.crc32(repr(list(terms.items())).encode()) % 6 == 0:      # (decided by the content alone: a case replays identically)
        k0 = next((k for k, v in terms.items() if len(k) == 1 and v), None)
        if k0 is not None:
            try:
                m = T.create_var(k0[0])
                m *= terms[k0]
                for k, v in terms.items():
                    if k is not k0:
                        m[k] += v
                _MODEL_OF["named"] += 1
                return m
            except Exception:   # noqa -- (a coefficient type the product does not take: build it the plain way)
                pass
    m = T()
    for k, v in terms.items():
        m[k] += v
    return m


def rand_model(rng, T, n=None, maxdeg=None, coefs=None, raw=False, lo=0, hi=6):
    mat = L.is_matrix(T)
    n = n or rng.randint(1, 5)
    labs = labels(rng, n, matrix=mat)
    if maxdeg is None:
        maxdeg = 2 if L.is_deg2(T) else rng.choice([2, 3, 4])
    if L.is_deg2(T):
        maxdeg = min(maxdeg, 2)
    terms = rand_terms(rng, labs, maxdeg, coefs=coefs, raw=raw, lo=lo, hi=hi)
    if L.is_deg2(T) and raw:
        # repeated labels keep degree <= 2 after squashing, so raw keys are fine
        pass
    return model_of(T, terms), labs, terms


def sort_labels(labs):
    return sorted(labs, key=lambda x: (str(type(x)), x if not isinstance(x, tuple) else repr(x)))


def fresh_like(l0, i):
    """a label that does not occur in any pool and can be ordered against l0 (labels of one key must be mutually orderable)"""
    if isinstance(l0, str):
        return "nv%d" % i
    if isinstance(l0, tuple):
        return tuple((1000 + i) if isinstance(x, (int, float)) and not isinstance(x, bool) else ("nv%d" % i if isinstance(x, str) else x) for x in l0)
    if isinstance(l0, float):
        return 1000.5 + i
    return 1000 + i
