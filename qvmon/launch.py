"""Launcher: ./check <ID> [--tier quick|thorough] [--replay PATH] | --selftest

exit 0  held on everything explored and every deciding monitor reached its floor
exit 1  violation not listed in known_findings.json (VIOLATION line printed)
exit 2  inconclusive (INCONCLUSIVE line printed) -- never folded into 0 or 1
"""
import argparse
import collections
import importlib
import json
import os
import shutil
import subprocess
import sys
import tempfile
import time

from . import boot

HERE = os.path.dirname(os.path.dirname(os.path.abspath(__file__)))
OUT = os.environ.get("QV_OUT") or HERE      # evidence/ and replays/ go here (mutant runs use a scratch dir)
PY = sys.executable
ALL = ["C%02d" % i for i in range(1, 20)]


def load_known():
    p = os.path.join(HERE, "known_findings.json")
    if not os.path.isfile(p):
        return []
    with open(p) as f:
        return json.load(f).get("findings", [])


def spawn_shards(mod, tier, seed, nshards, cases, tmp, ext_path, flavour,
                 only=None, only_shard=None, budget=None, timeout=3600):
    procs = []
    shards = [only_shard] if only_shard is not None else list(range(nshards))
    maxpar = int(os.environ.get("QV_JOBS", "16"))
    results, pending = {}, list(shards)
    running = {}
    t_end = time.time() + timeout
    while pending or running:
        while pending and len(running) < maxpar:
            s = pending.pop(0)
            out = os.path.join(tmp, "shard%d.json" % s)
            extra = {}
            if hasattr(mod, "shard_env"):
                extra = mod.shard_env(tier, s, tmp) or {}
            if s == 0 and os.environ.get("QV_NO_LINECOV") != "1":
                extra = dict(extra, QV_LINECOV="1")
            env = boot.child_env(flavour, ext_path, extra)
            cmd = [PY, "-m", "qvmon.worker", "--prop", mod.ID, "--tier", tier,
                   "--seed", str(seed), "--shard", str(s), "--nshards", str(nshards),
                   "--cases", str(cases), "--out", out]
            if only is not None:
                cmd += ["--only", str(only)]
            if budget:
                cmd += ["--budget", str(budget)]
            log = open(os.path.join(tmp, "shard%d.log" % s), "w")
            p = subprocess.Popen(cmd, cwd=HERE, env=env, stdout=log, stderr=subprocess.STDOUT)
            running[s] = (p, out, log)
        time.sleep(0.05)
        for s in list(running):
            p, out, log = running[s]
            rc = p.poll()
            if rc is None:
                if time.time() > t_end:
                    p.kill()
                    p.wait()
                    rc = "timeout"
                else:
                    continue
            log.close()
            del running[s]
            r = None
            if os.path.isfile(out):
                with open(out) as f:
                    r = json.load(f)
            with open(os.path.join(tmp, "shard%d.log" % s), errors="replace") as f:
                logtxt = f.read()
            results[s] = {"rc": rc, "res": r, "log": logtxt[-6000:]}
    return results


def run_check(pid, tier, seed, replay=None):
    t0 = time.time()
    mod = importlib.import_module("qvmon.props." + pid.lower())
    conf = dict(mod.TIERS[tier])
    flavour = getattr(mod, "EXT", None) or "plain"
    tmp = tempfile.mkdtemp(prefix="qvmon-%s-" % pid)
    lines = []
    try:
        try:
            ext_path = boot.build_ext(flavour, tmp)
        except boot.Inconclusive as e:
            print("INCONCLUSIVE property=%s reason=%s" % (pid, str(e).replace("\n", " ")[:400]))
            return 2
        if hasattr(mod, "custom_run"):
            return mod.custom_run(dict(tier=tier, seed=seed, tmp=tmp, ext_path=ext_path,
                                       replay=replay, conf=conf, here=HERE, t0=t0))
        only = only_shard = None
        nshards, cases = conf["shards"], conf["cases"]
        if replay:
            with open(replay) as f:
                rp = json.load(f)
            seed, tier = rp["seed"], rp["tier"]
            conf = dict(mod.TIERS[tier])
            nshards, cases = rp.get("nshards", conf["shards"]), conf["cases"]
            only, only_shard = rp["idx"], rp["shard"]
        results = spawn_shards(mod, tier, seed, nshards, cases, tmp, ext_path, flavour,
                               only=only, only_shard=only_shard,
                               budget=conf.get("budget"), timeout=conf.get("timeout", 3600))
        sv, sc, si = [], None, []
        if tier == "thorough" and not replay and pid in SUITE_PROPS:
            sv, sc, si = suite_run(pid, seed, tmp, ext_path, flavour)
        return conclude(mod, tier, seed, results, t0, replay=replay, tmp=tmp, extra_violations=sv, extra_cov=sc,
                        extra_inconclusive=si)
    finally:
        shutil.rmtree(tmp, ignore_errors=True)


SUITE_PROPS = ["C04", "C05", "C09", "C11", "C13", "C14", "C15", "C19"]


def suite_run(pid, seed, tmp, ext_path, flavour):
    """Run the repository's own tests with the monitors of qvmon.suite_plugin attached; returns
    (violations for pid, coverage dict, inconclusive reasons)."""
    import glob
    import re
    out = os.path.join(tmp, "suite")
    env = boot.child_env(flavour, ext_path, {"QV_SUITE_OUT": out, "VERIF_SEED": str(seed)})
    root = boot.repo_root()
    env["PYTHONPATH"] = root + os.pathsep + HERE
    cmd = [PY, "-m", "pytest", "-q", "-p", "no:cacheprovider", "-p", "qvmon.suite_plugin", "-n", os.environ.get("QV_JOBS", "16"),
           "--timeout=900", "--deselect", "tests/utils/test_subgraph.py::test_subgraph",
           "--deselect", "tests/utils/test_subgraph.py::test_subvalue"]
    p = subprocess.run(cmd, cwd=root, env=env, capture_output=True, text=True, timeout=3600)
    tail = (p.stdout.strip().splitlines() or [""])[-1]
    m = re.search(r"(\d+) passed", tail)
    passed = int(m.group(1)) if m else 0
    failed = int(re.search(r"(\d+) failed", tail).group(1)) if re.search(r"(\d+) failed", tail) else 0
    viol, cov, inc = [], {"suite_tests_passed": passed, "suite_tests_failed": failed}, []
    mon, exc = collections.Counter(), collections.Counter()
    files = glob.glob(out + ".*.json")
    for f in files:
        with open(f) as fh:
            r = json.load(fh).get(pid)
        if not r:
            continue
        mon.update(r["mon"])
        exc.update(r["exc"])
        viol.extend(r["violations"])
    cov["suite_monitor_evaluations"] = dict(mon)
    cov["suite_contracts_skipped"] = dict(exc)
    if failed or passed < 390:
        inc.append("repository tests under monitors: %s | %s" % (tail, p.stdout[-1500:].replace("\n", " | ")))
    if not files or not sum(mon.values()):
        inc.append("suite monitors for %s observed nothing (files=%d)" % (pid, len(files)))
    return viol, cov, inc


def executable_lines(path):
    """line numbers that start an instruction somewhere in the file (docstrings and blank lines excluded)"""
    import types
    try:
        with open(path) as f:
            code = compile(f.read(), path, "exec")
    except (OSError, SyntaxError):
        return set()
    out, todo = set(), [(code, False)]
    while todo:
        c, is_func = todo.pop()
        if is_func:      # module and class bodies run at import time, before monitoring starts: functions only
            for _, _, ln in c.co_lines():
                if ln is not None and ln != c.co_firstlineno:
                    out.add(ln)
        for k in c.co_consts:
            if isinstance(k, types.CodeType):
                # a class body code object has the class name and builds __qualname__; treat only real functions as such
                todo.append((k, "__qualname__" not in k.co_names or k.co_name.startswith("<")))
    return out


def anchored_line_coverage(pid, results):
    """which executable lines of the property's anchored Python files did shard 0 execute (informational)"""
    lines = None
    for s, r in results.items():
        if r.get("res") and r["res"].get("lines") is not None:
            lines = r["res"]["lines"]
    if lines is None:
        return None
    anchors = []
    with open(os.path.join(HERE, "properties.jsonl")) as f:
        for l in f:
            p = json.loads(l)
            if p["id"] == pid:
                anchors = [a for a in p["anchors"]["files"] if a.endswith(".py")]
    out = {}
    root = boot.repo_root()
    for a in anchors:
        rel = a[len("qubovert/"):] if a.startswith("qubovert/") else a
        ex = executable_lines(os.path.join(root, a))
        hit = set(lines.get(rel, []))
        # module-level statements ran at import, before monitoring started: count only lines inside functions as missed
        missed = sorted(x for x in ex - hit)
        out[a] = {"executable": len(ex), "executed": len(ex & hit), "never_executed": missed[:60]}
    return out


def conclude(mod, tier, seed, results, t0, replay=None, tmp=None, extra_cov=None,
             extra_violations=None, extra_inconclusive=None):
    pid = mod.ID
    known = [k for k in load_known() if k.get("property") == pid and k.get("status") == "known"]
    known_tags = {k["tag"]: k for k in known}
    cats, mon, exc = collections.Counter(), collections.Counter(), collections.Counter()
    digests, samples, violations, inconclusive = set(), [], list(extra_violations or []), list(extra_inconclusive or [])
    evaluations = 0
    notes = {}
    crash_is_violation = getattr(mod, "CRASH_IS_VIOLATION", False)
    for s, r in sorted(results.items()):
        res = r["res"]
        if res is None or r["rc"] != 0:
            msg = "shard %s ended rc=%s without result; log tail: %s" % (s, r["rc"], r["log"][-1500:].replace("\n", " | "))
            if crash_is_violation and r["rc"] != "timeout" and hasattr(mod, "crash_violation"):
                violations.append(mod.crash_violation(s, r, seed, tier))
            elif isinstance(r["rc"], int) and r["rc"] in (-4, -6, -7, -8, -11):
                # SIGILL / SIGABRT / SIGBUS / SIGFPE / SIGSEGV: the interpreter running the real code on generated (documented-valid)
                # input was killed by the code under test -- no result is a result.  (SIGKILL, e.g. the OOM killer, stays inconclusive.)
                violations.append({"property": pid, "tag": "interpreter-died:signal-%d" % -r["rc"],
                                   "what": "worker shard %s was killed by signal %d while running the workload; last output: %s" % (
                                       s, -r["rc"], r["log"][-400:].replace("\n", " | ")),
                                   "seed": seed, "tier": tier, "shard": s, "nshards": len(results), "idx": None,
                                   "witness": {"log_tail": r["log"][-3000:]}})
            else:
                inconclusive.append(msg)
            if res is None:
                continue
        if "inconclusive" in res:
            inconclusive.append(res["inconclusive"])
            continue
        evaluations += res["evaluations"]
        cats.update(res["cats"])
        mon.update(res["mon"])
        exc.update(res["exc"])
        digests.update(res["digests"])
        for x in res["samples"]:
            if len(samples) < 6:
                samples.append(x)
        violations.extend(res["violations"])
        for h in res["harness_errors"]:
            inconclusive.append("harness error in shard %s case %s: %s" % (s, h["idx"], h["trace"][-1200:].replace("\n", " | ")))
        if res.get("extra"):
            notes.setdefault("shard_extra", {})[str(s)] = res["extra"]
        if res.get("notes", {}).get("budget_stop_at") is not None:
            notes.setdefault("budget_stops", []).append([s, res["notes"]["budget_stop_at"]])
    # floors ---------------------------------------------------------------
    floors = getattr(mod, "FLOORS", {})
    if callable(floors):
        floors = floors(tier)
    fb = getattr(mod, "FLOOR_BASE", None)
    if fb and fb.get(tier):
        # 0.5: safety margin against seed-to-seed fluctuation of the counts (a floor guards against workloads that observed
        # next to nothing, not against a count that is 20% lower on another seed)
        scale = max(1.0, 0.8 * mod.TIERS[tier]["cases"] / float(fb[tier])) * 0.5
        fixedk = getattr(mod, "FLOOR_FIXED", set())
        floors = {k: (v if k in fixedk else int(v * scale)) for k, v in floors.items()}
    unmet = {}
    if not replay:
        for k, need in floors.items():
            have = cats.get(k, 0) + mon.get(k, 0)
            if have < need:
                unmet[k] = [have, need]
        if unmet:
            inconclusive.append("observation floors not met: %s" % json.dumps(unmet))
        margins = sorted(((cats.get(k, 0) + mon.get(k, 0)) / need, k) for k, need in floors.items() if need)
        if margins:
            notes["tightest_floors(have/need)"] = [[k, round(r, 2)] for r, k in margins[:3]]
    # violations vs known findings -----------------------------------------
    new, seen_known = [], collections.OrderedDict()
    os.makedirs(os.path.join(OUT, "replays"), exist_ok=True)
    if not replay:
        import glob
        for old in glob.glob(os.path.join(OUT, "replays", "%s-%s-s%s-*.json" % (pid, tier, seed))):
            os.remove(old)
    for v in violations:
        if v["tag"] in known_tags:
            seen_known.setdefault(v["tag"], v)
        else:
            new.append(v)
    for tag, v in seen_known.items():
        print("KNOWN-FINDING: property=%s %s [%s]" % (pid, known_tags[tag].get("what", v["what"]), tag))
    printed = set()
    for v in new:
        from .core import digest
        name = "%s-%s-s%s-sh%s-i%s-%s.json" % (pid, v["tier"], v["seed"], v["shard"], v["idx"], digest(v["tag"])[:6])
        path = os.path.join(OUT, "replays", name)
        if path not in printed:
            with open(path, "w") as f:
                json.dump(v, f, indent=1)
            if len(printed) < 25:
                print("VIOLATION property=%s replay=%s tag=%s :: %s" % (pid, path, v["tag"], v["what"][:300]))
            printed.add(path)
    # evidence -----------------------------------------------------------------
    if not replay:
        cov = {
            "evaluations": evaluations,
            "distinct_nontrivial": len(digests),
            "rule": mod.RULE,
            "samples": samples,
            "categories_observed": dict(sorted(cats.items())),
            "monitor_evaluations": dict(sorted(mon.items())),
            "exceptions_seen": dict(sorted(exc.items())),
            "floors": floors, "floors_unmet": unmet,
            "shards": len(results),
            "known_findings_seen": list(seen_known),
            "violation_tags": sorted({v["tag"] for v in new}),
            "inconclusive_reasons": [x[:500] for x in inconclusive[:5]],
            "verdict": "violated" if new else ("inconclusive" if inconclusive else "held-on-observed"),
        }
        cov.update(notes)
        if extra_cov:
            cov.update(extra_cov)
        lc = anchored_line_coverage(pid, results)
        if lc:
            cov["anchored_line_coverage_shard0"] = lc
        if hasattr(mod, "evidence_extra"):
            cov.update(mod.evidence_extra(cats, mon, results))
        ev = {
            "property_id": pid, "tier": tier, "seed": seed, "level": "exploration",
            "coverage": cov,
            "assumptions": list(getattr(mod, "ASSUMPTIONS", [])) + [
                "oracle = qvmon/ref.py exact multilinear polynomials / numpy truth tables (self-tested in setup)",
                "verdict covers only the executions listed here; inputs drawn by the seeded generators described in rule"],
            "wall_s": round(time.time() - t0, 2),
            "violations": len(new),
        }
        os.makedirs(os.path.join(OUT, "evidence"), exist_ok=True)
        with open(os.path.join(OUT, "evidence", pid + ".json"), "w") as f:
            json.dump(ev, f, indent=1, sort_keys=False)
    tops = ", ".join("%s=%d" % kv for kv in mon.most_common(5))
    if notes.get("tightest_floors(have/need)"):
        tops += "] tightest-floor[%s x%.2f" % tuple(notes["tightest_floors(have/need)"][0])
    print("%s tier=%s seed=%s evaluations=%d distinct_nontrivial=%d violations=%d known=%d wall=%.1fs monitors[%s]" % (
        pid, tier, seed, evaluations, len(digests), len(new), len(seen_known), time.time() - t0, tops))
    if new:
        return 1
    if inconclusive:
        for x in inconclusive[:5]:
            print("INCONCLUSIVE property=%s reason=%s" % (pid, x[:1500]))
        return 2
    return 0


def selftest():
    from . import ref
    t0 = time.time()
    n = ref.selftest()
    print("ref selftest: %d assignments compared" % n)
    tmp = tempfile.mkdtemp(prefix="qvmon-self-")
    try:
        so = boot.build_ext("plain", tmp)
        env = boot.child_env("plain", so)
        p = subprocess.run([PY, "-c", "from qvmon import boot; q=boot.boot(); from qubovert.sim import anneal_quso; "
                            "import warnings; warnings.simplefilter('ignore'); "
                            "r=anneal_quso({(0,1):1,(1,2):-1,(0,):.5}, num_anneals=2, seed=3); print('plain ext ok', len(r), q.__file__)"],
                           cwd=HERE, env=env, capture_output=True, text=True, timeout=300)
        print(p.stdout.strip(), p.stderr.strip()[-500:])
        if p.returncode != 0:
            return 2
        from . import sanit
        rc = sanit.canaries(tmp)
        if rc:
            return rc
    except boot.Inconclusive as e:
        print("INCONCLUSIVE selftest reason=%s" % e)
        return 2
    finally:
        shutil.rmtree(tmp, ignore_errors=True)
    print("selftest ok in %.1fs" % (time.time() - t0))
    return 0


def main(argv=None):
    ap = argparse.ArgumentParser(prog="check")
    ap.add_argument("prop", nargs="?")
    ap.add_argument("--tier", default=os.environ.get("VERIF_TIER", "quick"), choices=["quick", "thorough"])
    ap.add_argument("--seed", type=int, default=int(os.environ.get("VERIF_SEED", "0") or 0))
    ap.add_argument("--replay")
    ap.add_argument("--selftest", action="store_true")
    a = ap.parse_args(argv)
    os.chdir(HERE)
    if a.selftest:
        return selftest()
    if not a.prop:
        ap.error("property id required")
    return run_check(a.prop.upper(), a.tier, a.seed, a.replay)


if __name__ == "__main__":
    sys.exit(main())
