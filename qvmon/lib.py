"""Lazy access to the library under test (imported only after boot.boot())."""
import importlib

_SUB = ("qubovert", "qubovert.utils", "qubovert.sim", "qubovert.sat", "qubovert.problems")


def __getattr__(name):
    if name in ("utils", "sim", "sat", "problems"):
        return importlib.import_module("qubovert." + name)
    if name == "qv":
        return importlib.import_module("qubovert")
    for m in _SUB:
        mod = importlib.import_module(m)
        if hasattr(mod, name):
            return getattr(mod, name)
    raise AttributeError(name)


def types():
    import qubovert as qv
    u = qv.utils
    return {
        "bool": [qv.QUBO, qv.PUBO, qv.PCBO, u.QUBOMatrix, u.PUBOMatrix],
        "spin": [qv.QUSO, qv.PUSO, qv.PCSO, u.QUSOMatrix, u.PUSOMatrix],
    }


def kind_of(T):
    return "spin" if T.__name__ in ("QUSO", "PUSO", "PCSO", "QUSOMatrix", "PUSOMatrix") else "bool"


def is_matrix(T):
    return T.__name__.endswith("Matrix")


def is_deg2(T):
    return T.__name__ in ("QUBO", "QUSO", "QUBOMatrix", "QUSOMatrix")
