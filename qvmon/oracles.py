"""Oracles shared by several property modules."""
import numpy as np

from . import ref
from . import lib as L

MAX_BITS = 18
REL = {
    "eq": lambda v: v == 0, "ne": lambda v: v != 0, "lt": lambda v: v < 0,
    "le": lambda v: v <= 0, "gt": lambda v: v > 0, "ge": lambda v: v >= 0,
}
FORM_TYPE = {"qubo": "QUBOMatrix", "quso": "QUSOMatrix", "pubo": "PUBOMatrix", "puso": "PUSOMatrix"}


def true_vars(m):
    return {x for k in m for x in k}


def true_degree(m):
    return max((len(k) for k in m), default=0)


def form_labels(D):
    return {x for k in D for x in k}


SPELLING = {"last": None}


def call_form(M, form, deg=None, lam=None, pairs=None):
    """Call M.to_<form> the way a user would for model class type(M)."""
    T = type(M).__name__
    if T in ("QUBO", "QUSO"):            # no reduction arguments
        return getattr(M, "to_" + form)()
    # the documented signatures are to_qubo/to_quso(lam=None, pairs=None) and to_pubo/to_puso(deg=None, lam=None, pairs=None);
    # which spelling (positional / keyword) a call uses is a function of the call itself, so replays repeat it
    import zlib
    sp = zlib.crc32(repr((form, deg, T, len(M), pairs is None)).encode()) % 4
    f = getattr(M, "to_" + form)
    SPELLING["last"] = sp
    if form in ("qubo", "quso"):
        if sp == 0:
            return f(lam, pairs)
        if sp == 1:
            return f(lam, pairs=pairs)
        return f(lam=lam, pairs=pairs)
    if sp == 0:
        return f(deg, lam, pairs)
    if sp == 1:
        return f(deg=deg, lam=lam, pairs=pairs)
    if sp == 2 and lam is None and pairs is None:
        return f(deg=deg)
    return f(deg, lam=lam, pairs=pairs)


def reduction_oracle(ctx, M, D, form, deg, lam_sound, w, tag="", rng=None, check_type=True,
                     mapping=None, nbv=None):
    """Oracle A of C01 on one produced form D of model M (truth tables, n+a <= MAX_BITS).

    M's variables are enumerated by M.mapping (label -> 0..n-1); row index bit j is the
    value of label j (boolean b, spin 1-2b), so the low n bits of a row of D's table ARE
    convert_solution (checked against the real convert_solution on sampled rows).
    Returns dict(n=, anc=, skipped=) or None after reporting a violation."""
    kind = L.kind_of(type(M))
    dspin = form in ("quso", "puso")
    mp = M.mapping if mapping is None else mapping
    n = M.num_binary_variables if nbv is None else nbv
    tv = true_vars(M)
    if check_type and type(D).__name__ != FORM_TYPE[form]:
        ctx.violation(tag + "form-type", "to_%s returned %s" % (form, type(D).__name__), w)
        return None
    dl = form_labels(D)
    if any(not isinstance(x, int) or isinstance(x, bool) or x < 0 for x in dl):
        ctx.violation(tag + "form-label-not-int", "labels %r" % sorted(dl, key=repr)[:6], w)
        return None
    if any(v not in mp for v in tv):
        ctx.violation(tag + "variable-not-in-mapping", "true variables missing from mapping", w)
        return None
    var_labels = {mp[v] for v in tv}
    if len(var_labels) != len(tv):
        ctx.violation(tag + "mapping-not-injective", "two variables share a label", w)
        return None
    mapvals = set(mp.values())
    anc = {x for x in dl if x not in var_labels}
    bad = {x for x in anc if x in mapvals or x < n}
    if bad:
        ctx.violation(tag + "ancilla-label-collides", "labels %r are neither labels of the model's variables nor >= n=%d "
                      "(mapping values %r)" % (sorted(bad), n, sorted(mapvals)), w)
        return None
    want = 2 if form in ("qubo", "quso") else deg
    if want is not None and true_degree(D) > want:
        ctx.violation(tag + "degree-too-high", "degree %d > requested %d" % (true_degree(D), want), w)
        return None
    nd = max([n] + [x + 1 for x in dl])
    if nd > MAX_BITS:
        ctx.cat("skipped_large")
        return {"n": n, "anc": len(anc), "skipped": True}
    pm = ref.from_raw(kind, dict(M)).relabel(mp)
    mv = ref.table(pm, list(range(n)))
    dv = ref.table(dict(D), list(range(nd)), spin=dspin)
    low = np.arange(1 << nd, dtype=np.int64) & ((1 << n) - 1)
    diff = dv - mv[low]
    tol = 1e-9 * max(1.0, float(np.abs(mv).max()) if mv.size else 1.0)
    mins = np.full(1 << n, np.inf)
    np.minimum.at(mins, low, np.abs(diff))
    if mins.max() > tol:
        i = int(mins.argmax())
        ctx.violation(tag + "no-exact-extension", "assignment %r of M (value %r) has no ancilla extension with equal value "
                      "(closest differs by %r)" % (ref.assignment(i, list(range(n)), False), float(mv[i]), float(mins[i])), w)
        return None
    if lam_sound:
        if diff.min() < -tol:
            i = int(diff.argmin())
            ctx.violation(tag + "undercut", "D(s)=%r < M(convert(s))=%r at row %d" % (float(dv[i]), float(mv[low[i]]), i), w)
            return None
        if abs(dv.min() - mv.min()) > tol:
            ctx.violation(tag + "minimum-differs", "min D=%r min M=%r" % (float(dv.min()), float(mv.min())), w)
            return None
    # real convert_solution on sampled rows (arg-min rows first)
    rows = []
    if lam_sound:
        am = np.flatnonzero(np.abs(dv - dv.min()) <= tol)
        rows += [int(x) for x in am[:3]]
    if rng is not None:
        rows += [rng.randrange(1 << nd) for _ in range(3)]
        rows += [0, (1 << nd) - 1]
        if nd > n:
            # every model variable at 1 / +1 and only ancillas elsewhere (never a solver's answer, still an assignment of D)
            rows += [((rng.randrange(1, 1 << (nd - n))) << n) | (0 if dspin else (1 << n) - 1)]
    mmin = float(mv.min()) if mv.size else 0.0
    for j, i in enumerate(rows):
        bits = [(i >> b) & 1 for b in range(nd)]
        s = [1 - 2 * b for b in bits] if dspin else bits
        cont = (j + i) % 3
        sol = s if cont == 0 else (tuple(s) if cont == 1 else dict(enumerate(s)))
        # documented: the flag only matters for a solution made of 1s alone; whenever the full solution (ancillas
        # included) shows a -1 or a 0 the flag may be omitted or even contradict it
        ckw = {"spin": dspin}
        if any(v != 1 for v in s):
            fl = (j + 2 * i) % 4
            if fl == 1:
                ckw = {}
                ctx.count("convert_solution:flag-omitted")
            elif fl == 2:
                ckw = {"spin": not dspin}
                ctx.count("convert_solution:flag-contradicts-form")
        ok, x = ctx.call("convert_solution", M.convert_solution, sol, _w=dict(w, convert_solution_kwargs=ckw, solution=sol), **ckw)
        ctx.count("convert_solution-calls")
        if not ok:
            return None
        okv = (1, -1) if kind == "spin" else (0, 1)
        if set(x) != set(mp) or any(v not in okv for v in x.values()):
            ctx.violation(tag + "convert_solution-malformed", "convert_solution(%r) = %r" % (sol, x), w)
            return None
        xv = float(M.value(x))
        if abs(xv - mv[low[i]]) > tol:
            ctx.violation(tag + "convert_solution-wrong", "M.value(convert_solution(s))=%r but low bits give %r" % (xv, float(mv[low[i]])), w)
            return None
        if lam_sound and j < 3 and abs(dv[i] - dv.min()) <= tol and abs(xv - mmin) > tol:
            ctx.violation(tag + "argmin-not-argmin", "a minimiser of D converts to value %r, min M is %r" % (xv, mmin), w)
            return None
    return {"n": n, "anc": len(anc), "skipped": False}


def relation_tables(kind, P, order):
    """truth table of integer polynomial P (raw dict) over `order`"""
    return ref.table(ref.from_raw(kind, P), order)
