"""Shared pieces for C11 / C12 / C17: configuration generator and the result contract."""
import math

from .. import gen, ref
from .. import lib as L
from ..ref import frac

FUNCS = ["anneal_qubo", "anneal_quso", "anneal_pubo", "anneal_puso"]
ACCEPT = {
    "anneal_quso": ["dict", "QUSO", "QUSOMatrix", "PUSO", "PCSO", "PUSOMatrix"],
    "anneal_puso": ["dict", "QUSO", "PUSO", "PCSO", "QUSOMatrix", "PUSOMatrix"],
    "anneal_qubo": ["dict", "QUBO", "QUBOMatrix", "PUBO", "PCBO", "PUBOMatrix"],
    "anneal_pubo": ["dict", "QUBO", "PUBO", "PCBO", "QUBOMatrix", "PUBOMatrix"],
}
OWN_MATRIX = {"anneal_quso": ["QUSOMatrix"], "anneal_puso": ["QUSOMatrix", "PUSOMatrix"],
              "anneal_qubo": ["QUBOMatrix"], "anneal_pubo": ["PUBOMatrix"]}


def is_spin(fn):
    return fn in ("anneal_quso", "anneal_puso")


def is_deg2(fn):
    return fn in ("anneal_quso", "anneal_qubo")


def counters():
    """(checks, mismatches, bounds) from the H2 hook, or None when the build has no hook"""
    import sys
    m = sys.modules.get("qubovert.sim._canneal")
    f = getattr(m, "c_verif_counters", None)
    return f() if f else None


# coefficients that need more than a float's 24 significant bits, yet whose sums over a few terms stay exact in a double
WIDE_BIG = [2 ** 25 + 1, -(2 ** 25) - 3, 2 ** 24 + 5, 2 ** 24 + 1, -(2 ** 24), 1, -2]
WIDE_SMALL = [1 + 2 ** -30, -1 - 2 ** -29, 0.5 + 2 ** -31, 2, -1, 1]


def user_mapping(rng, m):
    """gives the labelled model a user-chosen enumeration, listed in an order unrelated to the indices"""
    vs = list(m.variables)
    if len(vs) < 2:
        return None
    idx = list(range(len(vs)))
    rng.shuffle(idx)
    items = list(zip(vs, idx))
    rng.shuffle(items)
    if rng.random() < 0.5:
        m.set_mapping(dict(items))
        return "set_mapping"
    m.set_reverse_mapping({i: v for v, i in items})
    return "set_reverse_mapping"


def maxdev():
    """largest |dE used - (E(after) - E(before))| / sum|coefficients| since the last call (H2 hook), or None"""
    import sys
    m = sys.modules.get("qubovert.sim._canneal")
    f = getattr(m, "c_verif_maxdev", None)
    return f() if f else None


EXACT_TOL = 1e-13


def hook_verdict(ctx, w, exact, what=""):
    """Reads the H2 hook.  exact: every coefficient of the workload is a dyadic rational small enough that all the
    kernel's sums are exact in a double, so the incrementally maintained dE must agree with the recomputed one to
    the last bit (a kernel that keeps some intermediate in single precision deviates by ~1e-8).  False when a violation was recorded."""
    c = counters()
    if c is None:
        return True
    ctx.count("hook-dE-checks", c[0])
    dev = maxdev()
    if c[1] or c[2]:
        ctx.violation("kernel-hook:" + ("dE-mismatch" if c[1] else "index-out-of-bounds"),
                      "H2 hook reported mismatches=%d bounds=%d%s" % (c[1], c[2], what), w)
        return False
    if exact and dev is not None:
        ctx.count("hook-exactness-verdicts")
        if not dev <= EXACT_TOL:
            ctx.violation("kernel-hook:dE-not-exact", "coefficients are exactly representable and summable, yet the dE used deviates from "
                          "E(after) - E(before) by %.3g of the coefficient scale%s" % (dev, what), w)
            return False
    return True


def make_config(rng, fn=None, big=False, coefs=None, maxvars=6, one_shot_ok=False):
    """Returns dict(fn, type, model, terms, kw, keys, kind) -- a documented-valid call."""
    fn = fn or rng.choice(FUNCS)
    coef_kind = "given"
    if coefs is None:
        coef_kind = rng.choice(["dyadic"] * 7 + ["wide-big", "wide-big", "wide-small"])
        coefs = {"dyadic": None, "wide-big": WIDE_BIG, "wide-small": WIDE_SMALL}[coef_kind]
    spin, d2 = is_spin(fn), is_deg2(fn)
    kind = "spin" if spin else "bool"
    tn = rng.choice(ACCEPT[fn])
    mat = tn.endswith("Matrix")
    labs = gen.labels(rng, rng.randint(1, maxvars), matrix=mat or (tn == "dict" and rng.random() < 0.5))
    t_d2 = d2 or tn in ("QUBO", "QUSO", "QUBOMatrix", "QUSOMatrix")
    maxd = 2 if t_d2 else rng.choice([2, 3, 4, 6])
    r = rng.random()
    if r < 0.04:
        terms = {}
    elif r < 0.08:
        terms = {(): rng.choice([3, -1.5])}
    elif r < 0.14:
        terms = {(x,): rng.choice(gen.DYADIC) for x in labs}        # fields only
    else:
        terms = gen.rand_terms(rng, labs, maxd, coefs=coefs, lo=1, hi=8)
        if tn == "dict":
            terms = {tuple(gen.sort_labels(k)): v for k, v in terms.items()}
    mapped = None
    constrained = False
    zero_entry = False
    stale_degree = False
    long_spelling = False
    derived = None
    if tn == "dict":
        m = dict(terms)
        if m and rng.random() < 0.2:
            # longer spellings of the same monomials: a boolean label repeated (x*x = x), a pair of equal spins inserted (z*z = 1)
            tvs_ = sorted({x for k_ in m for x in k_}, key=repr)
            m2 = {}
            for k_, v_ in m.items():
                k2 = list(k_)
                if k2 and rng.random() < 0.6:
                    if spin:
                        y_ = rng.choice(tvs_)
                        k2 += [y_, y_]
                    else:
                        k2.append(rng.choice(k2))
                    rng.shuffle(k2)
                    long_spelling = True
                m2.setdefault(tuple(k2), v_)
            if len(m2) == len(m):
                m = m2
            else:
                long_spelling = False
        if labs and rng.random() < 0.25:
            # a plain dict filled from a weight table: some entries are explicit zeros (the model is the same function)
            for _ in range(rng.randint(1, 2)):
                k0 = tuple(gen.sort_labels(rng.sample(labs, rng.randint(1, min(2, len(labs))))))
                if k0 not in m:
                    m[k0] = rng.choice([0, 0.0])
                    zero_entry = True
    else:
        m = gen.model_of(getattr(L, tn), terms)
        if tn in ("PCBO", "PCSO") and labs and rng.random() < 0.4:
            # a constrained model: the penalty terms (slack ancillas '__a*' included) are part of what is annealed
            import warnings
            P = {(x,): rng.choice([1, 2, -1]) for x in rng.sample(labs, min(len(labs), rng.randint(1, 3)))}
            P[()] = rng.choice([-2, -1, 1])
            with warnings.catch_warnings():
                warnings.simplefilter("ignore")
                try:
                    getattr(m, "add_constraint_%s_zero" % rng.choice(["le", "lt", "ge", "eq", "ne"]))(P, lam=rng.choice([1, 2]))
                    constrained = True
                except KeyError:
                    pass
            if t_d2 and max((len(k) for k in m), default=0) > 2:
                m = gen.model_of(getattr(L, tn), terms)          # (the penalty is not quadratic: not an input of the quadratic annealers)
                constrained = False
        m.refresh()
        if not mat and labs and rng.random() < 0.12:
            # the model is one of several derived from a common ancestor (copy / copy constructor / sum with nothing), and
            # every one of them then grows by a variable of its own: what one sibling learns must not show in another
            base_ = m
            how_ = rng.choice(["copy", "ctor", "add-empty", "deepcopy"])
            import copy as _copy
            mk_ = {"copy": lambda: base_.copy(), "ctor": lambda: type(base_)(base_), "add-empty": lambda: base_ + {}, "deepcopy": lambda: _copy.deepcopy(base_)}[how_]
            first_ = mk_()
            l0_ = labs[0]
            n1_, n2_, n3_ = [gen.fresh_like(l0_, i_) for i_ in (1, 2, 3)]
            first_[(n1_,)] += 3                        # (single-label keys: labels of one key must be mutually orderable)
            base_[(n2_,)] += -2                         # the ancestor grows too ...
            second_ = mk_()
            second_[(n3_,)] += 5                        # ... and so does a younger sibling
            m = first_
            derived = how_
        if d2 and not derived and tn in ("PUBO", "PCBO", "PUSO", "PCSO", "PUBOMatrix", "PUSOMatrix") and rng.random() < 0.3:
            # a quadratic model held by a higher-degree type, with a history: a cubic term came and went, so the object's
            # `degree` bookkeeping (an upper bound until refresh) still says 3
            tv_ = sorted({x for k_ in m for x in k_}, key=repr)
            if len(tv_) >= 3:
                k3 = tuple(gen.sort_labels(rng.sample(tv_, 3))) if not mat else tuple(sorted(rng.sample(tv_, 3)))
                try:
                    m[k3] += 5
                    m[k3] -= 5
                    stale_degree = True
                except KeyError:
                    pass
        if not mat and rng.random() < 0.35:
            mapped = user_mapping(rng, m)
    p = ref.from_raw(kind, dict(m))
    tv = p.vars()
    own = tn in OWN_MATRIX[fn]
    if mat:
        full = set(range(max(tv) + 1)) if tv else set()
    else:
        full = set(tv)
    kw = {}
    sch = rng.choice(["linear", "geometric", "list", "list0", "empty", "default"])
    if sch in ("linear", "geometric"):
        kw["schedule"] = sch
        kw["anneal_duration"] = rng.choice([1, 2, 10, 40])
        if rng.random() < 0.5:
            kw["temperature_range"] = (rng.choice([5, 1, 0.5]), rng.choice([0.5, 0.1]))
    elif sch == "list":
        kw["schedule"] = [rng.choice([3, 1, 0.2, 0, 1e-3, 50]) for _ in range(rng.randint(1, 6))]
        if rng.random() < 0.3:
            kw["schedule"] = tuple(kw["schedule"])
        if rng.random() < 0.15:
            kw["temperature_range"] = (2, 1)       # documented: ignored (with a warning) when an explicit schedule is given
        if rng.random() < 0.25:
            kw["anneal_duration"] = rng.choice([1, 2, 1000])     # documented: ignored when an explicit schedule is given
        r2 = rng.random()
        if r2 < 0.15:
            import numpy as np
            kw["schedule"] = np.array(kw["schedule"], dtype=float)
        elif r2 < 0.35 and one_shot_ok:
            vals_ = list(kw["schedule"])           # "an iterable of floats": one-shot iterators are documented-valid
            kw["schedule"] = (t for t in vals_) if rng.random() < 0.5 else iter(vals_)
            kw["_schedule_values"] = vals_
    elif sch == "list0":
        kw["schedule"] = [0] * rng.randint(1, 3)
    elif sch == "empty":
        kw["schedule"] = []
    else:
        kw["anneal_duration"] = rng.choice([1, 5, 30])
    if rng.random() < 0.5:
        dom = (1, -1) if spin else (0, 1)
        kw["initial_state"] = {x: rng.choice(dom) for x in full}
    kw["in_order"] = rng.random() < 0.5
    kw["seed"] = rng.choice([None, 0, 5, 2 ** 31 - 1])
    kw["num_anneals"] = rng.choice([-1, 0, 1, 1, 3, 7])
    numpy_spelled = False
    if rng.random() < 0.15:
        # the same numbers spelled as numpy scalars
        import numpy as np
        for k_ in ("num_anneals", "seed", "anneal_duration"):
            if isinstance(kw.get(k_), int) and not isinstance(kw[k_], bool):
                kw[k_] = rng.choice([np.int64, np.int32])(kw[k_])
        if "temperature_range" in kw:
            kw["temperature_range"] = tuple(np.float64(t) for t in kw["temperature_range"])
        kw["in_order"] = np.bool_(kw["in_order"])
        if "initial_state" in kw:
            # a state that comes out of numpy (np.unpackbits, an int8 spin array): same numbers, numpy scalar types
            ty = rng.choice([np.int8, np.int64] if spin else [np.uint8, np.int64, np.uint64])
            kw["initial_state"] = {k_: ty(v_) for k_, v_ in kw["initial_state"].items()}
        numpy_spelled = True
    seq_state = False
    if mat and kw.get("initial_state") and rng.random() < 0.3:
        # labels 0..n-1: the state spelled as a sequence indexed by label (the repository's own tests spell it so)
        kw["initial_state"] = rng.choice([list, tuple])(kw["initial_state"][i] for i in range(len(full)))
        seq_state = True
    return {"derived_sibling": derived, "seq_state": seq_state, "zero_entry": zero_entry, "stale_degree": stale_degree, "long_spelling": long_spelling, "fn": fn, "type": tn, "model": m, "terms": dict(m), "kw": kw, "poly": p, "kind": kind,
            "true_vars": tv, "full_keys": full, "own_matrix": own, "matrix": mat, "schedule_kind": sch, "user_mapping": mapped, "coef_kind": coef_kind, "numpy_spelled": numpy_spelled,
            "constrained": constrained}


def describe(cfg):
    return {"function": cfg["fn"], "type": cfg["type"], "terms": cfg["terms"], "kwargs": cfg["kw"]}


def check_results(ctx, cfg, res, tag=""):
    """the C11 contract; returns True when everything holds"""
    fn, kw, p = cfg["fn"], cfg["kw"], cfg["poly"]
    spin = is_spin(fn)
    w = describe(cfg)
    AR = L.sim.AnnealResults
    if type(res) is not AR:
        ctx.violation(tag + "result-not-AnnealResults", "%s returned %s" % (fn, type(res).__name__), w)
        return False
    na = kw.get("num_anneals", 1)
    if len(res) != max(na, 0):
        ctx.violation(tag + "wrong-number-of-results", "num_anneals=%r gave %d results" % (na, len(res)), w)
        return False
    dom = (1, -1) if spin else (0, 1)
    tv, full = cfg["true_vars"], cfg["full_keys"]
    for r in res:
        keys = set(r.state)
        if cfg["matrix"] and cfg["own_matrix"]:
            okk = keys == full
        elif cfg["matrix"]:
            okk = keys == full or keys == set(tv)
        else:
            okk = keys == set(tv)
        if not okk:
            ctx.violation(tag + "state-wrong-variables", "state over %r; model variables %r (max_index rule: %r)" % (
                sorted(map(repr, keys)), sorted(map(repr, tv)), sorted(full) if cfg["matrix"] else None), w)
            return False
        if any(v not in dom or isinstance(v, bool) for v in r.state.values()):
            ctx.violation(tag + "state-values-outside-domain", "state %r" % (r.state,), w)
            return False
        if r.spin is not spin:
            ctx.violation(tag + "spin-flag-wrong", "spin=%r from %s" % (r.spin, fn), w)
            return False
        want = p.value({x: r.state[x] for x in tv})
        if frac(r.value) != want:
            ctx.violation(tag + "value-does-not-match-state", "value %r, model at state %r" % (r.value, float(want)), w)
            return False
        ctx.count("result-contract-checks")
    if len(res):
        mn = min(r.value for r in res)
        if res.best is None or res.best.value != mn or not any(res.best is r or res.best == r for r in res):
            ctx.violation(tag + "best-not-minimum", "best %r, minimum %r" % (res.best, mn), w)
            return False
    elif res.best is not None:
        ctx.violation(tag + "best-on-empty", "best %r on empty results" % (res.best,), w)
        return False
    sched = kw.get("_schedule_values", kw.get("schedule"))
    if "initial_state" in kw and sched is not None and not isinstance(sched, str) \
            and all(t == 0 for t in sched) and len(res):
        init = kw["initial_state"]
        iv = p.value({x: init[x] for x in tv})
        for r in res:
            ctx.count("T0-monotone-checks")
            if frac(r.value) > iv:
                ctx.violation(tag + "zero-temperature-energy-increased", "value %r > initial %r" % (r.value, float(iv)), w)
                return False
    return True


def check_results_lenient(ctx, cfg, model, res, tag=""):
    """contract for a model whose bookkeeping may be an upper bound (edited in place, not refreshed): states cover at
    least the variables that occur in a term, values lie in the domain, value == model(state), best is the minimum"""
    fn = cfg["fn"]
    spin = is_spin(fn)
    kind = "spin" if spin else "bool"
    p = ref.from_raw(kind, dict(model))
    tv = p.vars()
    dom = (1, -1) if spin else (0, 1)
    w = dict(describe(cfg), terms_now=dict(model))
    na = cfg["kw"].get("num_anneals", 1)
    if len(res) != max(na, 0):
        ctx.violation(tag + "wrong-number-of-results", "num_anneals=%r gave %d results" % (na, len(res)), w)
        return False
    # A cancelled, un-refreshed variable: the spin kernels' own labelled types keep it in every state (the model still reports
    # it and a complete initial_state has to name it); the cross-type and boolean front ends re-enumerate and drop it -- both
    # readings of "the model's variables" occur on the unchanged tree, so the strict one is only demanded where it holds
    strict = (fn, cfg["type"]) in (("anneal_puso", "PUSO"), ("anneal_puso", "PCSO"), ("anneal_puso", "QUSO"), ("anneal_quso", "QUSO"))
    reported = set(model.variables) if strict else None
    for r in res:
        if reported is not None and not set(r.state) <= reported:
            # (a cancelled, un-refreshed variable may or may not be kept in the states -- both occur on the unchanged tree --
            #  but nothing outside the model's reported variables may appear)
            ctx.violation(tag + "state-over-foreign-variables", "state over %r, model.variables %r" % (
                sorted(map(repr, r.state)), sorted(map(repr, reported))), w)
            return False
        if not tv <= set(r.state) or any(v not in dom for v in r.state.values()) or r.spin is not spin:
            ctx.violation(tag + "malformed-state", "state %r (spin=%r); variables in terms %r" % (r.state, r.spin, sorted(map(repr, tv))), w)
            return False
        if frac(r.value) != p.value({x: r.state[x] for x in tv}):
            ctx.violation(tag + "value-does-not-match-state", "value %r, current model at the state %r" % (r.value, float(p.value({x: r.state[x] for x in tv}))), w)
            return False
        ctx.count("result-contract-checks")
    if len(res) and (res.best is None or res.best.value != min(r.value for r in res)):
        ctx.violation(tag + "best-not-minimum", "best %r" % (res.best,), w)
        return False
    return True
