"""Shared monitor for C02 (PCBO) and C03 (PCSO) comparison constraints."""
import warnings

import numpy as np

from .. import gen, oracles, ref
from .. import lib as L
from ..ref import Poly

RELS = ["eq", "ne", "lt", "le", "gt", "ge"]
SHAPES = ["random", "sum-minus-1", "weighted-sum-minus-c", "z-minus-xy", "one-minus-two-monomials",
          "m1-minus-m2", "nonneg-offset-unary", "min-zero", "max-zero", "always-true", "never-true",
          "pow2-range", "single-var", "dense", "gate-identity-or-near-miss"]


def anc_names(keys):
    return {x for k in keys for x in k if isinstance(x, str) and x.startswith("__a")}


def shape_poly(rng, labs):
    """integer boolean polynomial aimed at one branch of the comparison code"""
    shape = rng.choice(SHAPES)
    n = len(labs)

    def mono(maxd=2):
        return tuple(rng.sample(labs, rng.randint(1, min(maxd, n))))
    P = {}
    if shape == "random":
        for _ in range(rng.randint(1, 5)):
            k = tuple(rng.sample(labs, rng.randint(0, min(3, n))))
            P[k] = P.get(k, 0) + rng.randint(-3, 3)
    elif shape == "sum-minus-1":
        for _ in range(rng.randint(1, 4)):
            P[mono()] = 1
        if rng.random() < 0.3:
            P[mono()] = rng.choice([1, -1])      # near miss: abs(x) == 1 is not the sum form
        P[()] = -1
    elif shape == "weighted-sum-minus-c":
        for l in labs:
            P[(l,)] = rng.randint(1, 3)
        P[()] = -rng.randint(1, 4)
    elif shape == "z-minus-xy":
        if n >= 3:
            a, b, c = rng.sample(labs, 3)
            s = rng.choice([1, -1, 2])
            P = {(a,): s, (b, c): -s}
        else:
            P = {(labs[0],): 1}
    elif shape == "one-minus-two-monomials":
        P = {mono(): -1, (): 1}
        P[mono()] = -1
    elif shape == "m1-minus-m2":
        P = {mono(): 1}
        k = mono()
        P[k] = P.get(k, 0) - 1
    elif shape == "nonneg-offset-unary":
        for _ in range(rng.randint(1, 3)):
            P[mono()] = rng.randint(1, 3)
        P[()] = -rng.randint(1, 5)
    elif shape == "min-zero":
        for _ in range(rng.randint(1, 3)):
            P[mono()] = rng.randint(1, 3)
    elif shape == "max-zero":
        for _ in range(rng.randint(1, 3)):
            P[mono()] = -rng.randint(1, 3)
    elif shape == "always-true":
        P = {mono(): rng.randint(1, 2), (): rng.choice([-5, 5])}
    elif shape == "never-true":
        P = {mono(): rng.randint(1, 2), (): rng.choice([-4, 4])}
    elif shape == "pow2-range":
        c = rng.choice([1, 2, 4, 8])
        P = {(labs[0],): c}
        if n > 1:
            P[(labs[1],)] = rng.choice([1, 2, 4])
        P[()] = -rng.choice([1, 2, 4, 8])
    elif shape == "gate-identity-or-near-miss":
        # z = OR / AND / NAND / NOR / XOR of two variables written as a polynomial identity, or the same terms with the
        # product on another pair, a sign flipped, the constant moved: three linear terms and one product of equal magnitude
        if n >= 3:
            z, a, b = rng.sample(labs, 3)
            c = rng.choice([1, 1, -1, 2])
            base = rng.choice(["or", "and", "nand", "nor", "xor"])
            P = {"or": {(z,): c, (a,): -c, (b,): -c, (a, b): c},
                 "and": {(z,): c, (a, b): -c},
                 "nand": {(z,): c, (): -c, (a, b): c},
                 "nor": {(z,): c, (): -c, (a,): c, (b,): c, (a, b): -c},
                 "xor": {(z,): c, (a,): -c, (b,): -c, (a, b): 2 * c}}[base]
            r_ = rng.random()
            if r_ < 0.5:
                # near miss: the product sits on a pair that contains the output variable
                pk = [k for k in P if len(k) == 2][0]
                v_ = P.pop(pk)
                P[(z, rng.choice([a, b]))] = v_
            elif r_ < 0.65:
                k_ = rng.choice([k for k in P if len(k) == 1])
                P[k_] = -P[k_]
            elif r_ < 0.75:
                P[()] = P.get((), 0) + rng.choice([1, -1])
        else:
            P = {(labs[0],): 1, (): -1}
    elif shape == "single-var":
        P = {(labs[0],): rng.choice([-2, -1, 1, 2]), (): rng.choice([-1, 0, 1])}
    else:  # dense
        for _ in range(rng.randint(4, 8)):
            k = tuple(rng.sample(labs, rng.randint(0, min(3, n))))
            P[k] = P.get(k, 0) + rng.randint(-2, 2)
    P = {k: v for k, v in P.items() if v}
    if not P:
        P = {(labs[0],): 1}
    return shape, P


def one_history(ctx, rng, kind, with_objective=True, max_constraints=4):
    """Returns nothing; reports through ctx.  kind 'bool' -> PCBO, 'spin' -> PCSO."""
    T = L.PCBO if kind == "bool" else L.PCSO
    vals = (0, 1) if kind == "bool" else (1, -1)
    n = rng.randint(1, 5)
    labs = gen.labels(rng, n)
    labs = [x for x in labs if not (isinstance(x, str) and x.startswith("__a"))]
    H = T()
    hist = []
    if rng.random() < 0.4:
        obj = gen.rand_terms(rng, labs, 3, lo=1, hi=3)
        for k, v in obj.items():
            H[k] += v
        hist.append(["objective", obj])
    lineage = set()
    recorded = []
    left_behind = []

    def interleaved_validity(when):
        """is_solution_valid between the steps of the history (not only at its end)"""
        if rng.random() < 0.5:
            return True
        vs = sorted({x for x in oracles.true_vars(H) if not (isinstance(x, str) and x.startswith("__a"))} |
                    {x for _, p in recorded for x in p.vars()}, key=repr)
        for _ in range(3):
            x = {v: rng.choice(vals) for v in vs}
            want = all(oracles.REL[R](p.value(x)) for R, p in recorded)
            ok, got = ctx.call("is_solution_valid", H.is_solution_valid, x, _w={"model": T.__name__, "history": hist})
            ctx.count("interleaved-validity-checks")
            if not ok:
                return False
            if bool(got) != want:
                ctx.violation("is_solution_valid-disagrees:interleaved", "%s: is_solution_valid(%r)=%r, relations so far say %r" % (when, x, got, want),
                              {"model": T.__name__, "history": hist})
                return False
        return True
    if not interleaved_validity("before any constraint"):
        return
    ncon = rng.choice([1, 1, 2, 2, 3, 4][:max_constraints + 2])
    nontrivial_any = False
    for ci in range(ncon):
        shape, Pb = shape_poly(rng, labs)
        if kind == "spin":
            if rng.random() < 0.5:
                # integer-coefficient spin polynomial
                P = {k: v for k, v in Pb.items()}
                Pp = ref.from_raw("spin", P)
                shape = "spin-int:" + shape
            else:
                # spin image of the boolean shape: integer-valued, hits the same branch of the PCBO code
                Pp = ref.from_raw("bool", Pb).to_spin()
                P = {tuple(sorted(k, key=repr)): float(v) if v.denominator != 1 else int(v) for k, v in Pp.d.items()}
                shape = "spin-image:" + shape
        else:
            P = Pb
            Pp = ref.from_raw("bool", P)
        pv = sorted(Pp.vars(), key=repr)
        ptab = ref.table(Pp, pv)
        tmin, tmax = float(ptab.min()), float(ptab.max())
        R = rng.choice(RELS)
        lam = rng.choice([0.5, 1, 2, 3])
        log_trick = rng.random() < 0.5
        b = rng.random()
        if b < 0.4:
            bounds, bstyle = None, "none"
        elif b < 0.55:
            bounds, bstyle = (tmin, tmax), "exact"
        elif b < 0.66:
            bounds, bstyle = (tmin - rng.randint(0, 2), tmax + rng.randint(0, 2)), "widened"
        elif b < 0.76:
            # any valid enclosure: bounds need not be integers, nor attained
            bounds, bstyle = (tmin - rng.choice([0.5, 1.5, 2.5, 0.25]), tmax + rng.choice([0, 0.5, 1.5])), "widened-fractional"
            if rng.random() < 0.3:
                bounds = list(bounds)
        elif b < 0.88:
            bounds, bstyle = (tmin, None), "lower-only"
        else:
            bounds, bstyle = (None, tmax), "upper-only"
        kw = {"lam": lam, "bounds": bounds}
        if R != "eq":
            kw["log_trick"] = log_trick
            if rng.random() < 0.2:
                # the same truth value spelled as an int or a numpy bool (comparison results, parsed options)
                kw["log_trick"] = rng.choice([1, np.True_] if log_trick else [0, np.False_])
                ctx.cat("log_trick-spelled-as-int-or-numpy-bool")
        suppress = rng.random() < 0.15
        if suppress:
            kw["suppress_warnings"] = True
        # raw key order / container variations of the argument
        argP = dict(P)
        if rng.random() < 0.3:
            argP = {tuple(reversed(k)): v for k, v in P.items()}
        elif rng.random() < 0.3:
            argP = (L.PUBO if kind == "bool" else L.PUSO)(P)
        desc = ["add_constraint_%s_zero" % R, dict(P), {k: v for k, v in kw.items()}, shape]
        hist.append(desc)
        w = {"model": T.__name__, "history": hist}
        before = ref.from_raw(kind, dict(H))
        before_names = anc_names(H)
        lineage |= before_names
        with warnings.catch_warnings(record=True) as wl:
            warnings.simplefilter("always")
            if rng.random() < 0.25:
                # the documented positional order: (P, lam, bounds, suppress_warnings) for ==, (P, lam, log_trick, bounds,
                # suppress_warnings) for the other five
                pos = [kw["lam"]] + ([] if R == "eq" else [kw.get("log_trick", True)]) + [kw.get("bounds")]
                if "suppress_warnings" in kw and rng.random() < 0.5:
                    pos.append(kw["suppress_warnings"])
                    rest_ = {}
                else:
                    rest_ = {k_: v_ for k_, v_ in kw.items() if k_ == "suppress_warnings"}
                ctx.cat("arguments-passed-positionally")
                desc.append("positional")
                ok, ret = ctx.call("add_constraint_%s_zero" % R, getattr(H, "add_constraint_%s_zero" % R), argP, *pos, _w=w, **rest_)
            else:
                ok, ret = ctx.call("add_constraint_%s_zero" % R, getattr(H, "add_constraint_%s_zero" % R), argP, _w=w, **kw)
        if not ok:
            return
        if ret is not H:
            ctx.violation("%s:does-not-return-self" % R, "add_constraint returned %r" % type(ret).__name__, w)
            return
        if not isinstance(argP, dict) or type(argP) is not dict:
            # the caller goes on using (and editing) its own polynomial object: the recorded constraint must not follow
            ctx.cat("caller-edits-its-polynomial-afterwards")
            try:
                argP *= 0
                argP[()] += 12345
            except Exception:   # noqa
                pass
        else:
            argP.clear()
        msgs = [str(x.message) for x in wl if issubclass(x.category, L.utils.QUBOVertWarning)]
        warned_unsat = any("cannot be satisfied" in m for m in msgs)
        if suppress and msgs:
            ctx.violation("%s:warning-not-suppressed" % R, "suppress_warnings=True but warned %r" % msgs, w)
            return
        delta = ref.from_raw(kind, dict(H)) - before
        new_anc = anc_names(tuple(k) for k in delta.d)
        reused = new_anc & lineage
        ctx.count("delta-checks")
        tagp = "%s:" % R
        if reused:
            ctx.violation(tagp + "ancilla-name-reused", "penalty uses ancilla names %r already present in this model" % sorted(reused), w)
            return
        lineage |= new_anc
        stray = delta.vars() - set(pv) - new_anc
        if stray:
            ctx.violation(tagp + "penalty-touches-foreign-variable", "added terms involve %r" % sorted(stray, key=repr), w)
            return
        present = anc_names(H)
        if H.num_ancillas < len(present) or H.num_ancillas < len(lineage):
            ctx.violation(tagp + "num_ancillas-too-small", "num_ancillas=%d but %d ancilla names exist" % (H.num_ancillas, len(lineage)), w)
            return
        recorded.append((R, Pp))
        if rng.random() < 0.15:
            # bookkeeping refresh between two constraints: terms, recorded constraints and the ancilla count stay
            c0, a0, t0 = H.constraints, H.num_ancillas, dict(H)
            okr, _ = ctx.call("refresh", H.refresh, _w={"model": T.__name__, "history": hist})
            hist.append(["refresh"])
            ctx.cat("refresh-between-constraints")
            if not okr:
                return
            if H.constraints != c0 or H.num_ancillas != a0 or dict(H) != t0:
                ctx.violation("refresh:constraints-or-ancillas-changed", "refresh() between constraints changed constraints / num_ancillas (%r -> %r) / terms" % (a0, H.num_ancillas),
                              {"model": T.__name__, "history": hist})
                return
        if rng.random() < 0.25:
            # something else happens to the model between two constraints: objective terms merged in from another model of the
            # same class, or the history continues on a copy; recorded constraints and the ancilla count stay what they were
            import copy as _copy
            how = rng.choice(["update-with-model", "iadd-model", "deepcopy", "copy.copy", "copy()", "copy-constructor", "update-into-fresh-model"])
            c0, a0 = H.constraints, H.num_ancillas
            t0 = ref.from_raw(kind, dict(H))
            extra = T()
            for k_, v_ in gen.rand_terms(rng, labs, 2, coefs=[1, -1, 2, 3], lo=1, hi=2).items():
                extra[k_] += v_
            w_ = {"model": T.__name__, "history": hist + [[how]]}
            if how == "update-with-model":
                okb, _ = ctx.call("update", H.update, extra, _w=w_)
            elif how == "update-into-fresh-model":
                # the documented way to merge: a fresh model of the class takes the constrained one in with update(); the history
                # goes on with the new model (whose next constraints need fresh ancillas), the old one keeps what it recorded
                H2 = T()
                okb, _ = ctx.call("update", H2.update, H, _w=w_)
            elif how == "iadd-model":
                okb, H2 = ctx.call("iadd", H.__iadd__, extra, _w=w_)
            elif how == "deepcopy":
                okb, H2 = ctx.call("deepcopy", _copy.deepcopy, H, _w=w_)
            elif how == "copy.copy":
                okb, H2 = ctx.call("copy.copy", _copy.copy, H, _w=w_)
            elif how == "copy()":
                okb, H2 = ctx.call("copy", H.copy, _w=w_)
            else:
                okb, H2 = ctx.call("copy-constructor", T, H, _w=w_)
            if not okb:
                return
            if how not in ("update-with-model",):
                if how != "iadd-model" and (H2 is H or type(H2) is not T or ref.from_raw(kind, dict(H2)) != t0):
                    ctx.violation("%s:copy-differs" % how, "%s gave %s %r" % (how, type(H2).__name__, dict(H2)), w_)
                    return
                if how in ("deepcopy", "copy()", "copy-constructor", "update-into-fresh-model") and len(left_behind) < 3:
                    # the history goes on with the copy; the original keeps what it recorded so far
                    left_behind.append((H, {k_: [dict(p_) for p_ in v_] for k_, v_ in H.constraints.items()}, H.num_ancillas, how))
                H = H2
            hist.append([how] + ([dict(extra)] if "model" in how else []))
            ctx.cat("between-constraints:" + how)
            if H.constraints != c0 or H.num_ancillas != a0:
                ctx.violation("%s:constraints-or-ancillas-changed" % how, "%s between constraints changed the recorded constraints or num_ancillas (%r -> %r)" % (
                    how, a0, H.num_ancillas), {"model": T.__name__, "history": hist})
                return
        if not interleaved_validity("after constraint %d" % (ci + 1)):
            return
        rel = oracles.REL[R]
        sat = rel(ptab)
        nontriv = bool(sat.any() and not sat.all())
        nontrivial_any |= nontriv
        ctx.cat("rel:%s:log_trick=%s" % (R, log_trick if R != "eq" else "n/a"))
        ctx.cat("shape:" + shape.split(":")[-1])
        ctx.cat("bounds:" + bstyle)
        ctx.cat("ancillas:%s" % ("0" if not new_anc else ("1-3" if len(new_anc) <= 3 else ">=4")))
        if ci > 0:
            ctx.cat("multi-constraint-step")
        # ---- table oracle --------------------------------------------------------------------
        anc = sorted(new_anc, key=lambda s: int(s[3:]))
        order = pv + anc
        if len(order) > oracles.MAX_BITS:
            ctx.cat("skipped_large")
            continue
        ftab = ref.table(delta, order)
        npv = len(pv)
        low = np.arange(1 << len(order), dtype=np.int64) & ((1 << npv) - 1)
        tol = 1e-9
        if ftab.min() < -tol:
            i = int(ftab.argmin())
            ctx.violation(tagp + "negative-penalty", "F=%r at %r" % (float(ftab[i]), ref.assignment(i, order, kind == "spin")), w)
            return
        promised = not warned_unsat and not (suppress and not sat.any())
        if warned_unsat:
            ctx.cat("warned-unsatisfiable")
            if sat.any():
                ctx.cat("spurious-unsat-warning")
        if promised:
            mins = np.full(1 << npv, np.inf)
            np.minimum.at(mins, low, ftab)
            bad_sat = sat & (np.abs(mins) > tol)
            if bad_sat.any():
                i = int(np.flatnonzero(bad_sat)[0])
                ctx.violation(tagp + "satisfied-but-penalised", "P(x)=%r satisfies %s but min_a F=%r at x=%r" % (
                    float(ptab[i]), R, float(mins[i]), ref.assignment(i, pv, kind == "spin")), w)
                return
            bad_unsat = (~sat) & (mins < lam - tol)
            if bad_unsat.any():
                i = int(np.flatnonzero(bad_unsat)[0])
                ctx.violation(tagp + "violated-but-cheap", "P(x)=%r violates %s but min_a F=%r < lam=%r at x=%r" % (
                    float(ptab[i]), R, float(mins[i]), lam, ref.assignment(i, pv, kind == "spin")), w)
                return
            ctx.count("exactness-checks")
    # ---- is_solution_valid over all assignments of the non-ancilla variables ------------------------
    allv = sorted({x for x in oracles.true_vars(H) if not (isinstance(x, str) and x.startswith("__a"))} |
                  {x for _, p in recorded for x in p.vars()}, key=repr)
    w = {"model": T.__name__, "history": hist}
    if len(allv) <= 8:
        tabs = [(R, ref.table(p, allv)) for R, p in recorded]
        ancs = sorted(anc_names(H))
        for i in range(1 << len(allv)):
            x = ref.assignment(i, allv, kind == "spin")
            want = all(oracles.REL[R](t[i]) for R, t in tabs)
            x2 = dict(x)
            if i % 2:
                x2.update({a: rng.choice(vals) for a in ancs})
            ok, got = ctx.call("is_solution_valid", H.is_solution_valid, x2, _w=w)
            ctx.count("is_solution_valid-checks")
            if not ok:
                return
            if bool(got) != want:
                ctx.violation("is_solution_valid-disagrees", "is_solution_valid(%r)=%r, relations say %r" % (x2, got, want), w)
                return
    for M0, cons0, anc0, how0 in left_behind:
        ctx.count("left-behind-original-checks")
        if {k_: [dict(p_) for p_ in v_] for k_, v_ in M0.constraints.items()} != cons0 or M0.num_ancillas != anc0:
            ctx.violation("%s:original-follows-the-copy" % how0, "constraints added to a copy changed what the original (left behind at the %s step) records: %r -> %r" % (
                how0, cons0, M0.constraints), w)
            return
    # recorded constraints attribute
    cons = H.constraints
    exp_cons = {}
    for R, p in recorded:
        exp_cons.setdefault(R, []).append(p)
    got_cons = {R: [ref.from_raw(kind, dict(p)) for p in v] for R, v in cons.items()}
    if got_cons != exp_cons:
        ctx.violation("constraints-attribute-wrong", "recorded constraints %r" % (cons,), w)
        return
    if nontrivial_any:
        ctx.nontrivial((kind, hist))
    if ncon >= 2:
        ctx.cat("multi-constraint-history")
    ctx.sample({"model": T.__name__, "history": hist[:4]}, limit=3)


def huge_bound_case(ctx, rng):
    """Inequalities whose bound needs 50-70 slack bits (integer coefficients around 2**k): the full truth table is out of
    reach, but the penalty is lam * (P + slack)**2 with non-negative slack weights, so (a) a satisfying assignment must
    have an ancilla setting with penalty exactly 0 -- found greedily from the slack weights read off the model itself --
    (b) a violating one costs at least lam for every ancilla setting tried, (c) nothing is negative.  Exact integer
    arithmetic throughout."""
    import itertools
    k = rng.randint(49, 70)
    c = 2 ** k + rng.choice([0, 0, 1, 1, 2, 3, -1, 5])
    x, y = "hx", "hy"
    form = rng.choice(["single", "two", "two-small"])
    P = {(x,): -c}
    if form == "two":
        P[(y,)] = -(2 ** rng.randint(3, k - 1) + rng.choice([0, 1]))
    elif form == "two-small":
        P[(y,)] = -3
    if rng.random() < 0.8:
        P[()] = rng.choice([1, 2, 5])          # some assignments violate
    R = rng.choice(["le", "lt", "ge", "gt"])
    argP = dict(P) if R in ("le", "lt") else {k_: -v for k_, v in P.items()}
    Pp = ref.from_raw("bool", argP)
    lam = rng.choice([1, 2, 3])
    kw = {"lam": lam}
    if rng.random() < 0.5:
        kw["log_trick"] = True
    vs = sorted(Pp.vars())
    vals_ = [Pp.value(dict(zip(vs, bits))) for bits in itertools.product((0, 1), repeat=len(vs))]
    if rng.random() < 0.3:
        kw["bounds"] = (int(min(vals_)), int(max(vals_)))
    H = L.PCBO()
    w = {"model": "PCBO", "history": [["add_constraint_%s_zero" % R, {repr(k_): str(v) for k_, v in argP.items()}, dict(kw), "huge-bound 2**%d" % k]]}
    with warnings.catch_warnings():
        warnings.simplefilter("ignore")
        ok, _ = ctx.call("add_constraint_%s_zero" % R, getattr(H, "add_constraint_%s_zero" % R), argP, _w=w, **kw)
    if not ok:
        return
    ctx.cat("huge-bound:" + R)
    ctx.cat("huge-bound")
    anc = sorted(anc_names(H), key=lambda s: int(s[3:]))
    if len(anc) > 90:
        ctx.violation("%s:huge-bound:too-many-ancillas" % R, "%d ancillas for a bound of %d bits with log_trick" % (len(anc), k), w)
        return
    # slack weights as the model has them: for F = lam*(P + sum w_i a_i)**2 the (x, a_i) coefficient is 2*lam*p_x*w_i
    px = argP[(x,)] + (0 if R in ("le", "ge") else 0)
    wts = {}
    for a in anc:
        cf = H.get((x, a), H.get((a, x), 0))
        if cf == 0 or (2 * lam * px) == 0 or cf % (2 * lam * px):
            ctx.cat("huge-bound:weights-not-readable")
            return
        wts[a] = abs(cf // (2 * lam * px))
    for bits in itertools.product((0, 1), repeat=len(vs)):
        asg = dict(zip(vs, bits))
        v = Pp.value(asg)
        sat = bool(oracles.REL[R](v))
        ctx.count("huge-bound-rows")
        for _ in range(3):
            full = dict(asg, **{a: rng.choice((0, 1)) for a in anc})
            val = H.value(full)
            if val < 0:
                ctx.violation("%s:huge-bound:negative-penalty" % R, "F(%r) = %r" % (full, val), w)
                return
            if not sat and val < lam:
                ctx.violation("%s:huge-bound:violated-but-cheap" % R, "P=%r violates, F = %r < lam = %r at %r" % (int(v), val, lam, full), w)
                return
        if not sat:
            continue
        # a satisfying row: the slack has to absorb |P| (le/ge) or |P| - 1 (lt/gt) exactly
        need_options = [abs(int(v)), abs(int(v)) - 1, abs(int(v)) + 1]
        found = H.value(dict(asg, **{a: 0 for a in anc})) == 0
        for need in ([] if found else need_options):
            if need < 0:
                continue
            rest, pick = need, {a: 0 for a in anc}
            for a in sorted(anc, key=lambda a_: -wts[a_]):
                if wts[a] <= rest:
                    pick[a] = 1
                    rest -= wts[a]
            if rest == 0 and H.value(dict(asg, **pick)) == 0:
                found = True
                break
        ctx.count("huge-bound-satisfying-rows")
        if not found:
            total = sum(wts.values())
            if total < abs(int(v)) - 1:
                ctx.violation("%s:huge-bound:slack-cannot-reach-the-bound" % R, "P = %d satisfies the relation but the %d slack bits sum to %d only" % (int(v), len(anc), total), w)
            else:
                ctx.violation("%s:huge-bound:satisfied-but-penalised" % R, "P = %d satisfies the relation; no ancilla setting found by the greedy fill of the model's own slack weights %r gives penalty 0" % (int(v), sorted(wts.values())[-3:]), w)
            return
    if anc:
        ctx.cat("huge-bound:with-slack-bits")
    ctx.nontrivial(("huge", R, k, c, form, sorted(kw.items(), key=repr)))
