"""Random boolean expression operands for C06/C07: (library operand, python evaluator, description)."""
from .. import gen
from .. import lib as L

GATES = {"AND": lambda v: all(v), "OR": lambda v: any(v), "XOR": lambda v: sum(v) % 2 == 1,
         "NAND": lambda v: not all(v), "NOR": lambda v: not any(v), "XNOR": lambda v: sum(v) % 2 == 0}
ALL = list(GATES) + ["NOT", "BUFFER"]


def leaf(rng, labs, allow=("label", "var", "dict", "model")):
    l = rng.choice(labs)
    if rng.random() < 0.4:
        l = gen.fresh(l)         # equal to, but not the same object as, the label other leaves use
    how = rng.choice(allow)
    if how == "label":
        return l, (lambda x, l=l: x[l]), repr(l)
    if how == "var":
        return L.boolean_var(l), (lambda x, l=l: x[l]), "boolean_var(%r)" % (l,)
    if how == "dict" and len(labs) >= 3 and rng.random() < 0.35:
        # a plain product of three (or four) distinct variables, as a dict or through AND
        ls = rng.sample(labs, min(len(labs), rng.choice([3, 3, 4])))
        f = (lambda x, ls=tuple(ls): int(all(x[v] for v in ls)))
        if rng.random() < 0.5:
            return {tuple(ls): 1}, f, "{%s}" % "*".join(map(repr, ls))
        return L.sat.AND(*ls), f, "AND(%s)" % ", ".join(map(repr, ls))
    if how == "dict" and len(labs) >= 2 and rng.random() < 0.2:
        # a plain dict may spell one monomial under several keys (key order is free): x XOR y with the product written both ways
        l2 = rng.choice([x for x in labs if x != l] or [l])
        if l2 != l:
            return ({(l,): 1, (l2,): 1, (l, l2): -1, (l2, l): -1}, (lambda x, l=l, l2=l2: x[l] ^ x[l2]), "{%r xor %r, product spelled twice}" % (l, l2))
    if how == "dict":
        l2 = rng.choice(labs)
        if l2 == l:
            return {(l,): 1}, (lambda x, l=l: x[l]), "{(%r,):1}" % (l,)
        return {(l,): 1, (l, l2): -1}, (lambda x, l=l, l2=l2: x[l] * (1 - x[l2])), "{%r(1-%r)}" % (l, l2)
    if rng.random() < 0.4:
        # a named variable object that was edited in place (the name survives in-place edits)
        x = L.boolean_var(l)
        how2 = rng.choice(["not", "and-other", "times-one"])
        if how2 == "not":
            x *= -1
            x += 1
            return x, (lambda a, l=l: 1 - a[l]), "inplace{1-%r}" % (l,)
        if how2 == "and-other":
            l3 = rng.choice(labs)
            x *= {(l3,): 1}
            return x, (lambda a, l=l, l3=l3: a[l] * a[l3]), "inplace{%r*%r}" % (l, l3)
        x *= 1
        x[(l,)] = 0
        x[()] = 1
        return x, (lambda a: 1), "inplace{1}"
    l2 = rng.choice(labs)
    if rng.random() < 0.3:
        # a "clause object": a PCBO that RECORDS a logical constraint (weight 1): its value is 1 exactly where the clause fails
        how3 = rng.choice(["OR", "AND", "NOT", "NAND"])
        C_ = L.PCBO()
        if how3 == "NOT":
            C_.add_constraint_NOT(l)
            return C_, (lambda x, l=l: x[l]), "PCBO().add_constraint_NOT(%r)" % (l,)
        getattr(C_, "add_constraint_" + how3)(l, l2)
        f3 = {"OR": (lambda x, l=l, l2=l2: int(not (x[l] or x[l2]))), "AND": (lambda x, l=l, l2=l2: int(not (x[l] and x[l2]))),
              "NAND": (lambda x, l=l, l2=l2: int(bool(x[l] and x[l2])))}[how3]
        return C_, f3, "PCBO().add_constraint_%s(%r, %r)" % (how3, l, l2)
    T = rng.choice([L.PUBO, L.PCBO])
    return T({(l, l2): 1}), (lambda x, l=l, l2=l2: x[l] * x[l2]), "%s{%r*%r}" % (T.__name__, l, l2)


def expr(rng, labs, depth, max_arity=3, allow=("label", "var", "dict", "model")):
    """random sat expression: returns (library model/operand, evaluator, description)"""
    if depth == 0 or rng.random() < 0.45:
        return leaf(rng, labs, allow)
    g = rng.choice(ALL)
    lib = getattr(L.sat, g)
    if g in ("NOT", "BUFFER"):
        o, f, d = expr(rng, labs, depth - 1, max_arity, allow)
        return lib(o), ((lambda x, f=f: 1 - f(x)) if g == "NOT" else f), "%s(%s)" % (g, d)
    n = rng.randint(1, max_arity)
    subs = [expr(rng, labs, depth - 1, max_arity, allow) for _ in range(n)]
    return (lib(*[s[0] for s in subs]),
            (lambda x, g=g, subs=subs: int(GATES[g]([s[1](x) for s in subs]))),
            "%s(%s)" % (g, ", ".join(s[2] for s in subs)))


def gate_value(g, vals):
    if g == "NOT":
        return 1 - vals[0]
    if g == "BUFFER":
        return vals[0]
    return int(GATES[g](vals))
