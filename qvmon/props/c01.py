"""C01 -- degree reduction never undercuts the model and is exact on consistent ancillas.

Oracle A: full truth tables (n + ancillas <= 18) -- qvmon.oracles.reduction_oracle.
Oracle B: online trace checker over the H1 reduction certificate (any size).
"""
from fractions import Fraction as F

from .. import gen, oracles, ref
from .. import lib as L
from ..core import Expected

ID = "C01"
RULE = ("random refreshed PUBO/PUSO/PCBO/PCSO models (3-7 variables for the table oracle, 8-40 for the "
        "certificate checker; degree <= 6; labels from 6 pools; dyadic coefficients; shared pairs forced), "
        "mapping in insertion order or permuted with set_mapping; form in qubo/quso/pubo/puso, deg in 2..4, "
        "lam in {None, constant >= threshold, constant == threshold, constant below threshold, callable |v|, "
        "callable 2|v|+1}, optional pairs hints. Non-trivial = the produced form contains >= 1 ancilla; "
        "distinct = digest of (class, terms, mapping, form, deg, lam kind, pairs)"
        ' Also: enumerations chosen before the terms exist (set_mapping on the empty model), callable penalties of every kind, convert_solution with the spin flag omitted / contradicting a solution that is not all ones, rows where only ancillas differ from an all-ones model assignment, typed coefficients (Fraction, numpy, sympy), a second conversion after in-place edits.')
RULE += " Rounds 9-10: models with an earlier life over other labels then clear() (no refresh), siblings of a common ancestor that each grow by a variable of their own, accessor copies (mapping / reverse_mapping) edited by the caller before the conversion."
TIERS = {"quick": {"shards": 8, "cases": 500}, "thorough": {"shards": 16, "cases": 12000}}
FLOOR_BASE = {"quick": 230, "thorough": 6000}    # case counts the floors below were calibrated for; the launcher scales them
CLASSES = ["PUBO", "PUSO", "PCBO", "PCSO"]
FORMS = ["qubo", "quso", "pubo", "puso"]
LAMS = ["none", "const-big", "const-exact", "const-small", "call-abs", "call-2abs1", "call-partial", "call-object"]


def FLOORS(tier):
    q = tier == "quick"
    f = {"anc>=2": 200 if q else 5000, "reused-pair": 50 if q else 1000,
         "oracleA-checked": 600 if q else 20000, "oracleB-certificates": 150 if q else 3000,
         "permuted-mapping": 100, "mapping-preset-before-terms": 60, "second-look-after-zero-write-only": 25, "convert_solution-calls": 1000, "typed-coefficients": 60, "second-look-after-edit": 40}
    for c in CLASSES:
        for fo in FORMS:
            f["cell:%s:%s" % (c, fo)] = 10 if q else 300
    for lk in LAMS:
        f["lam:" + lk] = 40 if q else 1000
    return f

_FLOORS_BEFORE_ROUND9 = FLOORS


def FLOORS(tier):      # noqa: F811 -- floors of the input classes added in round 9 (a quarter of what seed 0 observes in the quick tier)
    f = _FLOORS_BEFORE_ROUND9(tier)
    f.update({'history:earlier-life-then-clear': 87, 'history:sibling-of-a-common-ancestor:add-empty': 33, 'history:sibling-of-a-common-ancestor:copy': 28})
    return f


GADGET_OK = None


def gadget_selfcheck():
    """3z + xy - 2z(x+y): 0 iff z == x*y, >= 1 otherwise (re-verified by the checker itself)."""
    global GADGET_OK
    if GADGET_OK is None:
        GADGET_OK = all(
            (3 * z + x * y - 2 * z * (x + y) == 0) == (z == x * y) and (3 * z + x * y - 2 * z * (x + y) >= (0 if z == x * y else 1))
            for x in (0, 1) for y in (0, 1) for z in (0, 1))
    return GADGET_OK


def make_model(rng, big=False):
    cname = rng.choice(CLASSES)
    T = getattr(L, cname)
    if big:
        n = rng.randint(8, 40)
        labs = (["v%d" % i for i in range(n)] if rng.random() < 0.5 else list(range(100, 100 + n)))
        rng.shuffle(labs)
    else:
        n = rng.randint(3, 7)
        labs = gen.labels(rng, min(n, 6))
        n = len(labs)
    maxdeg = min(n, rng.choice([3, 3, 4, 5, 6]))
    terms = {}
    nt = rng.randint(1, 6) if not big else rng.randint(4, 25)
    shared = tuple(rng.sample(labs, 2)) if n >= 3 and rng.random() < 0.6 else None
    for _ in range(nt):
        d = rng.randint(1, maxdeg)
        k = rng.sample(labs, d)
        if shared and d >= 3 and rng.random() < 0.7:
            k = list(shared) + [x for x in k if x not in shared][:d - 2]
        k = tuple(k)
        terms[k] = terms.get(k, 0) + rng.choice(gen.DYADIC)
    M = T()
    ctype = None
    if rng.random() < 0.15:
        # coefficient types other than int/float that behave like numbers (documented: "numeric")
        import numpy as np
        import sympy
        ctype = rng.choice(["Fraction", "numpy.int64", "numpy.float64", "numpy.float32", "sympy.Integer", "sympy.Rational"])
        conv = {"Fraction": F, "numpy.int64": lambda v: np.int64(round(v) or 1), "numpy.float64": np.float64,
                "numpy.float32": np.float32, "sympy.Integer": lambda v: sympy.Integer(round(v) or 1),
                "sympy.Rational": lambda v: sympy.Rational(F(v).numerator, F(v).denominator)}[ctype]
        terms = {k: conv(v) for k, v in terms.items()}
    preset = False
    if rng.random() < 0.15:
        # the enumeration is chosen first (set_mapping on the empty model), the terms are added afterwards
        used = []
        for k, v in terms.items():
            if v:
                used += [x for x in k if x not in used]
        if len(used) >= 2:
            perm = list(range(len(used)))
            rng.shuffle(perm)
            pairs_ = list(zip(used, perm))
            rng.shuffle(pairs_)
            if rng.random() < 0.5:
                given_ = dict(pairs_)
                M.set_mapping(given_)
            else:
                given_ = {i: v for v, i in pairs_}
                M.set_reverse_mapping(given_)
            if rng.random() < 0.5:
                given_.clear()              # the caller re-uses its dict (to enumerate another model, say)
                given_["__next_model__"] = 0
            preset = True
    earlier_life = False
    if not preset and not big and rng.random() < 0.12:
        # the object had an earlier life over other labels, then clear(): its bookkeeping starts afresh (no refresh() afterwards)
        for i_ in range(rng.randint(1, 4)):
            M[tuple("old%d" % j_ for j_ in range(i_, i_ + rng.randint(1, 3)))] += 2
        if rng.random() < 0.3:
            M *= 0
            M.clear()
        else:
            M.clear()
        earlier_life = True
    for k, v in terms.items():
        M[k] += v
    make_model.last_preset = preset
    make_model.last_history = "earlier-life-then-clear" if earlier_life else None
    if preset:
        if M.num_binary_variables == 0:
            raise Expected()
        make_model.last_ctype = ctype
        return cname, M, True
    if cname in ("PCBO", "PCSO") and not big and rng.random() < 0.4:
        # a model that carries a constraint (ancilla labels '__a*' become ordinary variables)
        P = {(rng.choice(labs),): 1, (rng.choice(labs),): 1, (): -1}
        getattr(M, "add_constraint_%s_zero" % rng.choice(["le", "eq", "ge"]))(P, lam=rng.choice([1, 2]))
    if not earlier_life or len(ref.from_raw(L.kind_of(T), dict(M)).vars()) != M.num_binary_variables:
        M.refresh()
    if M.num_binary_variables == 0:
        raise Expected()
    if not big and rng.random() < 0.12:
        # siblings derived from one ancestor by copy()/constructor/sum, each growing by a variable of its own; the first
        # copy is the one that is converted (bookkeeping after plain additions is exact: no refresh())
        how_ = rng.choice(["copy", "ctor", "add-empty"])
        mk_ = {"copy": lambda: M0_.copy(), "ctor": lambda: type(M0_)(M0_), "add-empty": lambda: M0_ + {}}[how_]
        M0_ = M
        l0_ = labs[0]
        n1_, n2_, n3_ = [gen.fresh_like(l0_, i_) for i_ in (1, 2, 3)]
        try:
            first_ = mk_()
            first_[(n1_,)] += 3
            M0_[(n2_,)] += -2
            second_ = mk_()
            second_[(n3_,)] += 5
            if how_ != "ctor" or cname not in ("PCBO", "PCSO"):
                M = first_
                make_model.last_history = "sibling-of-a-common-ancestor:" + how_
        except KeyError:
            pass
    permuted = False
    if rng.random() < 0.2:
        # a conversion on the same object before the relabelling below: nothing of it may be remembered
        try:
            getattr(M, rng.choice(["to_qubo", "to_quso"]))()
        except Exception:   # noqa -- reported by the monitored call later if it is real
            pass
    if rng.random() < 0.35:
        vs = list(M.mapping)
        perm = list(range(len(vs)))
        rng.shuffle(perm)
        if rng.random() < 0.5:
            given_ = {v: perm[i] for i, v in enumerate(vs)}
            M.set_mapping(given_)
        else:
            given_ = {perm[i]: v for i, v in enumerate(vs)}
            M.set_reverse_mapping(given_)
        if rng.random() < 0.5:
            given_.clear()                  # the caller re-uses its dict afterwards
        permuted = True
    make_model.last_ctype = ctype
    return cname, M, permuted


def bool_image(M):
    kind = L.kind_of(type(M))
    p = ref.from_raw(kind, dict(M))
    return p if kind == "bool" else p.to_bool()


def choose_lam(rng, M, want):
    lk = rng.choice(LAMS)
    img = bool_image(M)
    thr = max([abs(v) for k, v in img.d.items() if len(k) > want] or [F(1)])
    thr = float(thr)
    if lk == "none":
        return lk, None, True
    if lk == "const-big":
        return lk, thr * rng.choice([2, 10]) + 1, True
    if lk == "const-exact":
        return lk, thr, True
    if lk == "const-small":
        return lk, thr / 4, False
    if lk == "call-abs":
        return lk, (lambda v: abs(v)), True
    if lk == "call-partial":
        import functools
        return lk, functools.partial(_scaled_abs, 2), True        # any callable is a penalty function, not only def / lambda
    if lk == "call-object":
        return lk, _AbsPlus(1), True
    return lk, (lambda v: 2 * abs(v) + 1), True


def _scaled_abs(k, v):
    return k * abs(v)


class _AbsPlus:
    def __init__(self, c):
        self.c = c

    def __call__(self, v):
        return abs(v) + self.c


def check_certificate(ctx, M, P, cert, want, lam_sound, w):
    """Oracle B.  P is the boolean form (PUBOMatrix/QUBOMatrix) that carries `cert`."""
    if not gadget_selfcheck():
        raise AssertionError("gadget self-check failed")
    ctx.count("oracleB-certificates")
    n = M.num_binary_variables
    mp = M.mapping
    img = bool_image(M).relabel(mp)
    if cert["n"] != n:
        ctx.violation("cert:n-differs", "certificate n=%r, num_binary_variables=%r" % (cert["n"], n), w)
        return False
    src = ref.Poly("bool")
    total = ref.Poly("bool")
    reductions = {}
    used_anc = set()
    nsubs = 0
    reused = 0
    for t in cert["terms"]:
        key = tuple(t["key"])
        v = t["coef"]
        src.add(key, v)
        cur = set(key)
        if len(cur) != len(key):
            ctx.violation("cert:mapped-key-repeats", "mapped key %r" % (key,), w)
            return False
        for (x, y, z, fresh, lam) in t["subs"]:
            nsubs += 1
            if x not in cur or y not in cur or x == y:
                ctx.violation("cert:pair-not-in-key", "substitution (%r,%r) on key %r" % (x, y, sorted(cur)), w)
                return False
            pair = (x, y) if (x, y) in reductions or (y, x) not in reductions else (y, x)
            if fresh:
                # the property allows any label >= n that was not used before (contiguity is not demanded)
                if pair in reductions or z < n or z in used_anc:
                    ctx.violation("cert:ancilla-not-fresh", "pair %r got ancilla %r (already used: %r, known for this pair: %r)" % (
                        (x, y), z, sorted(used_anc), reductions.get(pair)), w)
                    return False
                reductions[(x, y)] = z
                used_anc.add(z)
            else:
                reused += 1
                if reductions.get(pair) != z:
                    ctx.violation("cert:reuse-wrong-ancilla", "pair %r reused with ancilla %r, recorded %r" % ((x, y), z, reductions.get(pair)), w)
                    return False
            if lam_sound and not (lam >= abs(v)):
                ctx.violation("cert:penalty-below-coefficient", "lam=%r < |v|=%r" % (lam, abs(v)), w)
                return False
            g = ref.Poly("bool", {(z,): 3, (x, y): 1, (z, x): -2, (z, y): -2})
            total = total + g.scale(lam)
            cur.discard(x)
            cur.discard(y)
            cur.add(z)
        if cur != set(t["final"]) or len(t["final"]) != len(cur):
            ctx.violation("cert:final-key-wrong", "final %r, substitutions give %r" % (t["final"], sorted(cur)), w)
            return False
        if len(cur) > want:
            ctx.violation("cert:final-key-too-long", "final key %r longer than %d" % (t["final"], want), w)
            return False
        total.add(tuple(cur), v)
    if src != img:
        ctx.violation("cert:mapped-model-differs", "sum of certificate terms is not the model's boolean image under its mapping", w)
        return False
    got = ref.from_raw("bool", dict(P))
    if got != total:
        ctx.violation("cert:identity-fails", "D != sum_terms [v*prod(final) + lam*sum gadgets] as polynomials", w)
        return False
    if reused:
        ctx.cat("reused-pair")
    ctx.count("oracleB-substitutions", nsubs)
    return True


def case(ctx, rng, idx):
    big = rng.random() < 0.25
    cname, M, permuted = make_model(rng, big)
    if make_model.last_preset:
        ctx.cat("mapping-preset-before-terms")
    if getattr(make_model, "last_history", None):
        ctx.cat("history:" + make_model.last_history)
    ok = check_once(ctx, rng, cname, M, permuted, big)
    if ok and not big and rng.random() < 0.3:
        # second look: the same object is edited in place and converted again -- nothing of the first conversion may linger
        ks = [k for k in M if len(k) >= 2]
        zero_only = False
        try:
            r_ = rng.random()
            # a term whose variables all occur elsewhere too: removing it leaves the bookkeeping exact without a refresh
            removable = [k for k in M if k and all(any(x in k2 for k2 in M if k2 != k) for x in k)]
            if removable and r_ < 0.35:
                kz = rng.choice(removable)
                if rng.random() < 0.5:
                    M[kz] = 0
                else:
                    M[kz] -= M[kz]
                zero_only = True
                ctx.cat("second-look-after-zero-write-only")
            elif ks and r_ < 0.7:
                M[rng.choice(ks)] *= rng.choice([-2, 0.5, 3])
            else:
                labs = list(M.mapping)
                M[tuple(rng.sample(labs, min(len(labs), rng.randint(3, 4))))] += rng.choice(gen.DYADIC)
        except KeyError:
            return
        if not zero_only:
            M.refresh()
        if M.num_binary_variables == 0:
            return
        ctx.cat("second-look-after-edit")
        check_once(ctx, rng, cname, M, False, False)


def check_once(ctx, rng, cname, M, permuted, big):
    form = rng.choice(FORMS)
    deg = rng.choice([2, 2, 3, 4])
    want = 2 if form in ("qubo", "quso") else deg
    lk, lam, sound = choose_lam(rng, M, want)
    pairs = None
    if rng.random() < 0.4:
        vs = list(M.mapping)
        cand = vs + ["nope", 9999]
        pairs = {tuple(rng.sample(cand, 2)) for _ in range(rng.randint(1, 3))}
        if rng.random() < 0.3:
            pairs |= {(b, a) for a, b in list(pairs)[:1]}        # the same pair in both orientations is a legitimate hint set
    w = {"class": cname, "terms": dict(M), "mapping": M.mapping, "form": form, "deg": deg,
         "lam": lk, "lam_value": None if callable(lam) else lam, "pairs": pairs}
    if rng.random() < 0.25:
        # the caller works with what the accessors handed out (documented as copies): renumbers one, empties the other
        t1_, t2_ = M.mapping, M.reverse_mapping
        for k_ in list(t1_):
            t1_[k_] = t1_[k_] + 1
        t2_.clear()
        ctx.cat("mapping-copies-edited-by-caller-before-conversion")
    snap = (dict(M), M.mapping)
    ok, D = ctx.call("to_" + form, oracles.call_form, M, form, deg, lam, pairs, _w=w)
    if not ok:
        return False
    if (dict(M), M.mapping) != snap:
        ctx.violation("model-mutated-by-to_" + form, "to_%s changed the model" % form, w)
        return False
    ctx.cat("cell:%s:%s" % (cname, form))
    ctx.cat("lam:" + lk)
    if permuted:
        ctx.cat("permuted-mapping")
    if getattr(make_model, "last_ctype", None):
        ctx.cat("coefficient-type:" + make_model.last_ctype)
        ctx.cat("typed-coefficients")
    nanc = None
    if not big:
        r = oracles.reduction_oracle(ctx, M, D, form, deg, sound, w, rng=rng)
        if r is None:
            return False
        if not r["skipped"]:
            ctx.count("oracleA-checked")
        nanc = r["anc"]
    # ---- Oracle B on the certificate-carrying boolean form ---------------------------
    bform = "qubo" if form in ("qubo", "quso") else "pubo"
    ok, P = ctx.call("to_" + bform, oracles.call_form, M, bform, deg, lam, pairs, _w=w)
    if not ok:
        return False
    cert = getattr(P, "_verif_reduction_certificate", None)
    if cert is None:
        ctx.cat("no-certificate")        # hook absent: Oracle B inconclusive (floor catches it)
    else:
        if not check_certificate(ctx, M, P, cert, want, sound, w):
            return False
        if nanc is None:
            nanc = len({s[2] for t in cert["terms"] for s in t["subs"]})
        if form != bform:
            # the spin form must be the same function as the certified boolean form
            got = ref.from_raw("spin", dict(D)).to_bool()
            if got == ref.from_raw("bool", dict(P)):
                ctx.count("oracleB-spin-form-certified")
            elif big:
                ctx.cat("uncertified-large-spin-form")
    if big:
        ctx.cat("large-model")
        labs = oracles.form_labels(D)
        n = M.num_binary_variables
        if oracles.true_degree(D) > want:
            ctx.violation("degree-too-high", "degree %d > %d" % (oracles.true_degree(D), want), w)
            return False
        if type(D).__name__ != oracles.FORM_TYPE[form]:
            ctx.violation("form-type", "to_%s returned %s" % (form, type(D).__name__), w)
            return False
    if nanc:
        ctx.nontrivial((cname, sorted(dict(M).items(), key=repr), sorted(M.mapping.items(), key=repr), form, deg, lk, repr(pairs)))
        if nanc >= 2:
            ctx.cat("anc>=2")
    ctx.sample({"class": cname, "terms": dict(M), "form": form, "deg": deg, "lam": lk, "ancillas": nanc,
                "form_terms": len(D)}, limit=3)
    return True
