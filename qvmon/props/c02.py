"""C02 -- PCBO comparison constraints become exact non-negative penalties."""
from . import _constraints as C

ID = "C02"
RULE = ("histories of 1-4 add_constraint_R_zero calls on one PCBO (optionally carrying an objective); P = integer "
        "boolean polynomial from 14 shape generators aimed at each branch of the comparison code (<= 5 variables, "
        "degree <= 3), R in six relations, lam in {.5,1,2,3}, log_trick both ways, bounds omitted / exact / widened / "
        "half-open (always a valid enclosure of the true range computed by the reference table), argument given as "
        "dict, reversed-key dict or PUBO. Penalty = exact polynomial difference after - before, checked on the full "
        "truth table over P's variables x new ancillas. Non-trivial = history containing a relation that is neither "
        "constant-true nor constant-false; distinct = digest of the history"
        ' Also: bounds as any valid enclosure (integer or fractional widening, one-sided, lists), log_trick spelled as int / numpy bool, caller edits of its own polynomial, interleaved validity queries,, identities of two-input gates and their near misses as polynomials, bounds of 50-70 bits (slack weights read off the model, exact integers), arguments passed positionally in the documented order, and between two constraints refresh / update(model) / += model / deepcopy / copy.copy / copy() / copy constructor.')
TIERS = {"quick": {"shards": 8, "cases": 2500}, "thorough": {"shards": 16, "cases": 30000}}
FLOOR_BASE = {"quick": 400, "thorough": 10000}    # case counts the floors below were calibrated for; the launcher scales them
KIND = "bool"


def FLOORS(tier):
    q = tier == "quick"
    f = {"multi-constraint-history": 200 if q else 5000, "exactness-checks": 2000 if q else 60000,
         "is_solution_valid-checks": 10000 if q else 300000, "delta-checks": 3000 if q else 10 ** 5,
         "ancillas:1-3": 300, "ancillas:>=4": 100, "caller-edits-its-polynomial-afterwards": 300, "interleaved-validity-checks": 1500, "bounds:widened-fractional": 150, "between-constraints:update-with-model": 40, "between-constraints:deepcopy": 40, "between-constraints:copy.copy": 40, "log_trick-spelled-as-int-or-numpy-bool": 150, "refresh-between-constraints": 150, "arguments-passed-positionally": 150, "huge-bound:with-slack-bits": 20, "huge-bound-satisfying-rows": 50}
    for R in C.RELS:
        for lt in ((True, False) if R != "eq" else ("n/a",)):
            f["rel:%s:log_trick=%s" % (R, lt)] = 100 if q else 3000
    for s in C.SHAPES:
        f["shape:" + s] = 20 if q else 600
    return f


def case(ctx, rng, idx):
    if rng.random() < 0.06:
        C.huge_bound_case(ctx, rng)
        return
    C.one_history(ctx, rng, KIND)
