"""C03 -- PCSO comparison constraints become exact non-negative penalties on spins."""
from . import _constraints as C

ID = "C03"
RULE = ("histories of 1-4 add_constraint_R_zero calls on one PCSO; H = integer-coefficient spin polynomial or the "
        "(integer-valued) spin image of one of the 14 boolean branch shapes, six relations, lam in {.5,1,2,3}, "
        "log_trick both ways, bounds omitted/exact/widened/half-open; penalty = exact difference after - before on "
        "the full {+1,-1} table over H's spins x new ancilla spins; ancilla names disjoint across the history and "
        "num_ancillas >= ancillas present after every call. Non-trivial / distinct as in C02"
        ' Also: bounds as any valid enclosure (integer or fractional widening, one-sided, lists), log_trick spelled as int / numpy bool, caller edits of its own polynomial, interleaved validity queries, and between two constraints refresh / update(model) / += model / deepcopy / copy.copy / copy() / copy constructor.')
TIERS = {"quick": {"shards": 8, "cases": 800}, "thorough": {"shards": 16, "cases": 15000}}
FLOOR_BASE = {"quick": 400, "thorough": 10000}    # case counts the floors below were calibrated for; the launcher scales them
KIND = "spin"


def FLOORS(tier):
    q = tier == "quick"
    f = {"multi-constraint-history": 200 if q else 5000, "exactness-checks": 2000 if q else 60000,
         "is_solution_valid-checks": 10000 if q else 300000, "delta-checks": 3000 if q else 10 ** 5,
         "ancillas:1-3": 300, "ancillas:>=4": 100, "caller-edits-its-polynomial-afterwards": 300, "interleaved-validity-checks": 1500, "bounds:widened-fractional": 150, "between-constraints:update-with-model": 40, "between-constraints:deepcopy": 40, "between-constraints:copy.copy": 40, "log_trick-spelled-as-int-or-numpy-bool": 150, "refresh-between-constraints": 150, "arguments-passed-positionally": 150, "multi-constraint-step": 400}
    for R in C.RELS:
        for lt in ((True, False) if R != "eq" else ("n/a",)):
            f["rel:%s:log_trick=%s" % (R, lt)] = 100 if q else 3000
    for s in C.SHAPES:
        f["shape:" + s] = 20 if q else 600
    return f


def case(ctx, rng, idx):
    C.one_history(ctx, rng, KIND)
