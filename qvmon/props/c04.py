"""C04 -- boolean/spin conversions, enumerations and exports preserve the function."""
import numpy as np

from .. import core, gen, oracles, ref
from .. import lib as L
from ..ref import Poly, frac

ID = "C04"
RULE = ("(A) the four free conversion functions on raw dicts (unsorted / repeated labels) and all model types of the "
        "source kind; (B) to_pubo/to_puso/to_qubo/to_quso/to_enumerated on the six labelled types where no degree "
        "reduction is needed, followed by convert_solution on dict/list/tuple solutions in boolean and spin form "
        "(explicit spin flag; all-ones included); (C) exports Q, h/J, matrix_to_qubo, qubo_to_matrix(symmetric, "
        "array). Dyadic coefficients compared exactly as multilinear polynomials; a real-coefficient sub-class is "
        "compared with tolerance 1e-9*sum|coef|. Non-trivial = source with >= 2 terms and >= 2 variables; "
        "distinct = digest of (function, source type, source terms)"
        " Also: objects with an earlier life (clear() or *= 0, then refilled), long raw spellings of monomials (repeated boolean labels, inserted spin pairs), matrix_to_qubo on matrices in tiny units and nearly symmetric ones, every calling form of set_mapping, terms added after a user mapping, spin flag independent of the solution's form, second call after the caller edited the first result, labelled sources with a cancelled variable given to the conversion functions and the result used as a model of its own (mapping, exports, convert_solution), solutions longer than the model, boolean and small-integer matrices.")
RULE += " Rounds 9-10: a top-degree term that comes and goes in place while a sibling of the same degree stays (export without deg), dict solutions in shuffled insertion order, accessor copies edited by the caller before the export."
TIERS = {"quick": {"shards": 8, "cases": 6000}, "thorough": {"shards": 16, "cases": 50000}}
FLOOR_BASE = {"quick": 500, "thorough": 20000}    # case counts the floors below were calibrated for; the launcher scales them
FREE = {"pubo_to_puso": ("bool", False), "puso_to_pubo": ("spin", False),
        "qubo_to_quso": ("bool", True), "quso_to_qubo": ("spin", True)}
SRC = {"bool": ["dict", "QUBO", "PUBO", "PCBO", "QUBOMatrix", "PUBOMatrix"],
       "spin": ["dict", "QUSO", "PUSO", "PCSO", "QUSOMatrix", "PUSOMatrix"]}
MATCH = {"pubo_to_puso": ("PUBOMatrix", "PUSOMatrix", "PUSO"), "puso_to_pubo": ("PUSOMatrix", "PUBOMatrix", "PUBO"),
         "qubo_to_quso": ("QUBOMatrix", "QUSOMatrix", "QUSO"), "quso_to_qubo": ("QUSOMatrix", "QUBOMatrix", "QUBO")}
LABELLED = ["QUBO", "QUSO", "PUBO", "PUSO", "PCBO", "PCSO"]


def FLOORS(tier):
    q = tier == "quick"
    f = {"convert_solution-checks": 3000 if q else 10 ** 5, "export:Q": 60, "export:hJ": 60,
         "export:matrix_to_qubo": 60, "export:qubo_to_matrix": 100, "real-coefficients": 100,
         "raw-repeated-labels": 50, "raw-long-spellings": 100, "cleared-and-refilled": 200, "user-mapping:one-shot-iterator": 40, "convert_solution:numpy-scalar-entries": 300, "derived-from-common-ancestor": 100, "matrix_to_qubo:tiny-units": 10, "matrix_to_qubo:nearly-symmetric": 10, "all-ones-solution": 30, "matrix_to_qubo:narrow-dtype": 25, "free:stale-labelled-source": 200, "free:result-used-as-a-model": 300, "convert_solution:longer-than-the-model": 2500, "user-mapping:set_mapping": 60, "user-mapping:set_reverse_mapping": 60,
         "export-before-relabelling": 80, "term-added-after-user-mapping": 40,
         "second-call-after-result-edited": 300, "convert_solution:flag-independent-of-form": 300,
         "user-mapping:positional+keywords": 10}
    for fn, (kind, d2) in FREE.items():
        for t in SRC[kind]:
            if d2 and t in ("PUBO", "PCBO", "PUSO", "PCSO", "PUBOMatrix", "PUSOMatrix"):
                continue
            f["free:%s:%s" % (fn, t)] = 20 if q else 800
    for t in LABELLED:
        for fo in ("qubo", "quso", "pubo", "puso", "enum"):
            f["method:%s:%s" % (t, fo)] = 15 if q else 500
    return f

_FLOORS_BEFORE_ROUND9 = FLOORS


def FLOORS(tier):      # noqa: F811 -- floors of the input classes added in round 9 (a quarter of what seed 0 observes in the quick tier)
    f = _FLOORS_BEFORE_ROUND9(tier)
    f.update({'tied-top-degree-term-cancelled': 7})
    return f


def basis(p, target_kind):
    if p.kind == target_kind:
        return p
    return p.to_spin() if target_kind == "spin" else p.to_bool()


def same(ctx, got, exp, real):
    if not real:
        return got == exp
    tol = 1e-9 * float(max(exp.sumabs(), 1))
    return got.close_to(exp, tol)


def case_free(ctx, rng):
    fn = rng.choice(list(FREE))
    kind, d2 = FREE[fn]
    tn = rng.choice([t for t in SRC[kind] if not (d2 and t in ("PUBO", "PCBO", "PUSO", "PCSO", "PUBOMatrix", "PUSOMatrix"))])
    real = rng.random() < 0.12
    coefs = [rng.uniform(-5, 5) for _ in range(6)] if real else gen.DYADIC
    mat = tn.endswith("Matrix")
    labs = gen.labels(rng, rng.randint(1, 5), matrix=mat or (tn == "dict" and rng.random() < 0.4))
    maxd = 2 if (d2 or tn in ("QUBO", "QUSO", "QUBOMatrix", "QUSOMatrix")) else rng.choice([2, 3, 4, 5])
    raw = tn == "dict" and rng.random() < 0.6
    terms = gen.rand_terms(rng, labs, maxd, coefs=coefs, raw=raw, lo=0, hi=6)
    if raw and rng.random() < 0.4:
        # longer spellings of the same monomials: a label repeated (boolean x*x = x), a pair of equal spins inserted (z*z = 1)
        t2 = {}
        for k, v in terms.items():
            k = list(k)
            if kind == "bool" and k:
                k.append(rng.choice(k))
            elif kind == "spin":
                y = rng.choice(labs)
                k += [y, y]
            rng.shuffle(k)
            t2.setdefault(tuple(k), v)
        terms = t2
        ctx.cat("raw-long-spellings")
    if raw and any(len(set(k)) < len(k) for k in terms):
        ctx.cat("raw-repeated-labels")
    src = ref.from_raw(kind, terms)
    if d2 and src.degree() > 2:
        return
    if d2 and raw and kind == "bool" and any(len(set(k)) > 2 for k in terms):
        return
    if d2 and raw and kind == "spin" and any(len({x for x in k if k.count(x) % 2}) > 2 for k in terms):
        return
    m = dict(terms) if tn == "dict" else gen.model_of(getattr(L, tn), terms)
    stale_src = False
    if tn != "dict" and not mat and rng.random() < 0.3:
        # a labelled source with a history: a variable registered first (or in the middle) and cancelled since, not refreshed
        m = getattr(L, tn)()
        gone = "gone_var" if all(isinstance(x, str) for x in labs) else (("gone", 0) if not all(isinstance(x, int) for x in labs) else max(labs) + 3)
        items_ = list(terms.items())
        cut = rng.randint(0, max(0, len(items_) - 1))
        try:
            for k_, v_ in items_[:cut]:
                m[k_] += v_
            m[(gone,)] += 2
            for k_, v_ in items_[cut:]:
                m[k_] += v_
            if rng.random() < 0.5:
                m[(gone,)] -= 2
            else:
                m[(gone,)] = 0
            stale_src = True
            ctx.cat("free:stale-labelled-source")
        except KeyError:
            m = gen.model_of(getattr(L, tn), terms)
    w = {"function": fn, "source_type": tn, "terms": terms, "stale_source": stale_src}
    snap = dict(m)
    ok, r = ctx.call(fn, getattr(L.utils, fn), m, _w=w)
    if not ok:
        return
    ctx.cat("free:%s:%s" % (fn, tn))
    if real:
        ctx.cat("real-coefficients")
    if dict(m) != snap:
        ctx.violation("%s:source-mutated" % fn, "conversion changed its argument", w)
        return
    tk = "spin" if kind == "bool" else "bool"
    got = ref.from_raw(tk, dict(r))
    exp = basis(src, tk)
    if not same(ctx, got, exp, real):
        ctx.violation("%s:function-changed" % fn, "result %r, expected %r" % (got.show(), exp.show()), w)
        return
    mt = MATCH[fn]
    rt = type(r).__name__
    if tn == mt[0]:
        if rt != mt[1]:
            ctx.violation("%s:result-type" % fn, "%s in -> %s out (documented %s)" % (tn, rt, mt[1]), w)
            return
    elif tn == "dict" or not mat:
        if rt != mt[2]:
            ctx.violation("%s:result-type" % fn, "%s in -> %s out (documented %s)" % (tn, rt, mt[2]), w)
            return
    elif rt not in (mt[1], mt[2]):
        ctx.violation("%s:result-type" % fn, "%s in -> %s out" % (tn, rt), w)
        return
    for k, v in r.items():
        if not v or k != type(r).squash_key(k):
            ctx.violation("%s:non-canonical" % fn, "stored %r: %r" % (k, v), w)
            return
    if len(src.d) >= 2 and len(src.vars()) >= 2:
        ctx.nontrivial((fn, tn, sorted(terms.items(), key=repr)))
    ctx.sample({"function": fn, "source_type": tn, "terms": terms, "result": dict(r)}, limit=2)
    if hasattr(r, "mapping") and tn != "dict" and not mat and not real and rng.random() < 0.5:
        # the result is a model in its own right: its enumeration, exports and convert_solution must work like those of
        # a model built from its terms
        ctx.cat("free:result-used-as-a-model")
        mpn = r.mapping
        if {v: k for k, v in mpn.items()} != r.reverse_mapping or set(mpn.values()) != set(range(len(mpn))):
            ctx.violation("%s:result-mapping-not-a-bijection-onto-range" % fn, "result mapping %r / reverse_mapping %r" % (mpn, r.reverse_mapping), w)
            return
        check_exports(ctx, rng, r, type(r).__name__, tk)
        return
    if rng.random() < 0.3:
        # the caller edits what it got back and converts the same source again: the second result must be as good as the first
        first = dict(r)
        core.scribble(r)
        ok, r2 = ctx.call(fn, getattr(L.utils, fn), m, _w=w)
        ctx.count("second-call-after-result-edited")
        if ok and (dict(r2) != first or r2 is r):
            ctx.violation("%s:second-call-differs" % fn, "after the first result was edited, converting the same source again gives %r (first: %r)" % (dict(r2), first), w)


def case_method(ctx, rng):
    tn = rng.choice(LABELLED)
    T = getattr(L, tn)
    kind = L.kind_of(T)
    d2 = L.is_deg2(T)
    labs = gen.labels(rng, rng.randint(1, 5))
    maxd = 2 if d2 else rng.choice([2, 2, 3, 5])
    terms = gen.rand_terms(rng, labs, maxd, lo=0, hi=6, raw=rng.random() < 0.2)
    M = gen.model_of(T, terms)
    if rng.random() < 0.2:
        # the object had an earlier life: other terms over other labels, then clear() (or a product with 0), then the terms above
        old = gen.labels(rng, rng.randint(1, 4)) + ["old_a", "old_b"]
        M = gen.model_of(T, gen.rand_terms(rng, old, maxd, lo=1, hi=4))
        how = rng.choice(["clear", "clear", "imul0"])
        try:
            if how == "clear":
                M.clear()
            else:
                M *= 0
            for k, v in terms.items():
                M[k] += v
        except KeyError:
            return
        ctx.cat("cleared-and-refilled")
    derived = False
    if rng.random() < 0.15 and all(isinstance(x, (str, int)) and not isinstance(x, bool) for x in labs):
        # two models derived from one ancestor by copying arithmetic, each growing by a label of its own; the second is the
        # one that is exported
        new1, new2 = (("sib_a", "sib_b") if all(isinstance(x, str) for x in labs) else
                      ((max(labs) + 5, max(labs) + 9) if all(isinstance(x, int) for x in labs) else (None, None)))
        if new1 is not None:
            try:
                sib_ = M - {(new1,): 1}
                M = M + {(new2,): 2} if rng.random() < 0.5 else M + {(new2,): 2, (new2, new1): 1}
                derived = True
                ctx.cat("derived-from-common-ancestor")
            except KeyError:
                pass
    tied = False
    if not d2 and not derived and rng.random() < 0.2:
        # a term of the model's highest degree comes and goes (in place) while a sibling of the same degree stays: the stored
        # degree may not fall below the terms that remain (no refresh afterwards: exports decide by it whether to reduce)
        tops = [k for k in M if len(k) >= 3 and len(k) == max(len(x) for x in M)]
        if tops and len(labs) >= len(tops[0]):
            k0 = tops[0]
            sib = tuple(gen.sort_labels(rng.sample(labs, len(k0))))
            try:
                if tuple(M.squash_key(sib)) not in M and len(M.squash_key(sib)) == len(k0):
                    M[sib] += 3
                    victim = rng.choice([sib, k0])
                    how_ = rng.choice(["isub-own", "set0", "isub-dict"])
                    if how_ == "isub-own":
                        M[victim] -= M[victim]
                    elif how_ == "set0":
                        M[victim] = 0
                    else:
                        M -= {victim: M[victim]}
                    tied = True
                    ctx.cat("tied-top-degree-term-cancelled")
            except (KeyError, TypeError):
                pass
    if rng.random() < 0.7 and not derived and not tied:
        M.refresh()
    if rng.random() < 0.25 and M.num_binary_variables:
        # an earlier export on the same object, before the relabelling below (results must not be remembered)
        pre = rng.choice(["qubo", "pubo", "quso", "puso"])
        if ref.from_raw(kind, dict(M)).degree() <= 2 or pre in ("pubo", "puso"):
            ctx.call("to_" + pre, getattr(M, "to_" + pre), _w={"type": tn, "terms": dict(M)})
            ctx.cat("export-before-relabelling")
    if rng.random() < 0.4 and M.num_binary_variables:
        vs = list(M.mapping)
        perm = list(range(len(vs)))
        rng.shuffle(perm)
        if rng.random() < 0.5:
            mp_ = {v: perm[i] for i, v in enumerate(vs)}
            strs = [v for v in vs if isinstance(v, str) and v.isidentifier()]
            style = rng.choice(["dict", "pairs", "positional+keywords", "keywords", "zip", "items-iterator"])
            if style == "zip":
                M.set_mapping(zip(list(mp_), list(mp_.values())))         # dict(*args): any iterable of pairs, one-shot ones included
                ctx.cat("user-mapping:one-shot-iterator")
            elif style == "items-iterator":
                M.set_mapping(iter(list(mp_.items())))
                ctx.cat("user-mapping:one-shot-iterator")
            elif style == "dict" or (style != "pairs" and not strs):
                M.set_mapping(mp_)
            elif style == "pairs":
                M.set_mapping(list(mp_.items()))
            elif style == "keywords" and len(strs) == len(vs):
                M.set_mapping(**mp_)
            else:
                # documented as dict(*args, **kwargs): one positional mapping plus keyword entries in the same call
                kw_ = {v: mp_[v] for v in strs[:max(1, len(strs) // 2)]}
                pos_ = {v: i for v, i in mp_.items() if v not in kw_}
                M.set_mapping(pos_, **kw_)
                ctx.cat("user-mapping:positional+keywords")
            ctx.cat("user-mapping:set_mapping")
        else:
            rm_ = {perm[i]: v for i, v in enumerate(vs)}
            if rng.random() < 0.3:
                M.set_reverse_mapping(iter(list(rm_.items())))
                ctx.cat("user-mapping:one-shot-iterator")
            else:
                M.set_reverse_mapping(rm_)
            ctx.cat("user-mapping:set_reverse_mapping")
        if rng.random() < 0.4:
            # the model keeps growing after the user mapping: a new label must get the next free integer
            if all(isinstance(x, int) for x in vs):
                newlab, pair_ok = max(vs) + 17, True
            elif all(isinstance(x, str) for x in vs):
                newlab, pair_ok = "zz_fresh", True
            else:
                newlab, pair_ok = ("fresh", len(vs)), False      # mixed label types: labels of one key must be orderable
            try:
                M[(newlab,)] += rng.choice(gen.DYADIC)
                if maxd >= 2 and pair_ok:
                    M[(newlab, vs[0])] += rng.choice(gen.DYADIC)
                ctx.cat("term-added-after-user-mapping")
            except KeyError:
                pass
        mpn = M.mapping
        if {v: k for k, v in mpn.items()} != M.reverse_mapping or len(set(mpn.values())) != len(mpn) or \
                set(mpn.values()) != set(range(len(mpn))):
            ctx.violation("set_mapping:mapping-not-a-bijection-onto-range", "after a user mapping (and later edits), mapping %r / reverse_mapping %r" % (mpn, M.reverse_mapping),
                          {"type": tn, "terms": dict(M)})
            return
    check_exports(ctx, rng, M, tn, kind)


def check_exports(ctx, rng, M, tn, kind):
    """M is a labelled model object: one export of it is the same function under M.mapping, and convert_solution
    carries solutions of the export back to assignments of M with the same value"""
    src = ref.from_raw(kind, dict(M))
    if rng.random() < 0.3:
        # the caller uses what the accessors handed out (documented as copies): joins it with another table, renumbers it, empties it
        for tab_ in (M.mapping, M.reverse_mapping):
            how_ = rng.choice(["clear", "shift", "pop-one"])
            try:
                if how_ == "clear":
                    tab_.clear()
                elif how_ == "shift":
                    for k_ in list(tab_):
                        tab_[k_] = ("moved", k_)
                elif tab_:
                    tab_.pop(next(iter(tab_)))
            except Exception:   # noqa
                pass
        ctx.cat("mapping-copies-edited-by-caller-before-export")
    forms = ["qubo", "quso", "pubo", "puso", "enum"] if src.degree() <= 2 else \
        [("pubo" if True else ""), "puso", "enum"]
    form = rng.choice(forms)
    w = {"type": tn, "terms": dict(M), "mapping": M.mapping, "form": form}
    if form == "enum":
        ok, D = ctx.call("to_enumerated", M.to_enumerated, _w=w)
        dform = {"QUBO": "qubo", "QUSO": "quso"}.get(tn, "puso" if kind == "spin" else "pubo")
    else:
        ok, D = ctx.call("to_" + form, getattr(M, "to_" + form), _w=w)
        dform = form
    if not ok:
        return
    ctx.cat("method:%s:%s" % (tn, form))
    if rng.random() < 0.25:
        first = dict(D)
        core.scribble(D)
        ok, D = ctx.call("to_" + form, getattr(M, "to_" + form if form != "enum" else "to_enumerated"), _w=w)
        ctx.count("second-call-after-result-edited")
        if not ok:
            return
        if dict(D) != first:
            ctx.violation("to_%s:second-call-differs" % form, "after the first result was edited, the same export gives %r (first: %r)" % (dict(D), first), w)
            return
    dk = "spin" if dform in ("quso", "puso") else "bool"
    if type(D).__name__ != oracles.FORM_TYPE[dform]:
        ctx.violation("to_%s:result-type" % form, "%s.to_%s returned %s" % (tn, form, type(D).__name__), w)
        return
    mp = M.mapping
    exp = basis(src, dk).relabel(mp)
    got = ref.from_raw(dk, dict(D))
    if got != exp:
        ctx.violation("to_%s:function-changed" % form, "got %r expected %r" % (got.show(), exp.show()), w)
        return
    # ---- convert_solution ---------------------------------------------------------------
    n = M.num_binary_variables
    for t in range(4):
        bits = [rng.choice((0, 1)) for _ in range(n)]
        if t == 0:
            bits = [0] * n          # boolean all zeros == spin all ones
            ctx.cat("all-ones-solution")
        if t == 1:
            bits = [1] * n          # boolean all ones
            ctx.cat("all-ones-solution")
        for sform in ("bool", "spin"):
            s = [1 - 2 * b for b in bits] if sform == "spin" else list(bits)
            cont = rng.choice(["list", "tuple", "dict"])
            if rng.random() < 0.15:
                # a solution that comes out of numpy (np.unpackbits, an int8 spin array): same numbers, numpy scalar types
                ty_ = rng.choice([np.uint8, np.int64, np.uint64] if sform == "bool" else [np.int8, np.int64])
                s = [ty_(v) for v in s]
                ctx.cat("convert_solution:numpy-scalar-entries")
            if rng.random() < 0.2:
                # a solution with more entries than the model has variables (e.g. of a larger model that embeds this one):
                # the extra entries are ignored as values, but they are part of what tells the solution's form
                s = s + [rng.choice((1, -1) if sform == "spin" else (0, 1)) for _ in range(rng.randint(1, 2))]
                ctx.cat("convert_solution:longer-than-the-model")
            sol = s if cont == "list" else (tuple(s) if cont == "tuple" else dict(enumerate(s)))
            if cont == "dict" and len(s) >= 2 and rng.random() < 0.5:
                # a dict is read by key, whatever order its items were inserted in
                items_ = list(enumerate(s))
                rng.shuffle(items_)
                sol = dict(items_)
                ctx.cat("convert_solution:dict-in-shuffled-insertion-order")
            flag = sform == "spin"
            if any(v in (0, -1) for v in s) and rng.random() < 0.3:
                # documented: the flag only matters for an all-ones solution; otherwise the solution tells its own form
                flag = rng.choice([True, False])
                ctx.cat("convert_solution:flag-independent-of-form")
            ok, x = ctx.call("convert_solution", M.convert_solution, sol, spin=flag, _w=w) if rng.random() < 0.8 or not any(v in (0, -1) for v in s) \
                else ctx.call("convert_solution", M.convert_solution, sol, _w=w)
            ctx.count("convert_solution-checks")
            if not ok:
                return
            dvals = [1 - 2 * b for b in bits] if dk == "spin" else list(bits)
            dval = got.value(dict(enumerate(dvals)))
            okv = (1, -1) if kind == "spin" else (0, 1)
            if set(x) != set(mp) or any(v not in okv for v in x.values()):
                ctx.violation("convert_solution:malformed", "convert_solution(%r, spin=%s) = %r" % (sol, sform == "spin", x), w)
                return
            if frac(M.value(x)) != dval:
                ctx.violation("convert_solution:wrong-%s-%s" % (cont, sform), "M.value(convert_solution(%r, spin=%s)) = %r but enumerated value %r" % (
                    sol, sform == "spin", M.value(x), dval), w)
                return
    if len(src.d) >= 2 and len(src.vars()) >= 2:
        ctx.nontrivial(("method", tn, form, sorted(dict(M).items(), key=repr), sorted(mp.items(), key=repr)))


def case_export(ctx, rng):
    which = rng.choice(["Q", "hJ", "matrix_to_qubo", "qubo_to_matrix", "qubo_to_matrix"])
    ctx.cat("export:" + which)
    if which in ("Q", "hJ"):
        kind = "bool" if which == "Q" else "spin"
        tn = rng.choice(["QUBO", "QUBOMatrix"] if which == "Q" else ["QUSO", "QUSOMatrix"])
        T = getattr(L, tn)
        labs = gen.labels(rng, rng.randint(1, 5), matrix=tn.endswith("Matrix"))
        terms = gen.rand_terms(rng, labs, 2, lo=0, hi=6)
        M = gen.model_of(T, terms)
        src = ref.from_raw(kind, dict(M))
        w = {"export": which, "type": tn, "terms": dict(M)}
        if which == "Q":
            ok, Q = ctx.call("Q", lambda: M.Q, _w=w)
            if not ok:
                return
            p = Poly("bool", {(): M.offset})
            for k, v in Q.items():
                if not (isinstance(k, tuple) and len(k) == 2):
                    ctx.violation("Q:key-shape", "Q has key %r" % (k,), w)
                    return
                p.add(k, v)
        else:
            ok, hj = ctx.call("h/J", lambda: (M.h, M.J), _w=w)
            if not ok:
                return
            h, J = hj
            p = Poly("spin", {(): M.offset})
            for k, v in h.items():
                p.add((k,), v)
            for k, v in J.items():
                if not (isinstance(k, tuple) and len(k) == 2):
                    ctx.violation("J:key-shape", "J has key %r" % (k,), w)
                    return
                p.add(k, v)
        if p != src:
            ctx.violation("%s:function-changed" % which, "export gives %r, model is %r" % (p.show(), src.show()), w)
            return
        if len(src.d) >= 2:
            ctx.nontrivial((which, tn, sorted(dict(M).items(), key=repr)))
        return
    if which == "matrix_to_qubo":
        n = rng.randint(1, 5)
        mat = [[rng.choice([0, 0, 1, -2, 0.5, 3]) for _ in range(n)] for _ in range(n)]
        style = rng.choice(["plain", "plain", "tiny-units", "nearly-symmetric", "narrow-dtype"])
        if style == "narrow-dtype":
            # an adjacency / small-integer matrix: booleans (True is the number 1) or int8 / uint8 entries whose pair sums fit
            # (int8 / uint8 arrays whose sums leave the dtype wrap on the unchanged tree as numpy arithmetic does; not demanded)
            ty_ = rng.choice([bool, bool, np.int8, np.uint8])
            if ty_ is bool:
                mat = [[rng.random() < 0.6 for _ in range(n)] for _ in range(n)]
            else:
                mat = [[int(rng.choice([0, 10, 30, 63, 1])) for _ in range(n)] for _ in range(n)]
        if style == "tiny-units":
            # the same kind of matrix in small units (all entries ~1e-9): nothing about it is "approximately symmetric"
            mat = [[v * 1e-9 for v in row] for row in mat]
        elif style == "nearly-symmetric":
            mat = [[float(rng.choice([1, -2, 0.5, 3, 7])) for _ in range(n)] for _ in range(n)]
            for i in range(n):
                for j in range(i):
                    mat[i][j] = mat[j][i] * (1 + rng.choice([1e-6, -3e-6, 1e-7, 0]))
        ctx.cat("matrix_to_qubo:" + style)
        arg = np.array(mat) if rng.random() < 0.5 else mat
        if style == "narrow-dtype":
            arg = np.array(mat, dtype=ty_) if rng.random() < 0.6 else mat
            mat = [[int(v) for v in row] for row in mat]
        w = {"export": which, "matrix": mat}
        ok, Q = ctx.call(which, L.utils.matrix_to_qubo, arg, _w=w)
        if not ok:
            return
        exp = Poly("bool")
        for i in range(n):
            for j in range(n):
                exp.add((i, j), mat[i][j])
        scale_ = max([abs(v) for row in mat for v in row] + [0])
        if type(Q).__name__ != "QUBOMatrix" or not ref.from_raw("bool", dict(Q)).close_to(exp, 1e-12 * scale_):
            ctx.violation("matrix_to_qubo:function-changed", "x^T M x = %r but result %r" % (exp.show(), dict(Q)), w)
            return
        ctx.nontrivial((which, mat))
        return
    # qubo_to_matrix
    tn = rng.choice(["dict", "QUBOMatrix", "QUBO"])
    labs = gen.labels(rng, rng.randint(1, 5), matrix=True)
    terms = {k: v for k, v in gen.rand_terms(rng, labs, 2, lo=1, hi=6).items() if k}
    if not terms:
        terms = {(labs[0],): 1}
    if tn == "QUBO":
        # a QUBO whose labels are 0..n-1
        terms = {tuple(sorted(set(k))): v for k, v in terms.items()}
    Q = dict(terms) if tn == "dict" else gen.model_of(getattr(L, tn if tn != "QUBO" else "QUBOMatrix"), terms)
    src = ref.from_raw("bool", dict(Q))
    if not src.d:
        return
    sym, arr = rng.random() < 0.5, rng.random() < 0.5
    w = {"export": which, "type": tn, "terms": dict(Q), "symmetric": sym, "array": arr}
    snap = dict(Q)
    ok, M = ctx.call(which, L.utils.qubo_to_matrix, Q, symmetric=sym, array=arr, _w=w)
    if not ok:
        return
    if dict(Q) != snap:
        ctx.violation("qubo_to_matrix:source-mutated", "argument changed", w)
        return
    if arr != isinstance(M, np.ndarray):
        ctx.violation("qubo_to_matrix:container", "array=%s returned %s" % (arr, type(M).__name__), w)
        return
    A = np.array(M)
    n = max(src.vars()) + 1
    # (a model whose bookkeeping is an upper bound may report a larger max_index: a larger matrix is still the same function)
    if A.ndim != 2 or A.shape[0] != A.shape[1] or A.shape[0] < n:
        ctx.violation("qubo_to_matrix:shape", "shape %r for max index %d" % (A.shape, n - 1), w)
        return
    n = A.shape[0]
    exp = Poly("bool")
    for i in range(n):
        for j in range(n):
            exp.add((i, j), float(A[i][j]))
    if exp != src:
        ctx.violation("qubo_to_matrix:function-changed", "x^T M x = %r, Q = %r" % (exp.show(), src.show()), w)
        return
    if sym and not (A == A.T).all():
        ctx.violation("qubo_to_matrix:not-symmetric", "symmetric=True but M != M^T", w)
        return
    if not sym and np.tril(A, -1).any():
        ctx.violation("qubo_to_matrix:not-upper-triangular", "symmetric=False but lower triangle is non-zero", w)
        return
    ctx.nontrivial((which, tn, sorted(dict(Q).items()), sym, arr))


def case(ctx, rng, idx):
    r = rng.random()
    if r < 0.45:
        case_free(ctx, rng)
    elif r < 0.85:
        case_method(ctx, rng)
    else:
        case_export(ctx, rng)
