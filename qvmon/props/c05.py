"""C05 -- model arithmetic and evaluation agree with polynomial arithmetic.

Lock-step differential monitor: random expression programs over a pool of models of
the ten types, raw dicts and numbers; every operator application is compared with
exact polynomial arithmetic (qvmon.ref) on the operand snapshots."""
import operator

from .. import gen, ref
from .. import lib as L
from ..ref import Poly, frac

ID = "C05"
RULE = ("random expression programs (3-8 operator applications) over a pool of models of one kind drawn from the "
        "five model types of that kind, raw dicts (unsorted/repeated labels) and numbers; operators + - * ** / "
        "unary -/+ with reflected and in-place forms, aliased operands (a op= a), scalars 0 and -1, exponents 1-5, "
        "division by powers of two; labels from 6 pools (ints with gaps for Matrix types). Each application is "
        "checked in lock-step; finally value()/pubo_value/... are compared on random assignments. Non-trivial = "
        "program whose final reference polynomial has >= 2 terms; distinct = digest of the initial pool and the "
        "operation list"
        ' Also: dense 7-8 variable operands (products with thousands of term pairs), denormal coefficients whose quotient/product underflows to zero, exact-rational division, typed coefficients, self-aliased operands, raw dict operands, a label pool with equal-hash labels (-1, -2), labels re-created at run time (equal, not identical) and bool labels.')
RULE += " Rounds 9-10: second look: after a checked non-in-place application the left operand loses a term in place (removal-only edit) and the same application is repeated."
TIERS = {"quick": {"shards": 8, "cases": 4000}, "thorough": {"shards": 16, "cases": 40000}}
FLOOR_BASE = {"quick": 400, "thorough": 15000}    # case counts the floors below were calibrated for; the launcher scales them
OPS = ["add", "radd", "iadd", "sub", "rsub", "isub", "mul", "rmul", "imul", "pow", "ipow", "truediv", "itruediv", "neg", "pos"]
TYPES = {"bool": ["QUBO", "PUBO", "PCBO", "QUBOMatrix", "PUBOMatrix"],
         "spin": ["QUSO", "PUSO", "PCSO", "QUSOMatrix", "PUSOMatrix"]}
INPLACE = {"iadd", "isub", "imul", "ipow", "itruediv"}


def FLOORS(tier):
    q = tier == "quick"
    f = {"expected-keyerror": 100 if q else 3000, "value-checks": 3000 if q else 10 ** 5,
         "alias:self-operand": 60 if q else 2000, "operand:raw-dict": 300 if q else 10 ** 4, "typed-coefficients": 60, "division:exact-rational": 15,
         "big-product:spin": 4, "big-product:bool": 4, "underflow-to-zero": 15, "operand:named-variable:scaled": 100, "huge-integers": 20}
    for o in OPS:
        for ts in TYPES.values():
            for t in ts:
                f["app:%s:%s" % (o, t)] = 30 if q else 1000
    return f

_FLOORS_BEFORE_ROUND9 = FLOORS


def FLOORS(tier):      # noqa: F811 -- floors of the input classes added in round 9 (a quarter of what seed 0 observes in the quick tier)
    f = _FLOORS_BEFORE_ROUND9(tier)
    f.update({'second-look:after-removal-only-edit': 996})
    return f


def snapshot(m):
    if isinstance(m, dict):
        s = {"terms": dict(m)}
        if hasattr(m, "constraints"):
            s["constraints"] = m.constraints
            s["num_ancillas"] = m.num_ancillas
        return s
    return m


def formal_overflow(kind, pa, pb, raw_b=None):
    """does the term-by-term product create a squashed monomial of degree > 2?  The library multiplies the STORED terms of
    the model with the RAW keys of a dict operand (which may denote 0, e.g. {(1,): 2, (1, 1): -2}), so raw keys count."""
    keys_b = [tuple(k) for k in raw_b] if raw_b is not None else [tuple(k) for k in pb.d]
    for k in pa.d:
        for k2 in keys_b:
            if len(pa.canon(tuple(k) + k2)) > 2:
                return True
    return False


def big_product(ctx, rng):
    """dense operands (7-8 variables, 70-200 terms each): products with thousands of term pairs, compared exactly"""
    kind = rng.choice(["bool", "spin"])
    tn = rng.choice([t for t in TYPES[kind] if not L.is_deg2(getattr(L, t))])
    T = getattr(L, tn)
    n = rng.choice([7, 8])
    labs = list(range(n)) if L.is_matrix(T) else (gen.labels(rng, 6) + ["y6", "y7"])[:n]

    def dense():
        terms = {}
        for mask in range(1 << n):
            if rng.random() < 0.55:
                terms[tuple(labs[j] for j in range(n) if (mask >> j) & 1)] = rng.choice([-2, -1, 1, 2, 3, -3])
        return terms
    ta, tb = dense(), dense()
    a, b = gen.model_of(T, ta), gen.model_of(T, tb)
    pa, pb = ref.from_raw(kind, ta), ref.from_raw(kind, tb)
    op = rng.choice(["mul", "imul", "rmul-dict", "pow"])
    w = {"kind": kind, "type": tn, "operation": op, "terms_a": len(ta), "terms_b": len(tb), "term_pairs": len(ta) * len(tb), "a": ta, "b": tb}
    snap_a, snap_b = dict(a), dict(b)
    if op == "mul":
        ok, r = ctx.call("mul", lambda: a * b, _w=w)
        exp = pa * pb
    elif op == "imul":
        def f():
            c = a.copy()
            c *= dict(tb)
            return c
        ok, r = ctx.call("imul", f, _w=w)
        exp = pa * pb
    elif op == "rmul-dict":
        ok, r = ctx.call("rmul", lambda: dict(tb) * a, _w=w)
        exp = pa * pb
    else:
        ok, r = ctx.call("pow", lambda: a ** 2, _w=w)
        exp = pa * pa
    if not ok:
        return
    ctx.cat("big-product:" + kind)
    ctx.count("big-product-term-pairs", len(ta) * (len(ta) if op == "pow" else len(tb)))
    if dict(a) != snap_a or dict(b) != snap_b:
        ctx.violation(op + ":operand-mutated:big-product", "an operand of a large product changed", w)
        return
    if type(r) is not T:
        ctx.violation(op + ":result-type:big-product", "%s gave %s" % (tn, type(r).__name__), w)
        return
    got = ref.from_raw(kind, dict(r))
    if got != exp:
        bad = [k for k in set(got.d) | set(exp.d) if got.d.get(k) != exp.d.get(k)][:3]
        ctx.violation(op + ":wrong-result:big-product", "%d x %d terms: %d coefficients differ, e.g. %r" % (
            len(ta), len(tb), len([k for k in set(got.d) | set(exp.d) if got.d.get(k) != exp.d.get(k)]),
            [(sorted(k, key=repr), float(got.d.get(k, 0)), float(exp.d.get(k, 0))) for k in bad]), w)
        return
    ctx.nontrivial(("big-product", kind, tn, op, sorted(ta.items(), key=repr)[:5], sorted(tb.items(), key=repr)[:5]))


def tiny_quotient(ctx, rng):
    """coefficients at the bottom of the double range: a quotient / product that underflows to exactly 0 is simply no term"""
    kind = rng.choice(["bool", "spin"])
    tn = rng.choice(TYPES[kind])
    T = getattr(L, tn)
    labs = gen.labels(rng, 3, matrix=L.is_matrix(T))
    terms = {(labs[0],): 5e-324, (labs[0], labs[1]): 1.0, (): rng.choice([5e-324, 2.0])}
    if rng.random() < 0.5:
        terms[(labs[1],)] = -5e-324
    a = gen.model_of(T, terms)
    op = rng.choice(["truediv", "itruediv", "mul", "imul"])
    c = rng.choice([4.0, 1e300, 8]) if "div" in op else rng.choice([0.25, 1e-300])
    w = {"kind": kind, "type": tn, "terms": terms, "operation": op, "scalar": c}

    def f():
        if op == "truediv":
            return a / c
        if op == "mul":
            return a * c
        b = a.copy()
        if op == "itruediv":
            b /= c
        else:
            b *= c
        return b
    ok, r = ctx.call(op, f, _w=w)
    if not ok:
        return
    ctx.cat("underflow-to-zero")
    exp = {k: ((v / c) if "div" in op else (v * c)) for k, v in terms.items()}
    exp = {k: v for k, v in exp.items() if v}
    if any(not v for v in r.values()) or ref.from_raw(kind, dict(r)) != ref.from_raw(kind, exp):
        ctx.violation(op + ":wrong-result:underflow", "got %r expected %r" % (dict(r), exp), w)


def huge_ints(ctx, rng):
    """integer coefficients around 2**62: Python integers do not wrap, neither may an evaluation or a sum of models"""
    kind = rng.choice(["bool", "spin"])
    tn = rng.choice(TYPES[kind])
    T = getattr(L, tn)
    labs = gen.labels(rng, 3, matrix=L.is_matrix(T))
    c = 2 ** 62
    terms = {(labs[0],): c, (labs[1],): c + rng.randint(0, 5), (labs[0], labs[1]): rng.choice([c, -c + 1]), (): rng.choice([0, c])}
    a = gen.model_of(T, terms)
    w = {"kind": kind, "type": tn, "terms": terms, "class": "integers around 2**62"}
    vals = (0, 1) if kind == "bool" else (1, -1)
    p = ref.from_raw(kind, terms)
    fn = {"bool": ("qubo_value" if L.is_deg2(T) else "pubo_value"), "spin": ("quso_value" if L.is_deg2(T) else "puso_value")}[kind]
    ctx.cat("huge-integers")
    for x0 in vals:
        for x1 in vals:
            x = {labs[0]: x0, labs[1]: x1, labs[2]: vals[0]}
            want = p.value(x)
            for how, f in (("method", lambda: a.value(x)), (fn, lambda: getattr(L.utils, fn)(x, a)), (fn + ":dict", lambda: getattr(L.utils, fn)(x, dict(a)))):
                ok, got = ctx.call("value", f, _w=w)
                if not ok:
                    return
                ctx.count("value-checks")
                if got != want:
                    ctx.violation("value:wrong-value:huge-integers", "%s at %r gives %r, exact value %r" % (how, x, got, int(want)), w)
                    return
    ok, r = ctx.call("add", lambda: a + a, _w=w)
    if ok and ref.from_raw(kind, dict(r)) != p + p:
        ctx.violation("add:wrong-result:huge-integers", "a + a = %r" % (dict(r),), w)


def case(ctx, rng, idx):
    r0 = rng.random()
    if r0 < 0.004:
        return big_product(ctx, rng)
    if r0 < 0.012:
        return huge_ints(ctx, rng)
    if r0 < 0.02:
        return tiny_quotient(ctx, rng)
    kind = rng.choice(["bool", "spin"])
    tnames = TYPES[kind]
    pool, refs, desc0 = [], [], []
    matrix_only = rng.random() < 0.35
    labs_lab = gen.labels(rng, 4)
    labs_mat = gen.labels(rng, 4, matrix=True)
    if any(isinstance(x, (bool, float)) for x in labs_lab):
        labs_mat = [x + 20 for x in labs_mat]       # True == 1, 2.0 == 2 as dict keys: keep the two label sets of one case disjoint

    def new_model(tn=None):
        tn = tn or rng.choice(tnames)
        T = getattr(L, tn)
        labs = labs_mat if (L.is_matrix(T) or matrix_only) else labs_lab
        maxd = 2 if L.is_deg2(T) else 3
        terms = gen.rand_terms(rng, labs, maxd, lo=0, hi=4)
        if rng.random() < 0.1:
            # number-like coefficient types other than int / float
            import numpy as np
            from fractions import Fraction
            conv = rng.choice([Fraction, np.float64, lambda v: np.int64(round(v) or 2)])
            terms = {k: conv(v) for k, v in terms.items()}
            ctx.cat("typed-coefficients")
        return gen.model_of(T, terms), ref.from_raw(kind, terms), (tn, terms)

    def new_variable():
        """a variable object (boolean_var / spin_var: a one-term PCBO / PCSO that carries its name), possibly edited in place
        in ways that keep it a named one-term model"""
        name_ = rng.choice([x for x in labs_lab if isinstance(x, (str, int)) and not isinstance(x, bool)] or ["vx"])
        v = (L.boolean_var if kind == "bool" else L.spin_var)(name_)
        coef = 1
        how = rng.choice(["bare", "scaled", "scaled", "halved", "doubled-by-iadd"])
        if how == "scaled":
            v *= 3
            coef = 3
        elif how == "halved":
            v /= 4
            coef = 0.25
        elif how == "doubled-by-iadd":
            v += v
            coef = 2
        ctx.cat("operand:named-variable:" + how)
        return v, ref.from_raw(kind, {(name_,): coef}), ("PCBO" if kind == "bool" else "PCSO", {"var": name_, "edited": how})

    for _ in range(rng.randint(2, 4)):
        m, p, d = new_variable() if (not matrix_only and rng.random() < 0.12) else new_model()
        pool.append(m)
        refs.append(p)
        desc0.append(d)
    prog = []
    w = {"kind": kind, "pool": desc0, "program": prog}

    def fail(tag, what):
        ctx.violation(tag, what, w)

    forced = None
    nsteps = rng.randint(3, 8)
    step = 0
    while step < nsteps or forced:
        step += 1
        if forced:
            # "second look": the application just checked is repeated on the same operand object(s) after an in-place edit of
            # the left operand that only REMOVED terms (a memo keyed on "something was stored" would survive it)
            op, i = forced[0], forced[1]
        else:
            op = rng.choice(OPS)
            i = rng.randrange(len(pool))
        a, pa = pool[i], refs[i]
        T = type(a)
        tn = T.__name__
        deg2 = L.is_deg2(T)
        mat = L.is_matrix(T)
        # ---- second operand ---------------------------------------------------------
        b = pb = None
        bdesc = None
        if op in ("add", "iadd", "sub", "isub", "mul", "imul"):
            okind = rng.choice(["model", "dict", "num", "self"])
        elif op in ("radd", "rsub", "rmul"):
            okind = rng.choice(["dict", "num"])
        else:
            okind = None
        if forced:
            okind = forced[2]
        if okind == "model":
            j = forced[3][1] if forced else rng.randrange(len(pool))
            b, pb = pool[j], refs[j]
            if j == i:
                okind = "self"
            bdesc = ("pool", j)
        if forced and okind in ("dict", "num"):
            bdesc = forced[3]
            b = dict(bdesc[1]) if okind == "dict" else bdesc[1]
            pb = ref.from_raw(kind, b) if okind == "dict" else Poly.const(kind, b)
        elif okind == "self":
            b, pb = a, pa
            bdesc = "self"
            ctx.cat("alias:self-operand")
        elif okind == "dict":
            labs = labs_mat if (mat or matrix_only) else labs_lab
            b = gen.rand_terms(rng, labs, 2 if deg2 else 3, lo=0, hi=3, raw=True)
            pb = ref.from_raw(kind, b)
            bdesc = ("dict", dict(b))
            ctx.cat("operand:raw-dict")
        elif okind == "num":
            b = rng.choice([0, 1, -1, 2, 0.5, -3])
            pb = Poly.const(kind, b)
            bdesc = ("num", b)
        # ---- expected ---------------------------------------------------------------
        expo = divc = None
        may_overflow = must_overflow = False
        if op in ("add", "radd", "iadd"):
            exp = pa + pb
        elif op in ("sub", "isub"):
            exp = pa - pb
        elif op == "rsub":
            exp = pb - pa
        elif op in ("mul", "rmul", "imul"):
            exp = pa * pb
            may_overflow = deg2 and okind != "num" and formal_overflow(kind, pa, pb, raw_b=b if okind == "dict" else None)
        elif op in ("pow", "ipow"):
            expo = forced[4] if forced else rng.randint(1, 5)
            if len(pa.d) > 4 and expo > 3:
                expo = 3
            exp = pa
            for _ in range(expo - 1):
                may_overflow = may_overflow or (deg2 and formal_overflow(kind, exp, pa))
                exp = exp * pa
            bdesc = ("exp", expo)
        elif op in ("truediv", "itruediv"):
            divc = forced[5] if forced else rng.choice([2, -4, 0.5, -1])
            from fractions import Fraction as _F
            if not forced and len(a) and all(isinstance(v, _F) for v in a.values()):
                # exact rational coefficients stay exact under division by an integer: divisors that floats cannot invert
                divc = rng.choice([3, 7, -6, 10, 49])
                ctx.cat("division:exact-rational")
            exp = pa.scale(1 / frac(divc))
            bdesc = ("div", divc)
        elif op == "neg":
            exp = -pa
        else:
            exp = pa.copy()
        # operands a Matrix model cannot hold must raise KeyError (non-integer labels)
        bad_labels = False
        if mat and okind in ("model", "dict"):
            bkeys = [k for k in b if any(not isinstance(x, int) or x < 0 for x in k)]
            if op in ("mul", "rmul", "imul"):
                bad_labels = bool(bkeys) and len(a) > 0
            else:
                bad_labels = bool(bkeys)
        if deg2 and okind in ("model", "dict", "self") and op in ("add", "iadd", "sub", "isub", "radd", "rsub"):
            must_overflow = any(len(pa.canon(tuple(k))) > 2 for k in (b if isinstance(b, dict) else {}))
            # raw dict keys squash under the model's kind; only squashed length matters
        if deg2 and exp.degree() > 2:
            must_overflow = True
        # float arithmetic (library side) stays exact only while every coefficient and every partial sum fits in 53 bits:
        # bound magnitude and granularity together
        if len(exp.d) > 80 or (exp.d and max(abs(v.numerator) for v in exp.d.values()).bit_length() +
                               max(v.denominator for v in exp.d.values()).bit_length() > 44):
            ctx.cat("skipped:float-exactness-guard")
            forced = None
            continue
        was_forced, forced = forced, None
        prog.append([op, i, bdesc])
        ctx.cat("app:%s:%s" % (op, tn))
        sa, sb = snapshot(a), snapshot(b)
        # ---- apply ------------------------------------------------------------------
        try:
            if op == "add":
                r = a + b
            elif op == "radd":
                r = b + a
            elif op == "iadd":
                r = a
                r += b
            elif op == "sub":
                r = a - b
            elif op == "rsub":
                r = b - a
            elif op == "isub":
                r = a
                r -= b
            elif op == "mul":
                r = a * b
            elif op == "rmul":
                r = b * a
            elif op == "imul":
                r = a
                r *= b
            elif op == "pow":
                r = a ** expo
            elif op == "ipow":
                r = a
                r **= expo
            elif op == "truediv":
                r = a / divc
            elif op == "itruediv":
                r = a
                r /= divc
            elif op == "neg":
                r = -a
            else:
                r = +a
        except KeyError as e:
            ctx.exc["KeyError@" + op] += 1
            if must_overflow or may_overflow or bad_labels:
                ctx.cat("expected-keyerror")
                if op in INPLACE:      # left operand may be half-updated: documented, replace it
                    pool[i], refs[i], d = new_model(tn)
                    prog.append(["replace", i, d])
                continue
            fail("%s:unexpected-KeyError" % op, "%s on %s raised KeyError %r; expected %r" % (op, tn, e, exp.show()))
            return
        except Exception as e:   # noqa
            ctx.exc["%s@%s" % (type(e).__name__, op)] += 1
            tag = "%s:raises-%s" % (op, type(e).__name__) + (":aliased" if okind == "self" else "")
            fail(tag, "%s on %s with %r raised %r" % (op, tn, bdesc, e))
            return
        ctx.count("applications")
        if must_overflow or bad_labels:
            fail("%s:missing-KeyError" % op, "%s on %s must raise KeyError (degree > 2 or invalid label) but returned %r" % (op, tn, dict(r)))
            return
        # ---- postconditions -----------------------------------------------------------
        got = ref.from_raw(kind, dict(r))
        if got != exp:
            fail("%s:wrong-result" % op + (":aliased" if okind == "self" else ""),
                 "%s on %s: got %r expected %r" % (op, tn, got.show(), exp.show()))
            return
        for k, v in r.items():
            if k != type(r).squash_key(k) or not v:
                fail("%s:non-canonical" % op, "stored key %r value %r" % (k, v))
                return
            # ... and, independently of the library's own key function: labels of one type are stored in increasing order
            if len(k) >= 2 and len({type(x) for x in k}) == 1 and type(k[0]) in (int, str, float) and list(k) != sorted(k):
                fail("%s:non-canonical:key-not-sorted" % op, "stored key %r is not in increasing order" % (k,))
                return
        if len(r) != len(exp.d):
            fail("%s:non-canonical" % op, "%d stored terms for %d distinct monomials" % (len(r), len(exp.d)))
            return
        if okind in ("model", "self") and isinstance(b, dict) and type(b) is not dict:
            if type(r) not in (T, type(b)):
                fail("%s:result-type" % op, "result type %s for operands %s, %s" % (type(r).__name__, tn, type(b).__name__))
                return
        elif type(r) is not T:
            fail("%s:result-type" % op, "result type %s, model operand %s" % (type(r).__name__, tn))
            return
        canonical = type(r)({tuple(k): v for k, v in exp.d.items()}) if not (L.is_matrix(type(r)) and any(
            not isinstance(x, int) for x in exp.vars())) else None
        if canonical is not None and not (r == canonical):
            fail("%s:not-equal-to-same-function" % op, "result %r != model built from the same function %r" % (dict(r), dict(canonical)))
            return
        terminal = divc in (3, 7, -6, 10, 49)      # non-dyadic rationals must not mix with floats afterwards (float sums inexact)
        if op in INPLACE:
            if r is not a:
                fail("%s:not-in-place" % op, "in-place operator returned a different object")
                return
            refs[i] = exp
            if terminal:
                pool[i], refs[i], d_ = new_model(tn)
                prog.append(["replace", i, d_])
            if okind != "self" and isinstance(b, dict) and snapshot(b) != sb:
                fail("%s:right-operand-mutated" % op, "right operand changed")
                return
        else:
            if r is a or (r is b and isinstance(b, dict)):
                fail("%s:returns-operand" % op, "operator returned one of its operands")
                return
            if snapshot(a) != sa:
                fail("%s:left-operand-mutated" % op, "model operand changed from %r to %r" % (sa, snapshot(a)))
                return
            if isinstance(b, dict) and snapshot(b) != sb:
                fail("%s:other-operand-mutated" % op, "other operand changed from %r to %r" % (sb, snapshot(b)))
                return
            if terminal:
                pass
            elif len(pool) < 6:
                pool.append(r)
                refs.append(exp)
            else:
                j = rng.randrange(len(pool))
                while j == i:
                    j = rng.randrange(len(pool))
                pool[j], refs[j] = r, exp
            if not was_forced and not terminal and len(a) and okind in (None, "dict", "num", "model", "self") and rng.random() < 0.2 \
                    and pool[i] is a:
                # removal-only in-place edit of the left operand, then the same application again
                k0 = rng.choice(list(a))
                how = rng.choice(["set0", "isub-own-coefficient", "isub-dict", "imul0", "pop-style-update"])
                try:
                    if how == "set0":
                        a[k0] = 0
                    elif how == "isub-own-coefficient":
                        a[k0] -= a[k0]
                    elif how == "isub-dict":
                        a -= {k0: a[k0]}
                    elif how == "pop-style-update":
                        a.update({k0: 0})
                    else:
                        a *= 0
                except Exception as e:   # noqa
                    fail("removal-edit:raises-%s" % type(e).__name__, "%s on key %r raised %r" % (how, k0, e))
                    return
                npa = Poly(kind)
                if how != "imul0":
                    ck = pa.canon(tuple(k0))
                    for kk_, vv_ in pa.d.items():
                        if kk_ != ck:
                            npa.add(kk_, vv_)
                refs[i] = npa
                if ref.from_raw(kind, dict(a)) != npa:
                    fail("removal-edit:wrong-result", "%s of key %r left %r, expected %r" % (how, k0, dict(a), npa.show()))
                    return
                prog.append(["remove-only-edit", i, how, k0])
                ctx.cat("second-look:after-removal-only-edit")
                forced = (op, i, okind, bdesc, expo, divc)
    # ---- evaluation ---------------------------------------------------------------------
    vals = (0, 1) if kind == "bool" else (1, -1)
    fn = {"bool": [L.utils.pubo_value, L.utils.qubo_value], "spin": [L.utils.puso_value, L.utils.quso_value]}[kind]
    for m, p in zip(pool, refs):
        vs = sorted(p.vars() | {x for k in m for x in k}, key=repr)
        for _ in range(3):
            x = {v: rng.choice(vals) for v in vs}
            want = p.value(x)
            cands = [("value", m.value, x), (fn[0].__name__, lambda y, m=m: fn[0](y, m), x)]
            if p.degree() <= 2 and ref.from_raw(kind, dict(m)).degree() <= 2:
                cands.append((fn[1].__name__, lambda y, m=m: fn[1](y, dict(m)), x))
            if vs and all(isinstance(v, int) for v in vs) and min(vs) >= 0:
                seq = [x.get(j, vals[0]) for j in range(max(vs) + 1)]
                cands.append(("value-list", m.value, seq))
                cands.append(("value-tuple", m.value, tuple(seq)))
            for name, f, arg in cands:
                ctx.count("value-checks")
                ok, got = ctx.call(name, f, arg, _w=w)
                if not ok:
                    return
                if frac(got) != want:
                    fail("%s:wrong-value" % name, "%s(%r) = %r, direct evaluation %r on %r" % (name, arg, got, want, dict(m)))
                    return
    final = refs[-1]
    if len(final.d) >= 2:
        ctx.nontrivial((kind, desc0, prog))
    ctx.sample({"kind": kind, "pool": desc0, "program": prog[:8], "final": final.show()}, limit=3)
