"""C06 -- logical constraint methods penalise exactly the violating assignments."""
import numpy as np

from .. import gen, ref
from .. import lib as L
from . import _sat

ID = "C06"
RULE = ("each of the sixteen PCBO.add_constraint_G / add_constraint_eq_G methods with arity from the documented "
        "minimum to 6; operands = labels (6 pools), boolean_var, {0,1}-valued PUBO dicts such as x(1-y), PUBO/PCBO "
        "models or nested sat expressions (depth <= 2), overlapping operands allowed; lam in {.5,1,3}; the model may "
        "already carry another logical constraint. Oracle: exact difference after - before tabulated over the "
        "operands' variables against a plain-Python gate evaluator. Non-trivial = relation neither constant-true nor "
        "constant-false; distinct = digest of (method, operand descriptions, lam)"
        ' Also: positional lam for the fixed-arity methods, operand objects shared across gates, in-place-edited named operands, long-monomial and constant operands, and between two gates: trivially decided inequalities, round(H, -1/0/2), refresh(), copy() / copy.deepcopy / copy.copy / the copy constructor (recorded constraints and validity must stay).')
RULE += " Rounds 9-10: update() into a fresh model / a model holding another constraint kind between gates, operand objects edited in place by the caller after the history, clause objects (PCBO recording a gate) as operands, clauses of 7-10 operands."
TIERS = {"quick": {"shards": 8, "cases": 2500}, "thorough": {"shards": 16, "cases": 30000}}
FLOOR_BASE = {"quick": 300, "thorough": 8000}    # case counts the floors below were calibrated for; the launcher scales them
METHODS = [g for g in _sat.ALL] + ["eq_" + g for g in _sat.ALL]


def FLOORS(tier):
    q = tier == "quick"
    f = {"expression-operand": 600 if q else 20000, "is_solution_valid-checks": 20000 if q else 10 ** 6,
         "second-constraint-on-model": 300, "shared-operand-object": 400, "lam-positional": 100,
         "between-gates:trivial-le": 30, "between-gates:round(-1)": 30, "between-gates:copy": 30, "between-gates:clear": 30, "between-gates:refresh": 20, "between-gates:deepcopy": 20, "between-gates:copy.copy": 20, "between-gates:ctor": 20, "other-constraint-kind-first": 150}
    for m in METHODS:
        f["method:" + m] = 60 if q else 2000
        g = m.replace("eq_", "")
        if g not in ("NOT", "BUFFER"):
            for ar in ((2, 3, 4, 5, 6) if m.startswith("eq_") else (1, 2, 3, 4, 5, 6)):
                f["arity:%s:%d" % (m, ar)] = 5 if q else 150
    return f

_FLOORS_BEFORE_ROUND9 = FLOORS


def FLOORS(tier):      # noqa: F811 -- floors of the input classes added in round 9 (a quarter of what seed 0 observes in the quick tier)
    f = _FLOORS_BEFORE_ROUND9(tier)
    f.update({'between-gates:update-into-empty': 62, 'between-gates:update-into-other-kind': 59, 'operand-edited-afterwards-checks': 1464})
    return f


def case(ctx, rng, idx):
    labs = gen.labels(rng, rng.randint(2, 6))
    H = L.PCBO()
    hist = []
    nontriv = False
    # operand objects that may be handed to several gates of the history (and several times to one gate): a gate must
    # not change what its operands mean
    watched = []          # (model nobody edits any more, its validity table, its recorded constraints)

    def validity_table(M):
        return [bool(M.is_solution_valid(ref.assignment(i, labs, False))) for i in range(1 << len(labs))]
    if len(labs) >= 2 and rng.random() < 0.2:
        # the model already carries a constraint of another kind (an "at most one of two" inequality: no ancillas)
        import warnings
        l1, l2 = rng.sample(labs, 2)
        with warnings.catch_warnings():
            warnings.simplefilter("ignore")
            H.add_constraint_le_zero({(l1,): 1, (l2,): 1, (): -1}, lam=rng.choice([1, 2]))
        hist.append(["add_constraint_le_zero", "%r + %r - 1" % (l1, l2)])
        ctx.cat("other-constraint-kind-first")
        if H.num_ancillas:
            return
    pool = [_sat.expr(rng, labs, rng.choice([0, 1, 1, 2]), max_arity=2) for _ in range(rng.randint(2, 4))]
    pool_snap = [dict(o[0]) if isinstance(o[0], dict) else None for o in pool]
    used_objs = []
    for ci in range(rng.choice([1, 1, 2, 3])):
        m = rng.choice(METHODS)
        eq = m.startswith("eq_")
        g = m.replace("eq_", "")
        lam = rng.choice([0.5, 1, 3])
        if g in ("NOT", "BUFFER"):
            ar = 1
        else:
            ar = rng.randint(2 if eq else 1, 6) if rng.random() < 0.92 else rng.randint(7, 10)      # "any admissible number of operands"
        ops = []
        for _ in range(ar):
            if rng.random() < 0.35:
                ops.append(rng.choice(pool))
                ctx.cat("shared-operand-object")
                if isinstance(ops[-1][0], dict):
                    ctx.cat("expression-operand")
            elif rng.random() < 0.4:
                ops.append(_sat.expr(rng, labs, rng.choice([1, 1, 2]), max_arity=2))
                ctx.cat("expression-operand")
            else:
                ops.append(_sat.leaf(rng, labs, allow=("label", "label", "var")))
        a = None
        if eq:
            a = _sat.expr(rng, labs, 1, 2) if rng.random() < 0.3 else _sat.leaf(rng, labs, allow=("label", "var"))
        desc = [m, a[2] if a else None, [o[2] for o in ops], lam]
        hist.append(desc)
        w = {"history": hist}
        ctx.cat("method:" + m)
        if g not in ("NOT", "BUFFER"):
            ctx.cat("arity:%s:%d" % (m, ar))
        if ci:
            ctx.cat("second-constraint-on-model")
        before = ref.from_raw("bool", dict(H))
        valid_before = H.copy()
        args = ([a[0]] if eq else []) + [o[0] for o in ops]
        used_objs.extend(args)
        if g in ("NOT", "BUFFER") and rng.random() < 0.4:
            # the four fixed-arity methods are documented as (a, [b,] lam=1): the weight may be given positionally
            ctx.cat("lam-positional")
            desc.append("lam-positional")
            ok, ret = ctx.call("add_constraint_" + m, getattr(H, "add_constraint_" + m), *args, lam, _w=w)
        else:
            ok, ret = ctx.call("add_constraint_" + m, getattr(H, "add_constraint_" + m), *args, lam=lam, _w=w)
        if not ok:
            return
        for o, sn in zip(pool, pool_snap):
            if sn is not None and dict(o[0]) != sn:
                ctx.violation(m + ":operand-mutated", "an operand object changed from %r to %r" % (sn, dict(o[0])), w)
                return
        delta = ref.from_raw("bool", dict(H)) - before
        if any(isinstance(v, str) and v.startswith("__a") for v in delta.vars()) or H.num_ancillas:
            ctx.violation(m + ":uses-ancilla", "logical constraint introduced ancillas %r" % sorted(map(str, delta.vars())), w)
            return
        if not delta.vars() <= set(labs):
            ctx.violation(m + ":foreign-variable", "penalty involves %r" % sorted(map(repr, delta.vars() - set(labs))), w)
            return
        ftab = ref.table(delta, labs)
        holds = np.zeros(1 << len(labs), dtype=bool)
        for i in range(1 << len(labs)):
            x = ref.assignment(i, labs, False)
            gv = _sat.gate_value(g, [o[1](x) for o in ops])
            holds[i] = (a[1](x) == gv) if eq else bool(gv)
        bad0 = holds & (np.abs(ftab) > 1e-9)
        if bad0.any():
            i = int(np.flatnonzero(bad0)[0])
            ctx.violation(m + ":satisfied-but-penalised", "F=%r at %r where the gate relation holds" % (float(ftab[i]), ref.assignment(i, labs, False)), w)
            return
        bad1 = (~holds) & (ftab < lam - 1e-9)
        if bad1.any():
            i = int(np.flatnonzero(bad1)[0])
            ctx.violation(m + ":violated-but-cheap", "F=%r < lam=%r at %r where the gate relation fails" % (float(ftab[i]), lam, ref.assignment(i, labs, False)), w)
            return
        ctx.count("penalty-table-checks")
        for i in range(1 << len(labs)):
            x = ref.assignment(i, labs, False)
            was = bool(valid_before.is_solution_valid(x))
            ok, got = ctx.call("is_solution_valid", H.is_solution_valid, x, _w=w)
            ctx.count("is_solution_valid-checks")
            if not ok:
                return
            if bool(got) != (was and bool(holds[i])):
                ctx.violation(m + ":is_solution_valid-disagrees", "is_solution_valid(%r)=%r, gate relation %r (earlier constraints %r)" % (x, got, bool(holds[i]), was), w)
                return
        if holds.any() and not holds.all():
            nontriv = True
        # ---- something else happens to the model between two gates; what is valid stays what it was ----------------
        if rng.random() < 0.3:
            how = rng.choice(["trivial-le", "trivial-ge", "round(-1)", "round(0)", "round(2)", "copy", "clear", "refresh", "deepcopy", "copy.copy", "ctor",
                              "update-into-empty", "update-into-other-kind"])
            if how == "clear":
                # the object is emptied and used again: nothing recorded before may judge what comes after
                okb, _ = ctx.call("clear", H.clear, _w=w)
                if not okb:
                    return
                hist.append(["clear"])
                ctx.cat("between-gates:clear")
                for i in range(1 << len(labs)):
                    x = ref.assignment(i, labs, False)
                    if not H.is_solution_valid(x):
                        ctx.violation("clear:earlier-constraints-still-judge", "after clear() is_solution_valid(%r) is False (recorded constraints %r)" % (x, H.constraints), {"history": hist})
                        return
                continue
            cons0 = {k: len(v) for k, v in H.constraints.items()}
            Hb = H.copy()
            import warnings
            with warnings.catch_warnings():
                warnings.simplefilter("ignore")
                if how == "trivial-le":
                    # P <= 0 for every assignment (decided by its bounds): nothing to enforce, nothing to forget
                    okb, _ = ctx.call("add_constraint_le_zero", H.add_constraint_le_zero, {(rng.choice(labs),): 1, (): -rng.choice([1, 3])}, lam=lam, _w=w)
                elif how == "trivial-ge":
                    okb, _ = ctx.call("add_constraint_ge_zero", H.add_constraint_ge_zero, {(rng.choice(labs),): -1, (): rng.choice([1, 3])}, lam=lam, _w=w)
                elif how == "refresh":
                    okb, _ = ctx.call("refresh", H.refresh, _w=w)
                elif how.startswith("update-into"):
                    # the documented way to merge models: a fresh PCBO (possibly holding a record of another kind already)
                    # takes the constrained model in with update(); what is valid stays what it was
                    Hn = L.PCBO()
                    if how == "update-into-other-kind":
                        Hn.add_constraint_le_zero({(rng.choice(labs),): 1, (): -1}, lam=1)      # x - 1 <= 0: always true
                    okb, _ = ctx.call("update", Hn.update, H, _w=w)
                    if okb:
                        watched.append((H, validity_table(H), {k: [dict(p) for p in v] for k, v in H.constraints.items()}))
                        H = Hn
                elif how in ("copy", "deepcopy", "copy.copy", "ctor"):
                    import copy as _copy
                    okb, H2 = ctx.call(how, {"copy": H.copy, "deepcopy": lambda: _copy.deepcopy(H), "copy.copy": lambda: _copy.copy(H),
                                             "ctor": lambda: type(H)(H)}[how], _w=w)
                    if okb and how != "copy.copy":       # (a shallow copy shares by definition: Python's sharing, not the library's)
                        # the history continues on the copy; the original stays as it is
                        watched.append((H, validity_table(H), {k: [dict(p) for p in v] for k, v in H.constraints.items()}))
                    H = H2 if okb else H
                else:
                    nd = int(how[6:-1])
                    okb, H2 = ctx.call("round", round, H, nd, _w=w)
                    H = H2 if okb else H
            if not okb:
                return
            hist.append([how])
            ctx.cat("between-gates:" + how)
            cons1 = {k: len(v) for k, v in H.constraints.items()}
            if any(cons1.get(k, 0) < n_ for k, n_ in cons0.items()):
                ctx.violation("%s:recorded-constraint-lost" % how, "recorded constraints per kind %r -> %r" % (cons0, cons1), {"history": hist})
                return
            for i in range(1 << len(labs)):
                x = ref.assignment(i, labs, False)
                if bool(H.is_solution_valid(x)) != bool(Hb.is_solution_valid(x)):
                    ctx.violation("%s:is_solution_valid-changed" % how, "is_solution_valid(%r) was %r, is now %r" % (x, bool(Hb.is_solution_valid(x)), bool(H.is_solution_valid(x))), {"history": hist})
                    return
            ctx.count("is_solution_valid-checks", 1 << len(labs))
    # ---- the caller goes on using its operand objects: in-place edits of them must not reach the model -----------------
    objs = [o[0] for o in pool if isinstance(o[0], dict)] + [o for o in used_objs if isinstance(o, dict)]
    if objs and len(H.constraints):
        tab_h, terms_h = validity_table(H), dict(H)
        for o in objs:
            try:
                if rng.random() < 0.5:
                    o *= L.boolean_var(rng.choice(labs)) if hasattr(o, "__imul__") and type(o) is not dict else 2
                else:
                    o[(rng.choice(labs),)] = o.get((rng.choice(labs),), 0) + 5
            except Exception:   # noqa
                pass
        # ... and edits what the `constraints` accessor handed out (documented as a copy)
        try:
            for polys_ in H.constraints.values():
                for P_ in polys_:
                    P_ *= 0
                polys_.append({(): 1})
        except Exception:   # noqa
            pass
        ctx.count("operand-edited-afterwards-checks")
        if validity_table(H) != tab_h or dict(H) != terms_h:
            ctx.violation("gate:model-follows-operand-edited-afterwards", "after the caller edited its operand objects in place the model's terms / validity changed", {"history": hist})
            return
    for M0, tab0, cons0 in watched:
        ctx.count("untouched-original-checks")
        if validity_table(M0) != tab0 or {k: [dict(p) for p in v] for k, v in M0.constraints.items()} != cons0:
            ctx.violation("copy:original-follows-the-copy", "gates added to a copy changed what the original records / reports as valid", {"history": hist})
            return
    if nontriv:
        ctx.nontrivial(hist)
    ctx.sample({"history": hist}, limit=3)
