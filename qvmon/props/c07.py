"""C07 -- sat expression builders compute their truth functions."""
from .. import gen, ref
from .. import lib as L
from . import _sat

ID = "C07"
RULE = ("random expression trees over BUFFER, NOT, AND, NAND, OR, NOR, XOR, XNOR (arity 1-5, depth <= 4, <= 7 leaf "
        "variables from 6 label pools); leaves = labels, boolean_var, {0,1}-valued dicts, PUBO/PCBO models; plus flat "
        "gates of QUBO / QUBOMatrix / PUBOMatrix typed leaves where the degree stays <= 2 / labels are integers. Oracle: "
        "the returned model equals, as an exact multilinear polynomial, the Moebius transform of the truth table "
        "computed by a plain-Python evaluator of the same tree; model leaves are snapshotted. Non-trivial = tree of "
        "depth >= 2 whose function is not constant; distinct = digest of the tree description"
        ' Also: typed first operands (QUBO / Matrix) whose result does not fit the type (KeyError or a correct model), labels with equal hashes, labels re-created at run time, bool labels, in-place-edited named operands, results edited by the caller afterwards.')
TIERS = {"quick": {"shards": 8, "cases": 4000}, "thorough": {"shards": 16, "cases": 40000}}
FLOOR_BASE = {"quick": 350, "thorough": 10000}    # case counts the floors below were calibrated for; the launcher scales them


def FLOORS(tier):
    q = tier == "quick"
    f = {"trees-checked": 1500 if q else 10 ** 5, "typed-leaf-gates": 200 if q else 5000, "arity>=4": 100 if q else 3000,
         "depth>=3": 200 if q else 5000, "model-leaf-snapshots": 300, "results-edited-afterwards": 1000,
         "typed-first-operand:returned": 100, "typed-operand-after-the-first": 150, "refused-call-earlier-in-the-process": 8, "typed-first-operand:refused": 100}
    for g in _sat.ALL:
        f["root:" + g] = 60 if q else 2000
    return f


def depth_of(desc):
    d = m = 0
    for c in desc:
        if c == "(":
            d += 1
            m = max(m, d)
        elif c == ")":
            d -= 1
    return m


def case(ctx, rng, idx):
    r0 = rng.random()
    if r0 < 0.15:
        return typed_leaves(ctx, rng)
    if r0 < 0.27:
        return typed_overflow(ctx, rng)
    if r0 < 0.33:
        return typed_middle(ctx, rng)
    if r0 < 0.335:
        # a call the library has to refuse (two tuple labels that Python cannot order land in one key); whatever it raises,
        # the gates built afterwards in this process are unaffected
        try:
            L.sat.AND(("a", 1), ("a", "b"))
        except Exception:   # noqa
            pass
        ctx.cat("refused-call-earlier-in-the-process")
    labs = gen.labels(rng, rng.randint(1, 6))
    g = rng.choice(_sat.ALL)
    lib = getattr(L.sat, g)
    depth = rng.choice([0, 1, 2, 3])
    ar = 1 if g in ("NOT", "BUFFER") else rng.randint(1, 5)
    subs = [_sat.expr(rng, labs, depth, max_arity=3) for _ in range(ar)]
    models = [(s[0], dict(s[0]), getattr(s[0], "constraints", None)) for s in subs if isinstance(s[0], dict)]
    desc = "%s(%s)" % (g, ", ".join(s[2] for s in subs))
    w = {"tree": desc}
    ok, r = ctx.call(g, lib, *[s[0] for s in subs], _w=w)
    if not ok:
        return
    ctx.cat("root:" + g)
    if ar >= 4:
        ctx.cat("arity>=4")
    d = depth_of(desc)
    if d >= 3:
        ctx.cat("depth>=3")
    for m, snap, cons in models:
        ctx.count("model-leaf-snapshots")
        if dict(m) != snap or getattr(m, "constraints", None) != cons:
            ctx.violation(g + ":operand-mutated", "an operand model changed from %r to %r" % (snap, dict(m)), w)
            return
        if r is m:
            ctx.violation(g + ":returns-operand", "the gate returned its operand object", w)
            return
    tab = []
    for i in range(1 << len(labs)):
        x = ref.assignment(i, labs, False)
        tab.append(_sat.gate_value(g, [s[1](x) for s in subs]))
    exp = ref.moebius_bool(tab, labs)
    got = ref.from_raw("bool", dict(r))
    ctx.count("trees-checked")
    if got != exp:
        ctx.violation(g + ":wrong-truth-function", "got %r expected %r" % (got.show(), exp.show()), w)
        return
    if not isinstance(r, L.qv.BOOLEAN_MODELS):
        ctx.violation(g + ":result-not-a-boolean-model", "returned %s" % type(r).__name__, w)
        return
    if d >= 2 and len(set(tab)) > 1:
        ctx.nontrivial(desc)
    ctx.sample({"tree": desc, "result": dict(r)}, limit=3)
    # the caller goes on editing what it got back; nothing the library keeps may follow (later gates in this process
    # over the same labels must still be right)
    try:
        r *= 3
        r[()] += 7
        ctx.count("results-edited-afterwards")
    except Exception:   # noqa
        pass


def typed_overflow(ctx, rng):
    """The first operand is of a restricted type (QUBO: degree <= 2; Matrix: non-negative integer labels) and the gate's
    result does not fit it.  Refusing with KeyError (what the type's own arithmetic does) is fine; a model that is
    returned must still compute the gate, and the operands stay as they were."""
    tn = rng.choice(["QUBO", "QUBOMatrix", "PUBOMatrix"])
    T = getattr(L, tn)
    mat = tn.endswith("Matrix")
    labs = gen.labels(rng, rng.randint(2, 5), matrix=mat)
    g = rng.choice([x for x in _sat.ALL if x not in ("NOT", "BUFFER")])
    first_ls = rng.sample(labs, rng.choice([1, 2]) if len(labs) >= 2 else 1)
    first = T({tuple(first_ls): 1})
    ops, fs, ds = [first], [lambda x, ls=tuple(first_ls): int(all(x[v] for v in ls))], ["%s{%s}" % (tn, "*".join(map(repr, first_ls)))]
    extra = []
    if mat and rng.random() < 0.5:
        extra = [rng.choice(["s", -1, ("t", 0)])]            # a label the Matrix type cannot hold
    for _ in range(rng.randint(1, 3)):
        l = rng.choice(labs + extra)
        how = rng.choice(["label", "var", "pair"])
        if how == "pair":
            l2 = rng.choice(labs)
            ops.append({(l, l2): 1} if l != l2 else {(l,): 1})
            fs.append(lambda x, l=l, l2=l2: x[l] * x[l2])
            ds.append("{%r*%r}" % (l, l2))
        else:
            ops.append(l if how == "label" else L.boolean_var(l))
            fs.append(lambda x, l=l: x[l])
            ds.append(repr(l) if how == "label" else "boolean_var(%r)" % (l,))
    allv = labs + extra
    desc = "%s(%s)" % (g, ", ".join(ds))
    w = {"tree": desc}
    snaps = [(o, dict(o)) for o in ops if isinstance(o, dict)]
    ok, r = ctx.call(g, getattr(L.sat, g), *ops, expect=(KeyError,), _w=w)
    ctx.cat("typed-first-operand:" + ("returned" if ok else "refused"))
    for o, snap in snaps:
        if dict(o) != snap:
            ctx.violation(g + ":operand-mutated:typed-first-operand", "an operand changed from %r to %r" % (snap, dict(o)), w)
            return
    if not ok:
        return
    tab = []
    for i in range(1 << len(allv)):
        x = ref.assignment(i, allv, False)
        tab.append(_sat.gate_value(g, [f(x) for f in fs]))
    exp = ref.moebius_bool(tab, allv)
    ctx.count("trees-checked")
    if ref.from_raw("bool", dict(r)) != exp:
        ctx.violation(g + ":wrong-truth-function:typed-first-operand", "got %r expected %r" % (dict(r), exp.show()), w)
        return
    if len(set(tab)) > 1:
        ctx.nontrivial(desc)


def typed_middle(ctx, rng):
    """A restricted-type operand (QUBO / QUBOMatrix / PUBOMatrix) somewhere after the first one.  Intermediate results may
    take that operand's type (OR / NOR do on the unchanged tree), so a KeyError refusal is acceptable; a model that is
    returned must compute the gate."""
    tn = rng.choice(["QUBO", "QUBOMatrix", "PUBOMatrix"])
    T = getattr(L, tn)
    labs = gen.labels(rng, rng.randint(3, 5), matrix=True)        # integer labels suit every type involved
    g = rng.choice([x for x in _sat.ALL if x not in ("NOT", "BUFFER")])
    ar = rng.randint(3, 6)
    pos = rng.randint(1, ar - 1)
    ops, fs, ds = [], [], []
    for i in range(ar):
        l = rng.choice(labs)
        if i == pos:
            ops.append(T({(l,): 1}))
            fs.append(lambda x, l=l: x[l])
            ds.append("%s{%r}" % (tn, l))
        elif i == 0:
            how = rng.choice(["label", "PUBO", "PCBO"])
            ops.append(l if how == "label" else getattr(L, how)({(l,): 1}))
            fs.append(lambda x, l=l: x[l])
            ds.append(repr(l) if how == "label" else "%s{%r}" % (how, l))
        else:
            l2 = rng.choice(labs)
            if rng.random() < 0.5 and l2 != l:
                ops.append(L.sat.AND(l, l2))
                fs.append(lambda x, l=l, l2=l2: x[l] * x[l2])
                ds.append("AND(%r, %r)" % (l, l2))
            else:
                ops.append(l)
                fs.append(lambda x, l=l: x[l])
                ds.append(repr(l))
    desc = "%s(%s)" % (g, ", ".join(ds))
    w = {"tree": desc}
    ok, r = ctx.call(g, getattr(L.sat, g), *ops, expect=(KeyError,), _w=w)
    if not ok:
        ctx.cat("typed-operand-after-the-first:refused")
        return
    ctx.cat("typed-operand-after-the-first")
    tab = []
    for i in range(1 << len(labs)):
        x = ref.assignment(i, labs, False)
        tab.append(_sat.gate_value(g, [f(x) for f in fs]))
    exp = ref.moebius_bool(tab, labs)
    ctx.count("trees-checked")
    if ref.from_raw("bool", dict(r)) != exp:
        ctx.violation(g + ":wrong-truth-function:typed-operand-after-the-first", "got %r expected %r" % (dict(r), exp.show()), w)
        return
    if len(set(tab)) > 1:
        ctx.nontrivial(desc)


def typed_leaves(ctx, rng):
    """flat gates over QUBO / QUBOMatrix / PUBOMatrix leaves"""
    tn = rng.choice(["QUBO", "QUBOMatrix", "PUBOMatrix", "PCBO"])
    T = getattr(L, tn)
    mat = tn.endswith("Matrix")
    labs = gen.labels(rng, rng.randint(1, 4), matrix=mat)
    g = rng.choice(_sat.ALL)
    deg2 = tn in ("QUBO", "QUBOMatrix")
    ar = 1 if g in ("NOT", "BUFFER") else rng.randint(1, 2 if deg2 else 4)
    ls = [rng.choice(labs) for _ in range(ar)]
    ops = [T({(l,): 1}) for l in ls]
    desc = "%s(%s)" % (g, ", ".join("%s{%r}" % (tn, l) for l in ls))
    w = {"tree": desc}
    ok, r = ctx.call(g, getattr(L.sat, g), *ops, _w=w)
    if not ok:
        return
    ctx.cat("typed-leaf-gates")
    tab = []
    for i in range(1 << len(labs)):
        x = ref.assignment(i, labs, False)
        tab.append(_sat.gate_value(g, [x[l] for l in ls]))
    exp = ref.moebius_bool(tab, labs)
    ctx.count("trees-checked")
    if ref.from_raw("bool", dict(r)) != exp:
        ctx.violation(g + ":wrong-truth-function:typed-leaf", "got %r expected %r" % (dict(r), exp.show()), w)
        return
    if any(dict(o) != {(l,): 1} for o, l in zip(ops, ls)):
        ctx.violation(g + ":operand-mutated", "typed leaf changed", w)
        return
    if len(set(tab)) > 1:
        ctx.nontrivial(desc)
