"""C08 -- the constrained optimum survives penalisation, reduction and solution conversion."""
import itertools
import warnings

import numpy as np

from .. import gen, oracles, ref
from .. import lib as L
from ..ref import Poly, frac

ID = "C08"
RULE = ("PCBO / PCSO models: objective over 2-4 variables (dyadic coefficients, degree <= 3) plus 1-3 feasible integer "
        "constraints mixing the six comparison methods (log_trick both ways) and, for PCBO, the logical methods; every "
        "weight = (max f - min f) + delta, delta in {.5, 1, 7}; plus the README model family (chain objective, eq_XOR and "
        "a '<' constraint, N = 4..6) built with boolean_var arithmetic. Oracle: constrained optimum f* by reference "
        "enumeration; solve_bruteforce; every arg-min row of the tables of H, to_pubo, to_puso, to_qubo, to_quso (<= 20 "
        "variables incl. ancillas) mapped through the real convert_solution and remove_ancilla_from_solution. "
        "Non-trivial = some but not all assignments feasible; distinct = digest of (class, objective, constraints)"
        " Also: constraint polynomials from the 14 branch shapes of C02, objectives with several high-degree terms sharing variable pairs over 5-6 variables, a sibling object (copy / constructor / arithmetic result) that receives a constraint excluding the optimum, user labels containing '__a' inside.")
RULE += " Rounds 9-10: earlier life + clear(), refresh() between constraints, typed polynomial objects edited by the caller afterwards, a conversion before any constraint exists, fractional weights, the solution handed to remove_ancilla_from_solution compared before / after."
TIERS = {"quick": {"shards": 8, "cases": 90}, "thorough": {"shards": 16, "cases": 3000}}
FLOOR_BASE = {"quick": 60, "thorough": 1500}    # case counts the floors below were calibrated for; the launcher scales them
FORMS = ["self", "pubo", "puso", "qubo", "quso"]
LABEL_FLAG = {"last": False}
HEAVY = {"last": False}
SHAPED = {"n": 0}
STEPS = {}      # steps between the constraints of the last built history (counted by case())


def FLOORS(tier):
    q = tier == "quick"
    f = {"argmin-rows-decoded": 1500 if q else 60000, ">=2-constraints-and-reduction-ancilla": 50 if q else 1500,
         "solve_bruteforce-calls": 150 if q else 5000, "readme-family": 15 if q else 400, "class:PCBO": 100, "class:PCSO": 100,
         "logical-constraint": 40, "remove_ancilla-checks": 1500, "label-containing-__a-inside": 40,
         "objective-with-shared-pair-high-degree-terms": 40, "constraints-from-branch-shapes": 60, "sibling-with-foreign-constraint": 60}
    for fo in FORMS:
        f["form:" + fo] = 100 if q else 4000
    return f

_FLOORS_BEFORE_ROUND9 = FLOORS


def FLOORS(tier):      # noqa: F811 -- floors of the input classes added in round 9 (a quarter of what seed 0 observes in the quick tier)
    f = _FLOORS_BEFORE_ROUND9(tier)
    f.update({'history:earlier-life-then-clear': 28, 'history:polynomial-object-edited-by-caller-afterwards': 80, 'history:refresh-between-constraints': 54})
    return f


def build(rng):
    """returns (H, kind, f (Poly), relations [(name, evaluator(x)->bool)], description, user variables)"""
    kind = rng.choice(["bool", "spin"])
    T = L.PCBO if kind == "bool" else L.PCSO
    vals = (0, 1) if kind == "bool" else (1, -1)
    if kind == "bool" and rng.random() < 0.15:
        return readme_family(rng)
    n = rng.randint(2, 4)
    labs = [x for x in gen.labels(rng, n)]
    if rng.random() < 0.2:
        # user labels may contain the ancilla prefix anywhere but at the start
        first = rng.choice(["rack__a", "x__a1", ("__a", 1), "my__a0"])
        labs = [first] + (["u%d" % i for i in range(1, n)] if isinstance(first, str) else [("u", i) for i in range(1, n)])
        LABEL_FLAG["last"] = True
    else:
        LABEL_FLAG["last"] = False
    fterms = gen.rand_terms(rng, labs, min(3, n), coefs=[-3, -2, -1, 1, 2, 3, 0.5, -1.5], lo=1, hi=5)
    HEAVY["last"] = False
    if rng.random() < 0.3 and not LABEL_FLAG["last"]:
        # several terms above degree 2 that share variable pairs (ancillas of the quadratisation get re-used, a later term may
        # contain two earlier pairs), over 5-6 variables some of which were registered first by low-order terms
        n = rng.randint(5, 6)
        labs = (gen.labels(rng, 6) + ["w6"])[:n]
        fterms = {}
        p1, p2 = tuple(rng.sample(labs, 2)), tuple(rng.sample(labs, 2))
        for x in (list(p2) if rng.random() < 0.6 else rng.sample(labs, rng.randint(0, 3))):
            fterms[(x,)] = rng.choice([1, -1, 2])
        rest = [x for x in labs]
        for pr in (p1, p2):
            k = tuple(dict.fromkeys(pr + (rng.choice(rest),)))
            fterms[k] = fterms.get(k, 0) + rng.choice([-3, -2, 2, 3, 1])
        k = tuple(dict.fromkeys(p1 + p2 + ((rng.choice(rest),) if rng.random() < 0.5 else ())))
        fterms[k] = fterms.get(k, 0) + rng.choice([-3, -2, 2, 3])
        for _ in range(rng.randint(0, 2)):
            k = tuple(rng.sample(labs, rng.randint(3, 4)))
            fterms[k] = fterms.get(k, 0) + rng.choice([-2, -1, 1, 2])
        fterms = {k: v for k, v in fterms.items() if v}
        HEAVY["last"] = True
    f = ref.from_raw(kind, fterms)
    order = list(labs)
    ftab = ref.table(f, order)
    rng_f = float(ftab.max() - ftab.min())
    H = T()
    STEPS.clear()
    rels, desc = [], []
    if rng.random() < 0.15:
        # the object had an earlier life: another problem over the same labels, with a constraint, then clear()
        for k, v in gen.rand_terms(rng, labs, 2, coefs=[-2, 1, 3], lo=1, hi=3).items():
            H[k] += v
        with warnings.catch_warnings():
            warnings.simplefilter("ignore")
            if rng.random() < 0.5:
                H.add_constraint_eq_zero({(labs[0],): 1, (labs[-1],): -1} if kind == "bool" else {(labs[0], labs[-1]): 1, (): 1}, lam=5)
            else:
                H.add_constraint_le_zero({(x,): 1 for x in labs}, lam=5, log_trick=rng.random() < 0.5)
        H.clear()
        desc.append(["earlier-problem-then-clear"])
        STEPS["earlier-life-then-clear"] = 1
    for k, v in fterms.items():
        H[k] += v
    desc.append(["objective", fterms])
    feasible = np.ones(1 << n, dtype=bool)
    if rng.random() < 0.4:
        # the objective is converted once before any constraint exists (to look at its size, say); nothing of that conversion may
        # survive into the conversions of the constrained model
        try:
            getattr(H, rng.choice(["to_qubo", "to_qubo", "to_quso", "to_quso", "to_pubo", "to_puso"]))()
            desc.append(["(converted once before the constraints)"])
            STEPS["conversion-before-constraints"] = 1
        except Exception:   # noqa
            pass
    for ci in range(rng.randint(1, 3)):
        lam = rng_f + rng.choice([0.5, 1, 7, 0.875, 2.375, 0.125, 0.25])
        if ci and rng.random() < 0.15:
            # the history goes on with a rounded copy (a no-op on these coefficients: at most three binary places)
            H = round(H, 6)
            desc.append(["H = round(H, 6)"])
            STEPS["rounded-copy-between-constraints"] = STEPS.get("rounded-copy-between-constraints", 0) + 1
        if ci and rng.random() < 0.25:
            H.refresh()
            desc.append(["refresh"])
            STEPS["refresh-between-constraints"] = STEPS.get("refresh-between-constraints", 0) + 1
        if kind == "bool" and rng.random() < 0.35:
            g = rng.choice(["AND", "OR", "XOR", "NAND", "NOR", "XNOR", "eq_AND", "eq_OR", "eq_XOR", "NOT", "eq_BUFFER"])
            k = 1 if g == "NOT" else rng.randint(2, min(3, n))
            ops = rng.sample(labs, min(k, n))
            from ._sat import GATES
            if g.startswith("eq_"):
                a = rng.choice(labs)
                base = g[3:]
                if base == "BUFFER":
                    ops = ops[:1]
                    ev = (lambda x, a=a, ops=ops: x[a] == x[ops[0]])
                else:
                    if len(ops) < 2:
                        continue
                    ev = (lambda x, a=a, ops=ops, base=base: x[a] == int(GATES[base]([x[o] for o in ops])))
                args = [a] + ops
            elif g == "NOT":
                ev = (lambda x, ops=ops: not x[ops[0]])
                args = ops
            else:
                ev = (lambda x, ops=ops, g=g: bool(GATES[g]([x[o] for o in ops])))
                args = ops
            sat = np.array([ev(ref.assignment(i, order, False)) for i in range(1 << n)])
            if not (feasible & sat).any():
                continue
            getattr(H, "add_constraint_" + g)(*args, lam=lam)
            desc.append(["add_constraint_" + g, args, lam])
            rels.append(ev)
            feasible &= sat
            continue
        P = {}
        if rng.random() < 0.4 and n >= 3:
            # the branch shapes of the comparison methods (special forms included), as in C02 / C03
            from . import _constraints as C_
            shape_, Pb_ = C_.shape_poly(rng, labs)
            if kind == "spin" and rng.random() < 0.5:
                ps_ = ref.from_raw("bool", Pb_).to_spin()
                P = {tuple(sorted(k, key=repr)): (float(v) if v.denominator != 1 else int(v)) for k, v in ps_.d.items()}
            else:
                P = dict(Pb_)
            SHAPED["n"] += 1
        else:
            for _ in range(rng.randint(1, 3)):
                k = tuple(rng.sample(labs, rng.randint(0, min(2, n))))
                P[k] = P.get(k, 0) + rng.randint(-2, 2)
        P = {k: v for k, v in P.items() if v}
        if not any(k for k in P):
            continue
        R = rng.choice(list(oracles.REL))
        pp = ref.from_raw(kind, P)
        ptab = ref.table(pp, order)
        sat = oracles.REL[R](ptab)
        if not (feasible & sat).any():
            continue
        kw = {"lam": lam}
        if R != "eq":
            kw["log_trick"] = rng.random() < 0.5
        Parg = P
        if rng.random() < 0.3:
            # the polynomial is one of the library's own expression objects, which the caller goes on editing afterwards
            Parg = rng.choice([T, L.PUBO if kind == "bool" else L.PUSO])(P)
        with warnings.catch_warnings():
            warnings.simplefilter("ignore")
            getattr(H, "add_constraint_%s_zero" % R)(Parg, **kw)
        if Parg is not P:
            Parg -= 3
            Parg[(labs[0],)] += 2
            desc.append(["(the caller then edits its polynomial object in place)"])
            STEPS["polynomial-object-edited-by-caller-afterwards"] = STEPS.get("polynomial-object-edited-by-caller-afterwards", 0) + 1
        desc.append(["add_constraint_%s_zero" % R, P, kw])
        rels.append(lambda x, pp=pp, R=R: bool(oracles.REL[R](pp.value(x))))
        feasible &= sat
    if len(rels) == 0:
        return None
    return H, kind, f, rels, desc, order


def readme_family(rng):
    N = rng.randint(4, 6)
    x = {i: L.boolean_var("x(%d)" % i) for i in range(N)}
    model = 0
    for i in range(N - 1):
        model += (1 - 2 * x[i]) * x[i + 1]
    names = ["x(%d)" % i for i in range(N)]
    f = ref.from_raw("bool", dict(model))
    a, b, c = rng.sample(range(N), 3)
    cmax = rng.randint(2, N)
    lam1 = (N - 1) * 2 + rng.choice([0.5, 1])
    lam2 = (N - 1) * 2 + rng.choice([1, 7])
    model.add_constraint_eq_XOR(x[a], x[b], x[c], lam=lam1)
    model.add_constraint_lt_zero(sum(x.values()) - cmax, lam=lam2, log_trick=rng.random() < 0.5)
    rels = [lambda s: s[names[a]] == (s[names[b]] ^ s[names[c]]), lambda s: sum(s[v] for v in names) < cmax]
    desc = [["readme", N, (a, b, c), cmax, lam1, lam2]]
    return model, "bool", f, rels, desc, names


def case(ctx, rng, idx):
    built = build(rng)
    if built is None:
        return
    H, kind, f, rels, desc, order = built
    T = type(H)
    ctx.cat("class:" + T.__name__)
    if LABEL_FLAG["last"] and desc[0][0] != "readme":
        ctx.cat("label-containing-__a-inside")
    if desc[0][0] == "readme":
        ctx.cat("readme-family")
    elif HEAVY["last"]:
        ctx.cat("objective-with-shared-pair-high-degree-terms")
    if SHAPED["n"]:
        ctx.count("constraints-from-branch-shapes", SHAPED["n"])
        SHAPED["n"] = 0
    if desc[0][0] != "readme":
        for k_, n_ in STEPS.items():
            ctx.cat("history:" + k_)
    if any(d[0].startswith("add_constraint_") and not d[0].endswith("_zero") for d in desc):
        ctx.cat("logical-constraint")
    spin = kind == "spin"
    vals = (1, -1) if spin else (0, 1)
    w = {"class": T.__name__, "history": desc}
    n = len(order)
    feas_rows = []
    for i in range(1 << n):
        x = ref.assignment(i, order, spin)
        if all(r(x) for r in rels):
            feas_rows.append(i)
    if not feas_rows:
        return
    ftab = ref.table(f, order)
    fstar = float(min(ftab[i] for i in feas_rows))
    ancs = {v for v in oracles.true_vars(H) if isinstance(v, str) and v.startswith("__a")}
    # user variables that occur in the model's terms; the others occur only in a recorded constraint whose penalty
    # does not depend on them (e.g. an always-satisfied constraint): no solution of the model can mention them
    present = [v for v in order if v in oracles.true_vars(H)]
    absent = [v for v in order if v not in present]
    if absent:
        ctx.cat("constraint-variable-absent-from-model")

    def judge(sol, where):
        """sol: assignment of H's variables (maybe with ancillas) in H's kind"""
        sol_before = dict(sol)
        exp = {k: v for k, v in sol_before.items() if k not in ancs}
        ok, core = ctx.call("remove_ancilla_from_solution", T.remove_ancilla_from_solution, sol, _w=w)
        if not ok:
            return False
        ctx.count("remove_ancilla-checks")
        if dict(sol) != sol_before:
            ctx.violation("remove_ancilla_from_solution:argument-mutated", "the caller's solution %r became %r" % (sol_before, dict(sol)), w)
            return False
        if core != exp:
            ctx.violation("remove_ancilla_from_solution-wrong", "got %r expected %r" % (core, exp), w)
            return False
        if not set(present) <= set(core) or any(core[v] not in vals for v in present):
            ctx.violation(where + ":solution-malformed", "solution %r lacks variables / has values outside the domain" % (core,), w)
            return False
        for extra in itertools.product(vals, repeat=len(absent)):
            full = dict(core)
            full.update(zip(absent, extra))
            if not all(r(full) for r in rels):
                ctx.violation(where + ":minimiser-infeasible", "minimiser %r violates a constraint" % (full,), w)
                return False
            if float(f.value({v: full[v] for v in order})) != fstar:
                ctx.violation(where + ":minimiser-not-optimal", "f(%r)=%r but constrained optimum %r" % (full, float(f.value({v: full[v] for v in order})), fstar), w)
                return False
        if absent:
            return True
        v_ok, valid = ctx.call("is_solution_valid", H.is_solution_valid, sol, _w=w)
        if not v_ok:
            return False
        if not valid:
            ctx.violation(where + ":is_solution_valid-rejects-optimum", "is_solution_valid(%r) is False" % (sol,), w)
            return False
        return True
    # (0) a sibling: a copy (or an arithmetic result) of H gets one more constraint that excludes H's optimum; H itself must
    #     not notice
    if rng.random() < 0.25 and not absent:
        xs = ref.assignment(min(feas_rows, key=lambda i: ftab[i]), order, spin)
        l0 = rng.choice(order)
        how = rng.choice(["copy", "copy-constructor", "times-one", "plus-zero"])
        with warnings.catch_warnings():
            warnings.simplefilter("ignore")
            try:
                G = {"copy": lambda: H.copy(), "copy-constructor": lambda: T(H), "times-one": lambda: H * 1, "plus-zero": lambda: H + 0}[how]()
                # forces l0 to the opposite of its optimal value: l0 - (opposite) == 0
                opp = (1 - xs[l0]) if not spin else -xs[l0]
                R0 = rng.choice(["eq", "le", "ge"])
                G.add_constraint_eq_zero({(l0,): 1, (): -opp}, lam=1) if R0 == "eq" else (
                    G.add_constraint_le_zero({(l0,): 1, (): -opp}, lam=1) if R0 == "le" else G.add_constraint_ge_zero({(l0,): 1, (): -opp}, lam=1))
                desc.append(["sibling", how, "add_constraint_%s_zero on the sibling" % R0, {str((l0,)): 1, "()": -opp}])
                ctx.cat("sibling-with-foreign-constraint")
            except Exception as e:   # noqa
                ctx.violation("sibling:%s:raises-%s" % (how, type(e).__name__), "%r" % (e,), w)
                return
    # (1) solve_bruteforce --------------------------------------------------------------------------
    hv = sorted(oracles.true_vars(H), key=repr)
    if len(hv) <= 16:
        ctx.count("solve_bruteforce-calls")
        try:
            ok, sol = True, H.solve_bruteforce()
        except KeyError as e:
            if absent and e.args and e.args[0] in absent:
                # mechanism: is_solution_valid evaluates a recorded constraint on a variable that is not a variable
                # of the model, while the brute-force assignment covers the model's variables only
                ctx.violation("solve_bruteforce:KeyError:constraint-variable-absent-from-model",
                              "solve_bruteforce raised KeyError(%r): the variable occurs only in a recorded constraint" % (e.args[0],), w)
                ok = None
            else:
                ok, sol = ctx.call("solve_bruteforce", H.solve_bruteforce, _w=w)
        except Exception:   # noqa
            ok, sol = ctx.call("solve_bruteforce", H.solve_bruteforce, _w=w)
        if ok is False:
            return
        if ok and (not isinstance(sol, dict) or not judge(sol, "solve_bruteforce")):
            if not isinstance(sol, dict):
                ctx.violation("solve_bruteforce:result-shape", "returned %r" % (sol,), w)
            return
    # (2) arg-min sets of the five tables -------------------------------------------------------------
    red_anc = 0
    H.refresh() if rng.random() < 0.5 else None
    for form in FORMS:
        if form == "self":
            labs = hv
            if len(labs) > 20:
                ctx.cat("skipped_large")
                continue
            tab = ref.table(ref.from_raw(kind, dict(H)), labs)
            dspin = spin
        else:
            ok, D = ctx.call("to_" + form, getattr(H, "to_" + form), _w=w)
            if not ok:
                return
            dl = oracles.form_labels(D)
            nd = max([H.num_binary_variables] + [x + 1 for x in dl])
            if form in ("qubo", "quso"):
                red_anc = max(red_anc, nd - H.num_binary_variables)
            if nd > 20:
                ctx.cat("skipped_large")
                continue
            labs = list(range(nd))
            dspin = form in ("puso", "quso")
            tab = ref.table(dict(D), labs, spin=dspin)
        ctx.cat("form:" + form)
        m = float(tab.min())
        if abs(m - fstar) > 1e-9 * max(1.0, abs(fstar)):
            ctx.violation(form + ":minimum-differs-from-constrained-optimum", "min of %s = %r, constrained optimum %r" % (form, m, fstar), w)
            return
        am = np.flatnonzero(np.abs(tab - m) <= 1e-9 * max(1.0, abs(m)))
        if len(am) > 48:
            am = np.array(rng.sample(list(am), 48))
        for i in am:
            ctx.count("argmin-rows-decoded")
            s = ref.assignment(int(i), labs, dspin)
            if form == "self":
                sol = s
            else:
                cont = rng.choice(["dict", "list", "tuple"])
                arg = s if cont == "dict" else ([s[j] for j in labs] if cont == "list" else tuple(s[j] for j in labs))
                ok, sol = ctx.call("convert_solution", H.convert_solution, arg, spin=dspin, _w=w)
                if not ok:
                    return
            if not judge(sol, form):
                return
    if len(rels) >= 2 and red_anc >= 1:
        ctx.cat(">=2-constraints-and-reduction-ancilla")
    if len(feas_rows) < (1 << n):
        ctx.nontrivial((T.__name__, desc))
    ctx.sample({"class": T.__name__, "history": desc, "constrained_optimum": fstar, "feasible": len(feas_rows), "of": 1 << n}, limit=3)
