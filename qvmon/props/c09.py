"""C09 -- brute-force solvers return the exact minimum and exactly the minimisers."""
import itertools

from .. import core, gen, ref
from .. import lib as L
from ..ref import frac

ID = "C09"
RULE = ("solve_{pubo,qubo,puso,quso}_bruteforce on raw dicts and all ten model types (refreshed; plus a stale class), "
        "<= 7 variables, small integer/dyadic coefficients so ties are frequent and exact, with/without offset, "
        "constant and empty models, validity predicates {all, parity, none, accept-exactly-one, cardinality}, "
        "all_solutions both ways; and the solve_bruteforce methods of the ten types (PCBO/PCSO with recorded "
        "constraints). Oracle: independent enumeration with the same predicate; argument snapshot. Non-trivial = "
        ">= 2 variables and the valid set has >= 2 elements; distinct = digest of (function, type, terms, predicate)"
        ' Also: raw keys / explicit zero coefficients / huge offsets in dict inputs, predicates that read the model, omitted `valid`, typed coefficients, the answer to an infeasible call belongs to the caller (what it writes into it never reappears), an infinite constant, second call after the caller edited the first answer.')
RULE += " Rounds 9-10: second solve of the same model object after an in-place edit (negated, coefficient changed, constraint recorded with lam=0)."
TIERS = {"quick": {"shards": 8, "cases": 6000}, "thorough": {"shards": 16, "cases": 30000}}
FLOOR_BASE = {"quick": 600, "thorough": 8000}    # case counts the floors below were calibrated for; the launcher scales them
FUNCS = {("bool", False): "solve_pubo_bruteforce", ("bool", True): "solve_qubo_bruteforce",
         ("spin", False): "solve_puso_bruteforce", ("spin", True): "solve_quso_bruteforce"}
PREDS = ["all", "parity", "none", "one", "card", "reads-model", "nested-solve"]


def FLOORS(tier):
    q = tier == "quick"
    f = {"ties>=2-minimisers": 300 if q else 10000, "constant-model": 40, "empty-model": 10, "nothing-valid": 100, "nothing-valid-answers-checked": 50, "infinite-constant": 40, "infinite-term": 30,
         "method-calls": 400 if q else 10000, "valid-predicate-calls": 10000 if q else 5 * 10 ** 5, "with-offset": 300,
         "method:PCBO-with-constraints": 20, "stale-model": 50, "huge-offset": 100, "huge-exact-integer-offset": 60, "valid-argument-omitted": 100,
         "free-function-on-constrained-model": 15, "typed-coefficients": 100, "second-call-after-result-edited": 300,
         "dict-with-repeated-labels": 40, "dict-with-diagonal-keys": 25, "dict-with-zero-coefficients": 20}
    for fn in FUNCS.values():
        f["fn:" + fn] = 200 if q else 8000
    for k in ("bool", "spin"):
        for t in ["dict"] + L_TYPES[k]:
            f["type:" + t] = 60 if q else 2000
    return f

_FLOORS_BEFORE_ROUND9 = FLOORS


def FLOORS(tier):      # noqa: F811 -- floors of the input classes added in round 9 (a quarter of what seed 0 observes in the quick tier)
    f = _FLOORS_BEFORE_ROUND9(tier)
    f.update({'second-solve-after-in-place-edit:change-coefficient': 152, 'second-solve-after-in-place-edit:negate': 153, 'second-solve-after-in-place-edit:record-constraint': 7, 'second-solve-checks': 312})
    return f


L_TYPES = {"bool": ["QUBO", "PUBO", "PCBO", "QUBOMatrix", "PUBOMatrix"],
           "spin": ["QUSO", "PUSO", "PCSO", "QUSOMatrix", "PUSOMatrix"]}


def norm(sols):
    return sorted(sorted(d.items(), key=repr) for d in sols)


def infinite_wall(ctx, rng):
    """an infinite coefficient used as a hard wall: when every accepted assignment hits it the minimum is +inf, which is a
    value like any other (not "nothing valid")"""
    kind = rng.choice(["bool", "spin"])
    inf = float("inf")
    labs = gen.labels(rng, rng.randint(1, 3), matrix=rng.random() < 0.5)
    D = {tuple(gen.sort_labels(k)): v for k, v in gen.rand_terms(rng, labs, 2, lo=1, hi=3).items() if k}
    D[()] = inf
    alls = rng.random() < 0.5
    fname = FUNCS[(kind, rng.random() < 0.5)]
    w = {"function": fname, "terms": dict(D), "all_solutions": alls, "class": "infinite constant"}
    tv = sorted({x for k in D for x in k}, key=repr)
    ok, res = ctx.call(fname, getattr(L.utils, fname), D, alls, _w=w)
    if not ok:
        return
    ctx.cat("infinite-constant")
    obj, sol = res
    if obj != inf:
        ctx.violation("wrong-objective:infinite", "every assignment has value inf, reported objective %r" % (obj,), w)
        return
    sols = sol if alls else [sol]
    vals = (0, 1) if kind == "bool" else (1, -1)
    if not isinstance(sols, list) or any(not isinstance(s_, dict) or set(s_) != set(tv) or any(v not in vals for v in s_.values()) for s_ in sols) \
            or (alls and len(sols) != 2 ** len(tv)):
        ctx.violation("solution-malformed:infinite", "reported %r for variables %r" % (sol, tv), w)


def infinite_term(ctx, rng):
    """a hard wall on one boolean variable (coefficient +inf): assignments that switch it on cost inf, the others are ordinary"""
    inf = float("inf")
    labs = gen.labels(rng, rng.randint(2, 3), matrix=rng.random() < 0.5)
    a = labs[0]
    D = {tuple(gen.sort_labels(k)): v for k, v in gen.rand_terms(rng, labs[1:], 2, lo=1, hi=3).items() if k}
    D[(a,)] = inf
    if rng.random() < 0.5:
        D[tuple(gen.sort_labels((a, labs[1])))] = rng.choice([-2, 1])
    fname = FUNCS[("bool", rng.random() < 0.5)]
    tv = sorted({x for k in D for x in k}, key=repr)
    w = {"function": fname, "terms": dict(D), "class": "infinite coefficient on a variable"}
    ok, res = ctx.call(fname, getattr(L.utils, fname), D, _w=w)
    if not ok:
        return
    ctx.cat("infinite-term")
    best = None
    for bits in itertools.product((0, 1), repeat=len(tv)):
        x = dict(zip(tv, bits))
        v = sum(c for k, c in D.items() if all(x[i] for i in k))
        best = v if best is None or v < best else best
    obj, sol = res
    if obj != best or obj != obj:
        ctx.violation("wrong-objective:infinite-term", "reported objective %r, minimum %r" % (obj, best), w)


def case(ctx, rng, idx):
    r00 = rng.random()
    if r00 < 0.01:
        return infinite_wall(ctx, rng)
    if r00 < 0.018:
        return infinite_term(ctx, rng)
    kind = rng.choice(["bool", "spin"])
    vals = (0, 1) if kind == "bool" else (1, -1)
    tn = rng.choice(["dict"] + L_TYPES[kind])
    deg2t = tn in ("QUBO", "QUSO", "QUBOMatrix", "QUSOMatrix")
    deg2 = deg2t or rng.random() < 0.4
    mat = tn.endswith("Matrix")
    labs = gen.labels(rng, rng.randint(1, 6), matrix=mat or (tn == "dict" and rng.random() < 0.5))
    r = rng.random()
    if r < 0.04:
        terms = {}
        ctx.cat("empty-model")
    elif r < 0.1:
        terms = {(): rng.choice([-2, 0.5, 3])}
        ctx.cat("constant-model")
    else:
        terms = gen.rand_terms(rng, labs, 2 if deg2 else 3, coefs=[-2, -1, 1, 2, 1, -1, 0.5], lo=1, hi=6)
        terms = {tuple(gen.sort_labels(k)) if tn == "dict" else k: v for k, v in terms.items()}
    if terms and rng.random() < 0.08:
        terms[()] = terms.get((), 0) + rng.choice([2 ** 34, -2 ** 40, 2 ** 31 + 1])      # exact in floats, dwarfs every gap
        ctx.cat("huge-offset")
    exact_ints = False
    if terms and rng.random() < 0.05:
        # integer coefficients next to a constant no double can hold exactly together with them: Python integers are exact,
        # so are the minimum and the set of minimisers
        terms = {k: (int(v) if float(v).is_integer() else int(2 * v)) for k, v in terms.items()}
        terms[()] = terms.get((), 0) + rng.choice([2 ** 60, -2 ** 70, 2 ** 64 + 1])
        exact_ints = True
        ctx.cat("huge-exact-integer-offset")
    if terms and not exact_ints and rng.random() < 0.08:
        import numpy as np
        from fractions import Fraction
        conv = rng.choice([Fraction, np.float64, lambda v: np.int64(round(v) or 1)])
        terms = {k: conv(v) for k, v in terms.items()}
        ctx.cat("typed-coefficients")
    raw_dict = zero_dict = False
    if tn == "dict" and terms and not deg2 and rng.random() < 0.15:
        # raw keys that repeat a label (x*x = x, z*z = 1): only for the functions that take arbitrary degree
        raw = {}
        for k, v in terms.items():
            k = list(k)
            if k and rng.random() < 0.6:
                k += [rng.choice(k)] * rng.choice([1, 2])
                rng.shuffle(k)
            raw[tuple(k)] = raw.get(tuple(k), 0) + v
        terms = {k: v for k, v in raw.items() if v} or terms
        raw_dict = True
        ctx.cat("dict-with-repeated-labels")
    elif tn == "dict" and terms and deg2 and rng.random() < 0.15:
        # the quadratic solvers take full-matrix style dicts: diagonal keys (i, i) next to (i,), both orientations of a pair
        extra = {}
        for x_ in rng.sample(labs, rng.randint(1, len(labs))):
            extra[(x_, x_)] = rng.choice([-3, -1, 2, 5])
        for k in [k for k in terms if len(k) == 2][:2]:
            extra[(k[1], k[0])] = rng.choice([-2, 1, 3])
        terms = dict(terms)
        terms.update({k: v for k, v in extra.items() if k not in terms})
        ctx.cat("dict-with-diagonal-keys")
    elif tn == "dict" and terms and rng.random() < 0.08:
        # a plain dict may carry explicit zero coefficients: its keys still name its variables
        if rng.random() < 0.5:
            terms = {k: (0 if k else v) for k, v in terms.items()}
        else:
            terms[(labs[0],)] = 0
        zero_dict = True
        ctx.cat("dict-with-zero-coefficients")
    ctx.cat("type:" + tn)
    stale = False
    if tn == "dict":
        m = dict(terms)
    else:
        m = gen.model_of(getattr(L, tn), terms)
        if rng.random() < 0.12 and len(m) > 1:
            k = rng.choice([k for k in m if k] or [()])
            m[k] = 0                      # stale bookkeeping: a variable may have vanished
            stale = True
            ctx.cat("stale-model")
        else:
            m.refresh()
    p = ref.from_raw(kind, dict(m))
    if () in m:
        ctx.cat("with-offset")
    tv = sorted(p.vars(), key=repr)
    if tn == "dict":
        # for a plain dict the variables are the labels its keys name (the function may not depend on all of them)
        tv = sorted({x for k in m for x in k}, key=repr)
    reported = set(tv) if tn == "dict" else set(m.variables)
    if mat and tn != "dict":
        reported = set(tv) if not stale else reported
    pk = rng.choice(PREDS)
    target = tuple(rng.choice(vals) for _ in tv)
    kcard = rng.randint(0, len(tv))
    malformed = []
    lv_ = (lambda v: v) if exact_ints else float          # (integers beyond 2**53: the reference side stays exact too)
    levels = sorted({lv_(p.value(dict(zip(tv, a)))) for a in __import__("itertools").product(vals, repeat=len(tv))}) if len(tv) <= 7 else [0.0]
    thr_level = levels[len(levels) // 2]

    def valid(x, count=True):
        if count:
            ctx.count("valid-predicate-calls")
            if not set(tv) <= set(x) or any(v not in vals for v in x.values()):
                malformed.append(dict(x))
        if pk == "all":
            return True
        if pk == "none":
            return False
        if pk == "nested-solve":
            # "minimise F over the assignments that G's own minimiser agrees with on the first variable": the predicate itself calls
            # a brute-force solver (over the same labels)
            if count and tv:
                g_ = {(tv[0],): 1, (tv[-1],): -1} if len(tv) > 1 else {(tv[0],): 1}
                _, gs_ = (L.utils.solve_puso_bruteforce if kind == "spin" else L.utils.solve_pubo_bruteforce)(g_)
                return x[tv[0]] == gs_[tv[0]]
            return (x[tv[0]] == (vals[1] if kind == "spin" else vals[0])) if tv else True
        if pk == "parity":
            return sum(1 for v in tv if x[v] == vals[1]) % 2 == 0
        if pk == "card":
            return sum(1 for v in tv if x[v] == vals[1]) == kcard
        if pk == "reads-model":
            # "levels above a threshold": evaluates the very object that is being solved (its offset included)
            live = (L.utils.puso_value if kind == "spin" else L.utils.pubo_value)(x, m) if count else lv_(p.value(x))
            return live >= thr_level
        return tuple(x[v] for v in tv) == target
    alls = rng.random() < 0.5
    use_method = tn != "dict" and rng.random() < 0.3
    w = {"type": tn, "terms": dict(m), "predicate": pk, "all_solutions": alls, "kind": kind, "method": use_method}
    snap = dict(m)
    snap_book = (m.variables, m.mapping if hasattr(m, "mapping") else None) if tn != "dict" else None
    # reference ----------------------------------------------------------------------------
    cands = [dict(zip(tv, a)) for a in itertools.product(vals, repeat=len(tv))]
    if use_method:
        if tn in ("PCBO", "PCSO") and tv and rng.random() < 0.6:
            P = {(tv[0],): 1, (): (-1 if kind == "bool" else 0)}
            if len(tv) > 1:
                P[(tv[1],)] = 1
            m.add_constraint_le_zero(P, lam=0)       # lam=0 records the constraint only
            ctx.cat("method:PCBO-with-constraints")
            snap = dict(m)
        pred = lambda x: bool(m.is_solution_valid(x))   # noqa
        ok_set = [x for x in cands if pred(x)]
    else:
        ok_set = [x for x in cands if valid(x, count=False)]
    const = not tv
    if const:
        exp_obj, exp = p.offset(), [{}]
    elif not ok_set:
        exp_obj, exp = None, None
        ctx.cat("nothing-valid")
    else:
        exp_obj = min(p.value(x) for x in ok_set)
        exp = [x for x in ok_set if p.value(x) == exp_obj]
        if len(exp) >= 2:
            ctx.cat("ties>=2-minimisers")
    # call ---------------------------------------------------------------------------------
    if use_method:
        ctx.count("method-calls")
        ok, sol = ctx.call("%s.solve_bruteforce" % tn, m.solve_bruteforce, alls, _w=w)
        obj = "n/a"
    else:
        fname = FUNCS[(kind, deg2 and p.degree() <= 2)]
        if p.degree() > 2 or raw_dict:
            fname = FUNCS[(kind, False)]
        ctx.cat("fn:" + fname)
        w["function"] = fname
        if pk == "all" and rng.random() < 0.6:
            # default predicate: the argument is omitted.  A PCBO/PCSO may carry a recorded (unpenalised) constraint: the
            # free functions minimise the model as given, over ALL assignments
            if tn in ("PCBO", "PCSO") and tv and rng.random() < 0.7:
                m.add_constraint_eq_zero({(tv[0],): 1, (): (0 if kind == "bool" else 1)}, lam=0)
                ctx.cat("free-function-on-constrained-model")
                snap = dict(m)
                snap_book = (m.variables, m.mapping)
            ctx.cat("valid-argument-omitted")
            w["valid"] = "omitted"
            ok, res = ctx.call(fname, getattr(L.utils, fname), m, alls, _w=w) if rng.random() < 0.5 else \
                ctx.call(fname, getattr(L.utils, fname), m, all_solutions=alls, _w=w)
        else:
            ok, res = ctx.call(fname, getattr(L.utils, fname), m, alls, valid, _w=w)
        if ok:
            if not (isinstance(res, tuple) and len(res) == 2):
                ctx.violation("result-shape", "returned %r" % (res,), w)
                return
            obj, sol = res
    if not ok:
        return
    tag = "method:" if use_method else ""
    if dict(m) != snap:
        ctx.violation(tag + "model-mutated", "model changed from %r to %r" % (snap, dict(m)), w)
        return
    if snap_book is not None and (m.variables, m.mapping if hasattr(m, "mapping") else None) != snap_book:
        ctx.violation(tag + "model-bookkeeping-mutated", "variables/mapping changed", w)
        return
    if malformed:
        ctx.violation("valid-called-with-malformed-assignment", "valid() received %r" % (malformed[0],), w)
        return
    if not use_method:
        if exp_obj is None:
            if obj is not None:
                ctx.violation("objective-not-None-when-nothing-valid", "objective %r" % (obj,), w)
                return
            # only the objective (None) is promised when nothing is valid; whatever container comes back with it belongs to
            # the caller, so something the caller wrote into an earlier answer must never show up in a later one
            MARK = ("__scribble__",)
            leaked = (isinstance(sol, dict) and MARK in sol) or (isinstance(sol, list) and any(
                x_ == "__scribble__" or (isinstance(x_, dict) and MARK in x_) for x_ in sol))
            if leaked:
                ctx.violation("infeasible-answer-reused-across-calls", "the answer of an earlier infeasible call (edited by its caller) came back: %r" % (sol,), w)
                return
            ctx.count("nothing-valid-answers-checked")
            try:
                tgt = sol[0] if (isinstance(sol, list) and sol) else sol
                if isinstance(tgt, dict):
                    tgt[MARK] = 1
                if isinstance(sol, list):
                    sol.append("__scribble__")
            except Exception:   # noqa
                pass
            return
        if obj is None or frac(obj) != exp_obj:
            ctx.violation("wrong-objective" + (":constant" if const else ""), "objective %r, true minimum over valid %r" % (obj, exp_obj), w)
            return
    elif exp is None:
        return
    sols = sol if alls else [sol]
    if alls and not isinstance(sol, list):
        ctx.violation(tag + "all_solutions-not-a-list", "returned %r" % (sol,), w)
        return
    for s in sols:
        if not isinstance(s, dict):
            ctx.violation(tag + "solution-not-a-dict", "solution %r" % (s,), w)
            return
        keys = set(s)
        if not (set(tv) <= keys <= (reported | set(tv))) or (not stale and keys != set(tv)):
            ctx.violation(tag + "solution-wrong-variables", "solution over %r, model variables %r" % (sorted(map(repr, keys)), sorted(map(repr, tv))), w)
            return
        proj = {v: s[v] for v in tv}
        if proj not in exp:
            ctx.violation(tag + "solution-not-a-minimiser", "solution %r is not among the %d valid minimisers (min %r)" % (s, len(exp), exp_obj), w)
            return
    if alls:
        seen = [sorted(d.items(), key=repr) for d in sols]
        if len({repr(x) for x in seen}) != len(seen):
            ctx.violation(tag + "all_solutions-duplicates", "the same assignment is returned more than once: %r" % (sols[:4],), w)
            return
        if stale:
            got = norm([{v: s[v] for v in tv} for s in sols])
            if sorted(set(map(str, got))) != sorted(set(map(str, norm(exp)))):
                ctx.violation(tag + "all_solutions-wrong-set", "minimiser set differs", w)
                return
        elif norm(sols) != norm(exp):
            ctx.violation(tag + "all_solutions-wrong-set" + (":duplicates" if len(sols) != len(set(map(str, norm(sols)))) else ""),
                          "returned %d solutions %r, expected %d %r" % (len(sols), sols[:4], len(exp), exp[:4]), w)
            return
    if not use_method and rng.random() < 0.2:
        # the caller edits the solution(s) it got and solves the same model again
        first = repr((obj, norm(sols)))
        for sdict in sols:
            core.scribble(sdict)
        core.scribble(sol) if isinstance(sol, list) else None
        fname2 = w["function"]
        args2 = (m, alls) if w.get("valid") == "omitted" else (m, alls, valid)
        ok2, res2 = ctx.call(fname2, getattr(L.utils, fname2), *args2, _w=w)
        ctx.count("second-call-after-result-edited")
        if ok2:
            o2, s2 = res2
            s2l = s2 if alls else [s2]
            if repr((o2, norm(s2l))) != first:
                ctx.violation("second-call-differs", "after the returned solutions were edited, solving the same model again gives %r (first %s)" % (res2, first[:300]), w)
                return
    if tn != "dict" and tv and not stale and pk != "reads-model" and len(m) and rng.random() < 0.3 \
            and all(type(v_) in (int, float) and abs(v_) < 2 ** 20 for v_ in m.values()):
        # second solve of the SAME model object after it was edited in place: the number of terms stays, the function does not
        # (or, for the method of a PCBO/PCSO, only a constraint is recorded: the terms stay, the valid set does not)
        how = rng.choice(["negate", "change-coefficient", "record-constraint"] if (use_method and tn in ("PCBO", "PCSO")) else ["negate", "change-coefficient"])
        try:
            if how == "negate":
                m *= -1
            elif how == "change-coefficient":
                k_ = rng.choice([k for k in m if k] or list(m))
                m[k_] += rng.choice([5, -7, 2.5])
            else:
                m.add_constraint_eq_zero({(tv[-1],): 1, (): (-1 if kind == "bool" else 1)}, lam=0)     # "the last variable is 1 / -1"
        except Exception as e:   # noqa
            ctx.violation("second-solve:edit-raises-%s" % type(e).__name__, "%s raised %r" % (how, e), w)
            return
        ctx.cat("second-solve-after-in-place-edit:" + how)
        w2 = dict(w, then=how, terms_after=dict(m))
        p2 = ref.from_raw(kind, dict(m))
        tv2 = sorted(p2.vars(), key=repr)
        if set(tv2) != set(tv):
            return              # (a coefficient cancelled: the model went stale, which the first half of the case covers)
        if use_method:
            ok_set2 = [x for x in cands if m.is_solution_valid(x)]
        else:
            ok_set2 = [x for x in cands if valid(x, count=False)]
        if not ok_set2:
            return
        eo2 = min(p2.value(x) for x in ok_set2)
        ex2 = [x for x in ok_set2 if p2.value(x) == eo2]
        if use_method:
            ok2, sol2 = ctx.call("%s.solve_bruteforce" % tn, m.solve_bruteforce, alls, _w=w2)
            obj2 = None
        else:
            args2 = (m, alls) if w.get("valid") == "omitted" else (m, alls, valid)
            ok2, res2 = ctx.call(w["function"], getattr(L.utils, w["function"]), *args2, _w=w2)
            if ok2:
                obj2, sol2 = res2
        if not ok2:
            return
        ctx.count("second-solve-checks")
        if not use_method and (obj2 is None or frac(obj2) != eo2):
            ctx.violation("second-solve:wrong-objective", "after %s the objective is %r, true minimum %r" % (how, obj2, eo2), w2)
            return
        sols2 = sol2 if alls else [sol2]
        for s_ in sols2:
            if not isinstance(s_, dict) or {v: s_.get(v) for v in tv} not in ex2:
                ctx.violation(tag + "second-solve:solution-not-a-minimiser", "after %s the solution %r is not among the valid minimisers %r" % (how, s_, ex2[:4]), w2)
                return
        if alls and norm([{v: s_[v] for v in tv} for s_ in sols2]) != norm(ex2):
            ctx.violation(tag + "second-solve:all_solutions-wrong-set", "after %s: returned %r expected %r" % (how, sols2[:4], ex2[:4]), w2)
            return
    if len(tv) >= 2 and len(ok_set) >= 2:
        ctx.nontrivial((w.get("function", "method"), tn, sorted(snap.items(), key=repr), pk, alls, target if pk == "one" else kcard))
    ctx.sample({"type": tn, "terms": snap, "predicate": pk, "all_solutions": alls, "objective": None if obj == "n/a" else obj}, limit=3)
