"""C10 -- problem classes encode their combinatorial problem faithfully.

Every class is compared with an independent <= 15-line brute-force definition of the
problem it states; QUBO/QUSO forms are tabulated completely (<= 18 variables)."""
import itertools

import numpy as np

from .. import core, ref
from .. import lib as L

ID = "C10"
RULE = ("random small feasible instances of SetCover (weighted/unweighted, int and str elements, log_trick both ways), "
        "VertexCover (int/str vertices), BILP (<= 4 columns incl. zero columns, negative costs), JobSequencing (1-3 jobs x "
        "1-2 workers, list and dict job lengths, log_trick both ways), GraphPartitioning (2-6 vertices, unweighted for the "
        "threshold clause, weighted for the decoding clauses), NumberPartitioning (lists and tuples, negative numbers), "
        "AlternatingSectorsChain (pbc both ways); weights just above the documented threshold, far above, and default "
        "where the statement covers it; formulation size <= 18 variables. Non-trivial = instance with >= 2 feasible and "
        ">= 1 infeasible decoded solutions; distinct = digest of (class, instance, weights)"
        ' Also: zero-weight subsets, star-shaped set systems, duplicate-orientation edges and self loops, job dicts keyed by ints / gaps / mixed types, exact integers around 1e9..1e12 in NumberPartitioning, dict solutions in shuffled insertion order, defaults with B > 1, second call after result edits.')
RULE += " Rounds 9-10: AlternatingSectorsChain ground energy against the documented sector rule, an earlier solve_bruteforce call with other weights on the same instance."
TIERS = {"quick": {"shards": 8, "cases": 300}, "thorough": {"shards": 16, "cases": 5000}}
FLOOR_BASE = {"quick": 60, "thorough": 1000}    # case counts the floors below were calibrated for; the launcher scales them
CLASSES = ["SetCover", "VertexCover", "BILP", "JobSequencing", "GraphPartitioning", "NumberPartitioning", "AlternatingSectorsChain"]


def FLOORS(tier):
    q = tier == "quick"
    f = {"ground-state-rows-decoded": 1500 if q else 50000, "is_solution_valid-checks": 8000 if q else 3 * 10 ** 5,
         "solve_bruteforce-calls": 250 if q else 8000, "solve_bruteforce-all_solutions-calls": 60 if q else 2500, "SetCover:log_trick=True": 10, "SetCover:log_trick=False": 10,
         "JobSequencing:log_trick=True": 10, "JobSequencing:log_trick=False": 10, "weights:default": 100,
         "weights:just-above-threshold": 100, "spin-input-decoded": 300, "SetCover:zero-weight-subset": 7,
         "JobSequencing:dict-names:int": 4, "NumberPartitioning:large-integers": 7, "BILP:numpy-inputs": 10, "solve_bruteforce:positional-weights": 10,
         "VertexCover:duplicate-orientation-or-self-loop": 6, "SetCover:star-overlap": 6,
         "JobSequencing:dict-subclass": 2, "GraphPartitioning:isolated-vertex-as-self-loop": 4, "JobSequencing:raw-assignment-with-random-slack": 200, "convert_solution:flag-contradicts-form": 700}
    for c in CLASSES:
        f["class:" + c] = 30 if q else 1000
    return f


def bits(i, n, spin=False):
    b = [(i >> j) & 1 for j in range(n)]
    return [1 - 2 * x for x in b] if spin else b


def grounds(vals):
    m = vals.min()
    return float(m), np.flatnonzero(np.isclose(vals, m, rtol=0, atol=1e-9 * max(1.0, abs(m))))


def containers(rng, x, n):
    """the same assignment as list / tuple / dict (a dict's keys need not have been inserted in ascending order)"""
    c = rng.choice(["list", "tuple", "dict", "dict-shuffled"])
    if c == "dict-shuffled":
        items = list(enumerate(x))
        rng.shuffle(items)
        return dict(items)
    return list(x) if c == "list" else (tuple(x) if c == "tuple" else dict(enumerate(x)))


class Fail(Exception):
    pass


def case(ctx, rng, idx):
    cls = rng.choice(CLASSES)
    ctx.cat("class:" + cls)
    w = {"class": cls}

    def bad(tag, what):
        ctx.violation("%s:%s" % (cls, tag), what, dict(w))
        raise Fail()

    def call(where, f, *a, **k):
        ok, r = ctx.call("%s.%s" % (cls, where), f, *a, _w=dict(w), **k)
        if not ok:
            raise Fail()
        return r
    try:
        globals()["do_" + cls](ctx, rng, w, bad, call)
    except Fail:
        pass


def check_forms(ctx, rng, w, p, n, weights_list, cost_of, feasible_of, best, bad, call, spin_native=False, thresh_kinds=None):
    """Tabulate to_qubo and to_quso for each weight setting; weights_list = [(kind, args, kwargs, scale)].
    cost_of(decoded) -> cost; feasible_of(x_bool) -> bool (reference)."""
    for kind, args, kwargs, scale in weights_list:
        ctx.cat("weights:" + kind)
        w["weights"] = [kind, list(args), kwargs]
        for form in ("qubo", "quso"):
            D = call("to_" + form, getattr(p, "to_" + form), *args, **kwargs)
            if rng.random() < 0.2:
                first = dict(D)
                core.scribble(D)
                D = call("to_" + form, getattr(p, "to_" + form), *args, **kwargs)
                ctx.count("second-call-after-result-edited")
                if dict(D) != first:
                    bad("to_%s-second-call-differs" % form, "after the first result was edited, to_%s gives a different model" % form)
            labs = {x for k in D for x in k}
            if any((not isinstance(x, int)) or x < 0 or x >= n for x in labs):
                bad("form-label-outside-range", "to_%s uses labels %r, num_binary_variables=%d" % (form, sorted(labs), n))
            vals = ref.table(dict(D), list(range(n)), spin=(form == "quso"))
            m, gs = grounds(vals)
            if abs(m - scale * best) > 1e-7 * max(1.0, abs(scale * best)):
                bad("ground-energy-wrong:" + kind, "min of to_%s = %r, %r * optimal cost %r = %r" % (form, m, scale, best, scale * best))
            nfeas = 0
            for g in gs[:64]:
                xb = bits(int(g), n)
                ctx.count("ground-state-rows-decoded")
                feas = feasible_of(xb)
                arg = containers(rng, bits(int(g), n, spin=(form == "quso")), n)
                if form == "quso":
                    ctx.count("spin-input-decoded")
                valid = call("is_solution_valid", p.is_solution_valid, arg, spin=(form == "quso"))
                if bool(valid) != feas:
                    bad("is_solution_valid-disagrees", "is_solution_valid(%r)=%r, reference feasibility %r" % (arg, valid, feas))
                if feas:
                    dec = call("convert_solution", p.convert_solution, arg, spin=(form == "quso"))
                    c = cost_of(dec)
                    if abs(c - best) > 1e-9 * max(1.0, abs(best)):
                        if kind != "default":
                            bad("ground-state-not-optimal:" + kind, "ground state %r decodes to %r with cost %r, optimum %r" % (xb, dec, c, best))
                    else:
                        nfeas += 1
                elif kind != "default":
                    bad("ground-state-infeasible:" + kind, "ground state %r of to_%s is infeasible (A,B=%r)" % (xb, form, (args, kwargs)))
            if not nfeas:
                bad("no-feasible-optimal-ground-state:" + kind, "no ground state of to_%s decodes to a feasible optimal solution" % form)


# ---------------------------------------------------------------------------------------------------------------------
def do_SetCover(ctx, rng, w, bad, call):
    nU = rng.randint(1, 3)
    U = set(range(nU)) if rng.random() < 0.5 else set("abc"[:nU])
    N = rng.randint(1, 4)
    Ul = sorted(U, key=str)
    V = [set(rng.sample(Ul, rng.randint(1, nU))) for _ in range(N)]
    if rng.random() < 0.2:
        # star-like overlap: one common element in every subset plus private elements (multiplicity > largest subset size)
        k = rng.randint(2, 3)
        U = {"e"} | set(range(1, k + 1)) if rng.random() < 0.5 else {0} | {"p%d" % i for i in range(1, k + 1)}
        core_ = "e" if "e" in U else 0
        priv = sorted(U - {core_}, key=str)
        V = [{core_, x} for x in priv]
        if rng.random() < 0.4:
            V.append({core_})
        N, nU = len(V), len(U)
        Ul = sorted(U, key=str)
        ctx.cat("SetCover:star-overlap")
    if rng.random() < 0.3:
        V = tuple(V)
    if set().union(*V) != U:
        return
    wts = None
    if rng.random() < 0.4:
        wts = [rng.choice([0.25, 0.5, 1, 0]) for _ in range(N)]      # a subset may be free (weight 0); max(weights) == 1 is all that is asked
        wts[rng.randrange(N)] = 1
        if 0 in wts:
            ctx.cat("SetCover:zero-weight-subset")
    lt = rng.random() < 0.5
    ctx.cat("SetCover:log_trick=%s" % lt)
    w.update(U=U, V=V, weights=wts, log_trick=lt)
    snapV = [set(v) for v in V]
    p = call("init", L.problems.SetCover, U, V, weights=wts, log_trick=lt)
    n = p.num_binary_variables
    if n > 18:
        ctx.cat("skipped_large")
        return
    W = wts or [1] * N
    covers = [c for r in range(N + 1) for c in itertools.combinations(range(N), r) if set().union(set(), *[V[i] for i in c]) == U]
    best = min(sum(W[i] for i in c) for c in covers)

    def feas(xb):
        return set().union(set(), *[V[i] for i in range(N) if xb[i]]) == U
    B = rng.choice([1, 2])
    wl = [("default", (), {}, 1), ("just-above-threshold", (B * 1.05, B), {}, B), ("far-above-threshold", (), {"A": 5 * B, "B": B}, B)]
    check_forms(ctx, rng, w, p, n, wl, lambda dec: sum(W[i] for i in dec), feas, best, bad, call)
    for i in range(1 << N):
        xb = bits(i, N) + [0] * (n - N)
        ctx.count("is_solution_valid-checks")
        for arg, sp in ((containers(rng, xb, n), False), (set(j for j in range(N) if xb[j]), False), (containers(rng, [1 - 2 * v for v in xb], n), True)):
            got = call("is_solution_valid", p.is_solution_valid, arg, spin=sp) if sp else call("is_solution_valid", p.is_solution_valid, arg)
            if bool(got) != feas(xb):
                bad("is_solution_valid-disagrees", "is_solution_valid(%r)=%r, cover? %r" % (arg, got, feas(xb)))
    ctx.count("solve_bruteforce-calls")
    s = call("solve_bruteforce", p.solve_bruteforce)
    if not feas([1 if j in s else 0 for j in range(N)]) or abs(sum(W[i] for i in s) - best) > 1e-9:
        bad("solve_bruteforce-not-optimal", "solve_bruteforce() = %r, optimum %r" % (s, best))
    alls = call("solve_bruteforce", p.solve_bruteforce, all_solutions=True)
    opt = sorted(sorted(c) for c in covers if abs(sum(W[i] for i in c) - best) < 1e-9)
    if sorted(sorted(x) for x in alls) != opt:
        bad("solve_bruteforce-all_solutions-wrong", "all_solutions %r, optimal covers %r" % (alls, opt))
    if [set(v) for v in V] != snapV or p.V != type(V)(snapV):
        bad("argument-mutated", "V changed")
    if len(covers) >= 2 and len(covers) < (1 << N):
        ctx.nontrivial(("SetCover", sorted(map(str, U)), [sorted(map(str, v)) for v in V], wts, lt))
    ctx.sample({"class": "SetCover", "U": U, "V": V, "weights": wts, "log_trick": lt, "optimum": best}, limit=1)


def do_VertexCover(ctx, rng, w, bad, call):
    N = rng.randint(2, 6)
    verts = list(range(N)) if rng.random() < 0.5 else ["v%d" % i for i in range(N)]
    edges = {(verts[i], verts[j]) for i in range(N) for j in range(i + 1, N) if rng.random() < 0.5}
    if not edges:
        return
    if rng.random() < 0.25:
        # the same undirected edge listed in both orientations, and/or a self loop (its vertex must be in every cover)
        for (u, v) in rng.sample(sorted(edges, key=repr), rng.randint(1, min(2, len(edges)))):
            edges.add((v, u))
        if rng.random() < 0.4:
            u = rng.choice(verts)
            edges.add((u, u))
        ctx.cat("VertexCover:duplicate-orientation-or-self-loop")
    w.update(edges=edges)
    p = call("init", L.problems.VertexCover, set(edges))
    n = p.num_binary_variables
    vv = sorted(p.V, key=lambda x: (str(type(x)), x))
    if n != len(vv):
        bad("num_binary_variables-wrong", "n=%d for %d vertices" % (n, len(vv)))
    covers = [set(c) for r in range(len(vv) + 1) for c in itertools.combinations(vv, r) if all(u in c or v in c for u, v in edges)]
    best = min(len(c) for c in covers)
    # the decoding convention (index -> vertex) is the class's own: it is learnt from the decoding of the unit vectors, and
    # everything else (other assignments, validity, ground states, costs) is judged through that map
    learnt = []
    for i_ in range(n):
        e_ = [0] * n
        e_[i_] = 1
        d_ = call("convert_solution", p.convert_solution, e_)
        if not isinstance(d_, set) or len(d_) != 1:
            bad("convert_solution-wrong", "the single variable %d decodes to %r" % (i_, d_))
            return
        learnt.append(next(iter(d_)))
    if len(learnt) == len(vv) and set(learnt) != set(vv):
        bad("convert_solution-wrong", "the unit vectors decode to %r, the vertices are %r" % (learnt, vv))
        return
    if len(learnt) == len(vv):
        vv = learnt

    def feas(xb):
        c = {vv[i] for i in range(n) if xb[i]}
        return all(u in c or v in c for u, v in edges)
    B = rng.choice([1, 3])
    wl = [("default", (), {}, 1), ("just-above-threshold", (B * 1.01, B), {}, B), ("far-above-threshold", (5 * B, B), {}, B)]
    check_forms(ctx, rng, w, p, n, wl, lambda dec: len(dec), feas, best, bad, call)
    for i in range(1 << n):
        xb = bits(i, n)
        ctx.count("is_solution_valid-checks")
        dec = call("convert_solution", p.convert_solution, containers(rng, xb, n))
        if dec != {vv[j] for j in range(n) if xb[j]}:
            bad("convert_solution-wrong", "convert_solution(%r) = %r" % (xb, dec))
        for arg, sp in ((containers(rng, xb, n), False), (dec, False), (containers(rng, [1 - 2 * v for v in xb], n), True)):
            got = call("is_solution_valid", p.is_solution_valid, arg, spin=sp) if sp else call("is_solution_valid", p.is_solution_valid, arg)
            if bool(got) != feas(xb):
                bad("is_solution_valid-disagrees", "is_solution_valid(%r)=%r, cover? %r" % (arg, got, feas(xb)))
    ctx.count("solve_bruteforce-calls")
    s = call("solve_bruteforce", p.solve_bruteforce)
    if not isinstance(s, set) or not all(u in s or v in s for u, v in edges) or len(s) != best:
        bad("solve_bruteforce-not-optimal", "solve_bruteforce() = %r, optimum %d" % (s, best))
    alls = call("solve_bruteforce", p.solve_bruteforce, all_solutions=True)
    ctx.count("solve_bruteforce-all_solutions-calls")
    optimal = sorted(sorted(map(str, c)) for c in covers if len(c) == best)
    if sorted(sorted(map(str, x)) for x in alls) != optimal:
        bad("solve_bruteforce-all_solutions-wrong", "all_solutions %r, minimum covers %r" % (alls, optimal))
    if len(covers) >= 2:
        ctx.nontrivial(("VertexCover", sorted(map(str, edges))))
    ctx.sample({"class": "VertexCover", "edges": edges, "optimum": best}, limit=1)


def do_BILP(ctx, rng, w, bad, call):
    N = rng.randint(1, 4)
    m_ = rng.randint(1, 2)
    c = [rng.randint(-3, 3) for _ in range(N)]
    S = [[rng.randint(-2, 2) for _ in range(N)] for _ in range(m_)]
    if rng.random() < 0.25:
        j = rng.randrange(N)
        for row in S:
            row[j] = 0                      # a zero column: the variable is free in the constraints
        if rng.random() < 0.5:
            c[j] = 0
    xs = [rng.randint(0, 1) for _ in range(N)]
    b = [sum(S[j][i] * xs[i] for i in range(N)) for j in range(m_)]
    w.update(c=c, S=S, b=b)
    as_arrays = rng.random() < 0.4
    if as_arrays:
        ca_, Sa_, ba_ = np.array(c), np.array(S), np.array(b)
        p = call("init", L.problems.BILP, ca_, Sa_, ba_)
        ctx.cat("BILP:numpy-inputs")
    else:
        p = call("init", L.problems.BILP, c, S, b)
    feasset = [x for x in itertools.product((0, 1), repeat=N) if all(sum(S[j][i] * x[i] for i in range(N)) == b[j] for j in range(m_))]
    best = min(sum(ci * xi for ci, xi in zip(c, x)) for x in feasset)
    if p.num_binary_variables != N:
        bad("num_binary_variables-wrong", "n=%r" % p.num_binary_variables)
    B = rng.choice([1, 2])
    thr = B * sum(abs(v) for v in c)
    wl = [("just-above-threshold", (thr + 0.5, B), {}, B), ("far-above-threshold", (thr * 2 + 3, B), {}, B)]
    check_forms(ctx, rng, w, p, N, wl, lambda dec: float(np.dot(c, dec)), lambda xb: tuple(xb) in feasset, best, bad, call)
    for x in itertools.product((0, 1), repeat=N):
        ctx.count("is_solution_valid-checks")
        for arg, sp in ((containers(rng, list(x), N), False), (np.array(x), False), (containers(rng, [1 - 2 * v for v in x], N), True)):
            got = call("is_solution_valid", p.is_solution_valid, arg, spin=sp) if sp else call("is_solution_valid", p.is_solution_valid, arg)
            if bool(got) != (tuple(x) in feasset):
                bad("is_solution_valid-disagrees", "is_solution_valid(%r)=%r" % (arg, got))
    if as_arrays:
        # the caller goes on using its arrays; the instance keeps describing the problem it was built for
        ca_[:] = 7
        Sa_[:] = 0
        ba_[:] = 1
        for x in itertools.product((0, 1), repeat=N):
            got = call("is_solution_valid", p.is_solution_valid, list(x))
            if bool(got) != (tuple(x) in feasset):
                bad("instance-follows-the-callers-arrays", "after the caller edited the arrays it built the instance from, is_solution_valid(%r)=%r" % (x, got))
    ctx.count("solve_bruteforce-calls")
    if rng.random() < 0.5:
        if rng.random() < 0.6:
            call("solve_bruteforce", p.solve_bruteforce, A=B / 64.0, B=B)      # (an earlier call with other weights, see GraphPartitioning)
            ctx.cat("solve_bruteforce:earlier-call-with-other-weights")
        s = call("solve_bruteforce", p.solve_bruteforce, A=thr + 1, B=B)
    else:
        s = call("solve_bruteforce", p.solve_bruteforce, thr + 1, B)        # the same weights spelled positionally
        ctx.cat("solve_bruteforce:positional-weights")
    if tuple(int(v) for v in s) not in feasset or float(np.dot(c, s)) != best:
        bad("solve_bruteforce-not-optimal", "solve_bruteforce() = %r, optimum %r" % (s, best))
    alls = call("solve_bruteforce", p.solve_bruteforce, A=thr + 1, B=B, all_solutions=True)
    ctx.count("solve_bruteforce-all_solutions-calls")
    for sol in alls:
        if tuple(int(v) for v in sol) not in feasset or float(np.dot(c, sol)) != best:
            bad("solve_bruteforce-all_solutions-wrong", "all_solutions contains %r (optimum %r)" % (sol, best))
    if 2 <= len(feasset) < (1 << N):
        ctx.nontrivial(("BILP", c, S, b))
    ctx.sample({"class": "BILP", "c": c, "S": S, "b": b, "optimum": best}, limit=1)


def do_JobSequencing(ctx, rng, w, bad, call):
    nj = rng.randint(1, 3)
    m = rng.randint(1, 2)
    lengths = [rng.randint(1, 3) for _ in range(nj)]
    lt = rng.random() < 0.5
    asdict = rng.random() < 0.3
    if asdict:
        names = rng.choice([["j%d" % i for i in range(nj)], [i + 1 for i in range(nj)], [10 * (i + 1) for i in range(nj)],
                            (["a", 5, ("t", 1)])[:nj], [nj - i for i in range(nj)]])     # job names are the dict's keys: strings, ints from 1, gaps, mixed
        ctx.cat("JobSequencing:dict-names:" + ("str" if all(isinstance(x, str) for x in names) else ("int" if all(isinstance(x, int) for x in names) else "mixed")))
        jl = dict(zip(names, lengths))
        if rng.random() < 0.35:
            # "a dict": any dict -- OrderedDict, Counter, defaultdict hold the same names and lengths
            import collections
            kind_ = rng.choice(["OrderedDict", "Counter", "defaultdict"])
            jl = {"OrderedDict": collections.OrderedDict(jl), "Counter": collections.Counter(jl), "defaultdict": collections.defaultdict(int, jl)}[kind_]
            ctx.cat("JobSequencing:dict-subclass")
    else:
        jl = lengths if rng.random() < 0.5 else tuple(lengths)
    jobs = list(jl) if asdict else list(range(nj))
    length_of = (lambda j: jl[j])
    ctx.cat("JobSequencing:log_trick=%s" % lt)
    w.update(job_lengths=jl, num_workers=m, log_trick=lt)
    p = call("init", L.problems.JobSequencing, jl, m, log_trick=lt)
    n = p.num_binary_variables
    if n > 18:
        ctx.cat("skipped_large")
        return
    opt = min(max(sum(l for l, a in zip(lengths, asg) if a == wk) for wk in range(m)) for asg in itertools.product(range(m), repeat=nj))
    nx = nj * m
    # how the class numbers its variables is its own business: which variable puts which job on which worker is learnt from the
    # decoding of the unit vectors (a variable that places nothing is slack); the decoding of every other assignment, validity,
    # ground states and optimal costs are then judged against the problem's definition through that map
    where = {}
    for i_ in range(n):
        e_ = [0] * n
        e_[i_] = 1
        dec_ = call("convert_solution", p.convert_solution, e_)
        hits_ = [(j_, wk_) for wk_, cl_ in enumerate(dec_) for j_ in cl_]
        if len(hits_) == 1:
            where[i_] = hits_[0]
        elif hits_:
            bad("convert_solution-wrong", "the single variable %d decodes to several placements %r" % (i_, dec_))
            return
    if sorted(map(repr, where.values())) != sorted(repr((j_, wk_)) for j_ in jobs for wk_ in range(m)):
        bad("convert_solution-wrong", "the unit vectors decode to the placements %r; expected one variable per (job, worker)" % (sorted(map(repr, where.values())),))
        return
    xvars = sorted(where)
    slackvars = [i_ for i_ in range(n) if i_ not in where]

    def feas(xb):
        # every job on exactly one worker
        return all(sum(xb[i_] for i_, (j_, _) in where.items() if j_ == job_) == 1 for job_ in jobs)

    def cost(dec):
        return max(sum(length_of(j) for j in cl) for cl in dec)
    B = rng.choice([1, 2])
    thr = B * max(lengths)
    wl = [("default", (), {"B": B}, B), ("just-above-threshold", (thr + 0.5, B), {}, B), ("far-above-threshold", (thr * 2 + 1, B), {}, B)]
    check_forms(ctx, rng, w, p, n, wl, cost, feas, opt, bad, call)
    for i in range(1 << nx):
        xb = [0] * n
        for b_, pos_ in zip(bits(i, nx), xvars):
            xb[pos_] = b_
        if n > nx and rng.random() < 0.5:
            for pos_ in slackvars:
                xb[pos_] = rng.choice((0, 1))     # the slack part of a raw assignment is whatever the solver left there
            ctx.cat("JobSequencing:raw-assignment-with-random-slack")
        ctx.count("is_solution_valid-checks")
        dec = call("convert_solution", p.convert_solution, containers(rng, xb, n))
        exp = tuple({j_ for i_, (j_, wk_) in where.items() if wk_ == wk and xb[i_]} for wk in range(m))
        if dec != exp:
            bad("convert_solution-wrong", "convert_solution(%r) = %r expected %r" % (xb, dec, exp))
        if rng.random() < 0.5:
            # documented: the spin flag is only consulted for an all-ones assignment; otherwise the assignment tells its own form
            zb = [1 - 2 * v for v in xb]
            for raw_, flag_ in ((xb, True), (zb, False), (zb, None)):
                if all(v == 1 for v in raw_):
                    continue
                ctx.count("convert_solution:flag-contradicts-form")
                dec2 = call("convert_solution", p.convert_solution, containers(rng, raw_, n), **({} if flag_ is None else {"spin": flag_}))
                if dec2 != exp:
                    bad("convert_solution-wrong:flag-contradicts-form", "convert_solution(%r, spin=%r) = %r expected %r" % (raw_, flag_, dec2, exp))
        for arg, sp in ((containers(rng, xb, n), False), (dec, False), (containers(rng, [1 - 2 * v for v in xb], n), True)):
            got = call("is_solution_valid", p.is_solution_valid, arg, spin=sp) if sp else call("is_solution_valid", p.is_solution_valid, arg)
            if bool(got) != feas(xb):
                bad("is_solution_valid-disagrees", "is_solution_valid(%r)=%r, reference %r" % (arg, got, feas(xb)))
    ctx.count("solve_bruteforce-calls")
    s = call("solve_bruteforce", p.solve_bruteforce)
    flat = [j for cl in s for j in cl]
    if sorted(map(str, flat)) != sorted(map(str, jobs)) or cost(s) != opt:
        bad("solve_bruteforce-not-optimal", "solve_bruteforce() = %r (makespan %r), optimum %r" % (s, cost(s), opt))
    alls = call("solve_bruteforce", p.solve_bruteforce, all_solutions=True)
    ctx.count("solve_bruteforce-all_solutions-calls")
    want = set()
    for asg in itertools.product(range(m), repeat=nj):
        if max(sum(l for l, a in zip(lengths, asg) if a == wk) for wk in range(m)) == opt:
            want.add(tuple(frozenset(jobs[ji] for ji in range(nj) if asg[ji] == wk) for wk in range(m)))
    got = [tuple(frozenset(cl) for cl in sol) for sol in alls]
    if set(got) != want or len(got) != len(want):
        bad("solve_bruteforce-all_solutions-wrong", "all_solutions returned %d schedules %r, the %d optimal ones are %r" % (len(got), got[:3], len(want), sorted(map(str, want))[:3]))
    if nj >= 2 and m >= 2:
        ctx.nontrivial(("JobSequencing", lengths, m, lt, asdict))
    ctx.sample({"class": "JobSequencing", "job_lengths": jl, "num_workers": m, "log_trick": lt, "optimum": opt}, limit=1)


def do_GraphPartitioning(ctx, rng, w, bad, call):
    N = rng.choice([2, 4, 4, 6])
    verts = list(range(N)) if rng.random() < 0.5 else [chr(97 + i) for i in range(N)]
    weighted = rng.random() < 0.3
    edges = {}
    for i in range(N):
        for j in range(i + 1, N):
            if rng.random() < 0.55:
                edges[(verts[i], verts[j])] = rng.choice([1, 2, 0.5]) if weighted else 1
    loops = {}
    if {v for e in edges for v in e} != set(verts):
        if rng.random() < 0.5:
            return
        # a vertex without a neighbour is declared by a self loop (it still has to go to one of the two halves)
        for v in verts:
            if v not in {x for e in edges for x in e}:
                loops[(v, v)] = 1
        ctx.cat("GraphPartitioning:isolated-vertex-as-self-loop")
    elif rng.random() < 0.15:
        loops[(verts[0], verts[0])] = 1             # a loop on a connected vertex never crosses the cut
        ctx.cat("GraphPartitioning:self-loop")
    arg = dict(edges, **{}) if weighted else set(edges)
    if loops:
        if weighted:
            arg.update(loops)
        else:
            arg |= set(loops)
    w.update(edges=arg)
    p = call("init", L.problems.GraphPartitioning, arg)
    n = p.num_binary_variables
    if n != N:
        bad("num_binary_variables-wrong", "n=%r for %d vertices" % (n, N))
    # the class numbers vertices in its own (set iteration) order: learn the decoding from convert_solution on unit vectors
    first = call("convert_solution", p.convert_solution, [1] * n, spin=True)
    if first[0] != set(verts) or first[1] != set():
        bad("convert_solution-wrong", "all +1 spins decode to %r" % (first,))
    index_vertex = {}
    for i in range(n):
        z = [1] * n
        z[i] = -1
        dec = call("convert_solution", p.convert_solution, containers(rng, z, n), spin=True)
        if len(dec[1]) != 1 or dec[0] | dec[1] != set(verts):
            bad("convert_solution-wrong", "spins %r decode to %r" % (z, dec))
        index_vertex[i] = next(iter(dec[1]))
    if len(set(index_vertex.values())) != n:
        bad("convert_solution-wrong", "two indices decode to the same vertex")

    def cut(dec):
        return sum(wt for (u, v), wt in edges.items() if (u in dec[0]) != (v in dec[0]))

    def feas(xb):
        return sum(xb) * 2 == n
    best = min(cut(({index_vertex[i] for i in range(n) if not x[i]}, {index_vertex[i] for i in range(n) if x[i]}))
               for x in itertools.product((0, 1), repeat=n) if sum(x) * 2 == n)
    B = rng.choice([1, 2, 0.5])
    wl = []
    if not weighted:
        thr = B * min(2 * p.degree, N) / 8
        wl = [("default", (), {"B": B}, B), ("just-above-threshold", (thr * 1.01 + 1e-6, B), {}, B), ("far-above-threshold", (thr + 2, B), {}, B)]
    else:
        big = B * sum(edges.values()) + 1
        wl = [("far-above-threshold", (big, B), {}, B)]
    check_forms(ctx, rng, w, p, n, wl, cut, feas, best, bad, call)
    for i in range(1 << n):
        z = bits(i, n, spin=True)
        ctx.count("is_solution_valid-checks")
        dec = call("convert_solution", p.convert_solution, containers(rng, z, n), spin=True)
        exp = ({index_vertex[j] for j in range(n) if z[j] == 1}, {index_vertex[j] for j in range(n) if z[j] != 1})
        if tuple(dec) != exp:
            bad("convert_solution-wrong", "convert_solution(%r) = %r expected %r" % (z, dec, exp))
        for arg2 in (containers(rng, z, n), dec):
            got = call("is_solution_valid", p.is_solution_valid, arg2, spin=True)
            if bool(got) != (sum(z) == 0):
                bad("is_solution_valid-disagrees", "is_solution_valid(%r)=%r, balanced? %r" % (arg2, got, sum(z) == 0))
    ctx.count("solve_bruteforce-calls")
    if rng.random() < 0.5:
        # an earlier call on the same instance with OTHER weights (a constraint weight far too small: its answer is whatever
        # minimises that model); the call below must answer for its own weights
        call("solve_bruteforce", p.solve_bruteforce, A=B / 64.0, B=B)
        ctx.cat("solve_bruteforce:earlier-call-with-other-weights")
    # the generic brute force goes through the QUBO: a weight strictly above the threshold is needed for the guarantee
    s = call("solve_bruteforce", p.solve_bruteforce, A=wl[-1][1][0], B=B)
    if len(s[0]) != len(s[1]) or s[0] | s[1] != set(verts) or abs(cut(s) - best) > 1e-9:
        bad("solve_bruteforce-not-optimal", "solve_bruteforce() = %r (cut %r), optimum %r" % (s, cut(s), best))
    if N >= 4:
        ctx.nontrivial(("GraphPartitioning", sorted(map(str, edges.items()))))
    ctx.sample({"class": "GraphPartitioning", "edges": arg, "optimum": best}, limit=1)


def big_number_partitioning(ctx, rng, w, bad, call):
    """numbers of the order 1e9..1e12 (exact Python ints): balanced means sums are EQUAL, not close"""
    base = rng.choice([10 ** 9, 3 * 10 ** 12, 2 ** 40])
    k = rng.randint(1, 3)
    S = [base] * k + [base + rng.choice([0, 1, 7])] * k
    if rng.random() < 0.5:
        S += [base * 2, base, base + rng.choice([0, 1])]
    rng.shuffle(S)
    if rng.random() < 0.5:
        S = tuple(S)
    N = len(S)
    w.update(S=S, **{"class": "NumberPartitioning (large exact integers)"})
    p = call("init", L.problems.NumberPartitioning, S)
    ctx.cat("NumberPartitioning:large-integers")
    for i in range(1 << N):
        z = bits(i, N, True)
        d = sum(s_ * zz for s_, zz in zip(S, z))
        ctx.count("is_solution_valid-checks")
        for arg, sp in ((containers(rng, z, N), True), (containers(rng, bits(i, N, False), N), False)):
            if not sp and all(v == 1 for v in bits(i, N, False)):
                continue
            got = call("is_solution_valid", p.is_solution_valid, arg, spin=sp)
            if bool(got) != (d == 0):
                bad("is_solution_valid-disagrees:large-integers", "is_solution_valid(%r)=%r, difference of the two sums %r" % (arg, got, d))
                return
    ctx.nontrivial(("NumberPartitioning-large", list(S)))


def do_NumberPartitioning(ctx, rng, w, bad, call):
    if rng.random() < 0.15:
        return big_number_partitioning(ctx, rng, w, bad, call)
    N = rng.randint(2, 7)
    S = [rng.randint(1, 6) * rng.choice([1, 1, -1]) for _ in range(N)]
    if rng.random() < 0.5:
        # make it feasible: append the balancing number when possible
        z = [rng.choice([1, -1]) for _ in range(N)]
        d = sum(s * zz for s, zz in zip(S, z))
        if d:
            S.append(abs(d))
            N += 1
    if rng.random() < 0.5:
        S = tuple(S)
    w.update(S=S)
    p = call("init", L.problems.NumberPartitioning, S)
    if p.num_binary_variables != N:
        bad("num_binary_variables-wrong", "n=%r" % p.num_binary_variables)
    diffs = [abs(sum(s * z for s, z in zip(S, bits(i, N, True)))) for i in range(1 << N)]
    best = min(diffs) ** 2
    A = rng.choice([1, 2])
    for form in ("quso", "qubo"):
        D = call("to_" + form, getattr(p, "to_" + form), *([] if A == 1 else [A]))
        vals = ref.table(dict(D), list(range(N)), spin=(form == "quso"))
        m, gs = grounds(vals)
        ctx.cat("weights:default")
        if abs(m - A * best) > 1e-9 * max(1, A * best):
            bad("ground-energy-wrong:default", "min of to_%s = %r, A*(min difference)^2 = %r" % (form, m, A * best))
        anyopt = False
        for g in gs[:64]:
            ctx.count("ground-state-rows-decoded")
            if diffs[int(g)] ** 2 == best:
                anyopt = True
            else:
                bad("ground-state-not-optimal:default", "ground state %r has difference %r, minimum %r" % (bits(int(g), N, True), diffs[int(g)], min(diffs)))
        if not anyopt:
            bad("no-feasible-optimal-ground-state:default", "no ground state is optimal")
    T = type(S)
    for i in range(1 << N):
        z = bits(i, N, True)
        ctx.count("is_solution_valid-checks")
        ctx.count("spin-input-decoded")
        dec = call("convert_solution", p.convert_solution, containers(rng, z, N), spin=True)
        exp = (T(s for s, zz in zip(S, z) if zz == 1), T(s for s, zz in zip(S, z) if zz != 1))
        # the two parts are collections of numbers: their internal order (which follows the order of a dict's keys) is
        # not part of the decoding
        if len(dec) != 2 or any(type(d_) is not T or sorted(d_) != sorted(e_) for d_, e_ in zip(dec, exp)):
            bad("convert_solution-wrong", "convert_solution(%r) = %r expected %r" % (z, dec, exp))
        zb = bits(i, N, False)
        for arg, sp in ((containers(rng, z, N), True), (dec, True), (containers(rng, zb, N), False)):
            if not sp and all(v == 1 for v in zb):
                continue
            got = call("is_solution_valid", p.is_solution_valid, arg, spin=sp)
            if bool(got) != (diffs[i] == 0):
                bad("is_solution_valid-disagrees", "is_solution_valid(%r)=%r, difference %r" % (arg, got, diffs[i]))
    if min(diffs) == 0:
        ctx.count("solve_bruteforce-calls")
        s = call("solve_bruteforce", p.solve_bruteforce)
        if sum(s[0]) != sum(s[1]) or sorted(list(s[0]) + list(s[1])) != sorted(S):
            bad("solve_bruteforce-not-optimal", "solve_bruteforce() = %r" % (s,))
        ctx.nontrivial(("NumberPartitioning", list(S), isinstance(S, tuple)))
    ctx.sample({"class": "NumberPartitioning", "S": S, "min_difference": min(diffs)}, limit=1)


def do_AlternatingSectorsChain(ctx, rng, w, bad, call):
    N = rng.randint(2, 10)
    cl = rng.randint(2, 4)
    mn = rng.choice([1, 2, 0.5])
    mx = rng.choice([mn, 3, 6, 10])
    w.update(N=N, chain_length=cl, min_strength=mn, max_strength=mx)
    p = call("init", L.problems.AlternatingSectorsChain, N, cl, mn, mx)
    if p.num_binary_variables != N:
        bad("num_binary_variables-wrong", "n=%r" % p.num_binary_variables)
    gs_expected = {0, (1 << N) - 1}
    for pbc in (False, True):
        for form in ("quso", "qubo"):
            D = call("to_" + form, getattr(p, "to_" + form), pbc)
            vals = ref.table(dict(D), list(range(N)), spin=(form == "quso"))
            m, gs = grounds(vals)
            ctx.count("ground-state-rows-decoded", len(gs))
            ctx.cat("weights:default")
            if set(int(g) for g in gs) != gs_expected:
                bad("ground-states-wrong", "ground states of to_%s(pbc=%s): %r" % (form, pbc, [bits(int(g), N, True) for g in gs[:4]]))
            # the stated problem: bond q (between spins q and q+1, the closing bond N-1 -> 0 under pbc) has the strength of its
            # sector, max_strength for even q // chain_length and min_strength for odd ones; cost = -sum of satisfied bonds
            bonds = list(range(N - 1)) + ([N - 1] if (pbc and N > 1) else [])
            want_e = -sum((mn if (q // cl) % 2 else mx) for q in bonds)
            if N == 2 and pbc:
                want_e = None          # (the closing bond coincides with bond 0: the two readings of the documentation differ)
            if want_e is not None and abs(m - want_e) > 1e-9:
                bad("ground-energy-wrong:default", "ground energy of to_%s(pbc=%s) is %r; the sector rule gives %r" % (form, pbc, m, want_e))
    for i in range(1 << N):
        z = bits(i, N, True)
        zb = bits(i, N, False)
        ctx.count("is_solution_valid-checks")
        want = i in gs_expected
        for arg, sp in ((containers(rng, z, N), True), (containers(rng, zb, N), False)):
            if not sp and all(v == 1 for v in zb):
                continue
            got = call("is_solution_valid", p.is_solution_valid, arg, spin=sp)
            if bool(got) != want:
                bad("is_solution_valid-disagrees", "is_solution_valid(%r, spin=%s)=%r, all equal? %r" % (arg, sp, got, want))
        ctx.count("spin-input-decoded")
        dec = call("convert_solution", p.convert_solution, containers(rng, zb, N))
        if tuple(dec) != tuple(z):
            bad("convert_solution-wrong", "convert_solution(%r) = %r expected %r" % (zb, dec, z))
    ctx.count("solve_bruteforce-calls")
    s = call("solve_bruteforce", p.solve_bruteforce)
    if len(set(s)) != 1 or len(s) != N:
        bad("solve_bruteforce-not-optimal", "solve_bruteforce() = %r" % (s,))
    ctx.nontrivial(("ASC", N, cl, mn, mx))
    ctx.sample({"class": "AlternatingSectorsChain", "N": N, "chain_length": cl, "min": mn, "max": mx}, limit=1)
