"""C11 -- annealers return well-formed results whose values match their states."""
from .. import lib as L
from . import _anneal as A

ID = "C11"
EXT = "hook"
RULE = ("random documented-valid calls of anneal_qubo/quso/pubo/puso: model as dict, labelled type or Matrix type "
        "(incl. cross-kind inputs), labels from 6 pools (Matrix labels with gaps), with/without offset, fields only, "
        "constant and empty models, degree <= 6; schedule 'linear'/'geometric' (with/without temperature_range), "
        "explicit lists/tuples incl. zeros, all-zero lists and [], default; anneal_duration 1..40; complete "
        "initial_state or none; both orders; seed None/0/5/2^31-1; num_anneals in {-1,0,1,3,7}. The extension is "
        "rebuilt from the working tree with the H2 hook. Non-trivial = model with >= 2 variables, >= 2 terms and "
        "num_anneals >= 1; distinct = digest of (function, type, terms, kwargs)"
        " Also: plain dicts with explicit zero entries and long raw spellings (repeated boolean labels, inserted spin pairs), quadratic models held by higher-degree types whose degree bookkeeping still says 3, the same object annealed again after set_mapping permuted its enumeration, initial states spelled as list or tuple (integer-labelled Matrix inputs), user mappings listed in shuffled order, coefficients needing more than 24 significant bits (H2 must report zero deviation), kwargs and initial states spelled as numpy scalars, constrained PCBO/PCSO inputs with slack ancillas, one-shot iterator schedules, scribbling on returned states then the same call again, a second anneal after in-place edits (also with a complete initial_state; states name nothing outside model.variables).")
RULE += " Rounds 9-10: labelled models that are one of several siblings derived from a common ancestor (copy / constructor / sum / deepcopy), each grown by a variable of its own; about every sixth model is grown in place out of a named variable object."
TIERS = {"quick": {"shards": 8, "cases": 4000}, "thorough": {"shards": 16, "cases": 10000}}
FLOOR_BASE = {"quick": 300, "thorough": 10000}    # case counts the floors below were calibrated for; the launcher scales them


def FLOORS(tier):
    q = tier == "quick"
    f = {"result-contract-checks": 2500 if q else 10 ** 5, "empty-or-constant-model": 60, "matrix-with-gaps": 100,
         "with-initial_state": 600, "num_anneals<=0": 300, "hook-dE-checks": 10 ** 5, "hook-exactness-verdicts": 2000, "schedule:one-shot-iterator": 30, "second-anneal-after-in-place-edit": 150,
         "second-anneal:cancel": 20, "second-anneal:set0": 20, "second-anneal:with-initial_state": 15, "returned-state-scribbled": 300, "kwargs-spelled-as-numpy-scalars": 200, "constrained-model-with-ancillas": 40, "dict-with-explicit-zero-entries": 60, "initial_state-as-sequence": 100, "quadratic-model-with-stale-degree-3": 70, "dict-with-long-raw-spellings": 50, "second-anneal:after-relabelling": 180,
         "user-mapping:set_mapping": 40, "user-mapping:set_reverse_mapping": 40, "coefficients:wide-big": 100, "coefficients:wide-small": 60}
    for fn in A.FUNCS:
        for t in A.ACCEPT[fn]:
            f["cell:%s:%s" % (fn, t)] = 25 if q else 1000
    for s in ["linear", "geometric", "list", "list0", "empty", "default"]:
        f["schedule:" + s] = 150 if q else 5000
    return f

_FLOORS_BEFORE_ROUND9 = FLOORS


def FLOORS(tier):      # noqa: F811 -- floors of the input classes added in round 9 (a quarter of what seed 0 observes in the quick tier)
    f = _FLOORS_BEFORE_ROUND9(tier)
    f.update({'model-derived-from-common-ancestor:add-empty': 22, 'model-derived-from-common-ancestor:copy': 23, 'model-derived-from-common-ancestor:ctor': 23, 'model-derived-from-common-ancestor:deepcopy': 22})
    return f


def case(ctx, rng, idx):
    cfg = A.make_config(rng, one_shot_ok=True)
    fn = getattr(L.sim, cfg["fn"])
    callkw = {k: v for k, v in cfg["kw"].items() if not k.startswith("_")}
    if "_schedule_values" in cfg["kw"]:
        ctx.cat("schedule:one-shot-iterator")
    w = A.describe(cfg)
    snap = dict(cfg["model"])
    ok, res = ctx.call(cfg["fn"], fn, cfg["model"], _w=w, **callkw)
    if not ok:
        return
    ctx.cat("cell:%s:%s" % (cfg["fn"], cfg["type"]))
    ctx.cat("schedule:" + cfg["schedule_kind"])
    if not cfg["true_vars"]:
        ctx.cat("empty-or-constant-model")
    if cfg["matrix"] and cfg["full_keys"] != set(cfg["true_vars"]):
        ctx.cat("matrix-with-gaps")
    if "initial_state" in cfg["kw"]:
        ctx.cat("with-initial_state")
    if cfg["kw"]["num_anneals"] <= 0:
        ctx.cat("num_anneals<=0")
    if dict(cfg["model"]) != snap:
        ctx.violation("model-mutated", "the annealer changed its model argument", w)
        return
    if not A.check_results(ctx, cfg, res):
        return
    if cfg["user_mapping"]:
        ctx.cat("user-mapping:" + cfg["user_mapping"])
    ctx.cat("coefficients:" + cfg["coef_kind"])
    if cfg["constrained"]:
        ctx.cat("constrained-model-with-ancillas" if getattr(cfg["model"], "num_ancillas", 0) else "constrained-model")
    if cfg["numpy_spelled"]:
        ctx.cat("kwargs-spelled-as-numpy-scalars")
    if cfg["stale_degree"]:
        ctx.cat("quadratic-model-with-stale-degree-3")
    if cfg.get("derived_sibling"):
        ctx.cat("model-derived-from-common-ancestor:" + cfg["derived_sibling"])
    if cfg["long_spelling"]:
        ctx.cat("dict-with-long-raw-spellings")
    if cfg["zero_entry"]:
        ctx.cat("dict-with-explicit-zero-entries")
    if cfg["seq_state"]:
        ctx.cat("initial_state-as-sequence")
    if not A.hook_verdict(ctx, w, exact=cfg["coef_kind"] != "given"):
        return
    # the caller owns what it got back: scribbling on one returned state touches neither the other results nor the
    # results of the next (identical) call
    if len(res) and rng.random() < 0.3:
        before = [(dict(r.state), r.value) for r in res]
        st0 = res[0].state
        if rng.random() < 0.5:
            st0.clear()
        else:
            for x in list(st0):
                st0[x] = 7
            st0["scribble"] = 3
        ctx.cat("returned-state-scribbled")
        for j, r in enumerate(res):
            if j and (dict(r.state), r.value) != before[j]:
                ctx.violation("results-share-state-dicts", "editing result 0's state changed result %d: %r -> %r" % (j, before[j][0], r.state), w)
                return
        kw2 = dict(callkw)
        if "_schedule_values" in cfg["kw"]:
            kw2["schedule"] = iter(list(cfg["kw"]["_schedule_values"]))
        ok, res2 = ctx.call(cfg["fn"], fn, cfg["model"], _w=dict(w, note="same call again after the caller edited a returned state"), **kw2)
        if not ok or not A.check_results(ctx, cfg, res2, tag="after-scribble:"):
            return
        res = res2
    m = cfg["model"]
    # second look: the enumeration of the same object is permuted (no term is touched) and it is annealed again
    if cfg["type"] != "dict" and not cfg["matrix"] and hasattr(m, "set_mapping") and len(m.mapping) >= 2 \
            and "_schedule_values" not in cfg["kw"] and rng.random() < 0.25:
        mp_ = m.mapping
        vs_, idx_ = list(mp_), list(mp_.values())
        rng.shuffle(idx_)
        if rng.random() < 0.5:
            m.set_mapping(dict(zip(vs_, idx_)))
        else:
            m.set_reverse_mapping(dict(zip(idx_, vs_)))
        ctx.cat("second-anneal:after-relabelling")
        ok, res2 = ctx.call(cfg["fn"], fn, m, _w=dict(w, note="annealed, relabelled with set_mapping, annealed again", mapping_now=m.mapping), **callkw)
        if not ok or not A.check_results(ctx, cfg, res2, tag="after-relabelling:"):
            return
    # second look: the same model object is edited in place (zero-sets included) and annealed again
    if cfg["type"] != "dict" and len(m) and "initial_state" not in callkw and "_schedule_values" not in cfg["kw"] and rng.random() < 0.3:
        edit = rng.choice(["cancel", "set0", "scale", "add"])
        ks = [k for k in m if k]
        try:
            if edit == "cancel" and ks:
                k = rng.choice(ks)
                m[k] -= m[k]
            elif edit == "set0" and ks:
                m[rng.choice(ks)] = 0
            elif edit == "scale":
                m *= 2
            elif ks:
                m[rng.choice(ks)] += 4
        except KeyError:
            return
        ctx.cat("second-anneal-after-in-place-edit")
        ctx.cat("second-anneal:" + edit)
        callkw = dict(callkw)
        if (cfg["fn"], cfg["type"]) in (("anneal_puso", "PUSO"), ("anneal_puso", "PCSO"), ("anneal_puso", "QUSO"), ("anneal_quso", "QUSO")) and rng.random() < 0.6:
            dom_ = (1, -1) if A.is_spin(cfg["fn"]) else (0, 1)
            callkw["initial_state"] = {x: rng.choice(dom_) for x in m.variables}      # complete over the model's (reported) variables
            ctx.cat("second-anneal:with-initial_state")
        ok, res2 = ctx.call(cfg["fn"], fn, m, _w=dict(w, edit=edit, terms_now=dict(m), kwargs=callkw), **callkw)
        if not ok or not A.check_results_lenient(ctx, cfg, m, res2, tag="second-anneal:"):
            return
    if len(cfg["true_vars"]) >= 2 and len(cfg["terms"]) >= 2 and cfg["kw"]["num_anneals"] >= 1:
        ctx.nontrivial((cfg["fn"], cfg["type"], sorted(cfg["terms"].items(), key=repr), sorted(cfg["kw"].items(), key=repr)))
    ctx.sample({"call": w, "results": [(r.state, r.value) for r in res[:2]]}, limit=3)
