"""C12 -- annealer dynamics are reproducible Metropolis sweeps.

1 determinism (twice in-process and once in a fresh process), 2 T=0 reference sweep,
3 chi-square of the empirical final-state distribution against the exact k-step
Metropolis chain, 4 H2 in-kernel hook: dE used == E(after)-E(before) on every
considered flip, cache == recomputation at the end of every temperature step."""
import itertools
import json
import math
import os
import subprocess
import sys

import numpy as np

from .. import gen, ref
from .. import lib as L
from ..core import case_rng
from ..ref import Poly, frac
from . import _anneal as A

ID = "C12"
EXT = "hook"
RULE = ("(det) random valid calls with a fixed seed in {0,5,2^31-1}, with and without initial_state, repeated in-process "
        "and in one fresh process per shard; (T0) schedule [inf]*a + [0]*k (a in {0,1,2,3,1000}: at infinite temperature "
        "every proposed flip is accepted, so the prefix is deterministic), with or without an (ignored) anneal_duration, "
        "with initial_state, on integer-labelled Matrix models without gaps or labelled models with a user-chosen "
        "enumeration, whose coefficients are distinct powers of two (every boolean variable carries a linear term), so "
        "no energy change is exactly 0: final state compared with a Python reference sweep for in_order=True, energy "
        "monotonicity for both orders; (chi2) 2-4 spin quadratic/cubic models, k in {1,2,3} positive temperatures, "
        "1e5 anneals per call, Pearson chi-square against the exact chain (bins with expectation < 10 merged; "
        "probability-0 states must have count 0), violation iff p < 1e-9; (hook) all of the above plus 300-spin random "
        "graphs and degree-6 PUSOs run under the H2 hook. Non-trivial = model with >= 2 variables and >= 2 terms; "
        "distinct = digest of the configuration"
        ' Also: schedules [inf]*a + [0]*k (a up to 1000) with an ignored anneal_duration, labelled models with user mappings (energy clauses), models scaled by 2^-60, seeds with bit 31 set (refused or reproducible across a one-second pause), a ferromagnetic-pair ratchet run for 1000-20000 sweeps at dE/T in {9.7, 11, 13} against the exact chain, initial states spelled as a list or tuple indexed by label, zeros spelled 0, 0.0 or -0.0, labelled objects annealed once before the user mapping is set, exactness verdict (H2 maximal deviation == 0) on exactly summable workloads.')
RULE += " Rounds 9-10: labelled models that are one of several siblings derived from a common ancestor (copy / constructor / sum / deepcopy), each grown by a variable of its own; about every sixth model is grown in place out of a named variable object."
TIERS = {"quick": {"shards": 8, "cases": 200}, "thorough": {"shards": 16, "cases": 4000}}
FLOOR_BASE = {"quick": 160, "thorough": 4000}    # case counts the floors below were calibrated for; the launcher scales them
FLOOR_FIXED = {"hook:big-workloads"}
P_THRESHOLD = 1e-9


def FLOORS(tier):
    q = tier == "quick"
    return {"det:in-process": 400 if q else 15000, "det:fresh-process": 400 if q else 15000,
            "det:without-initial_state": 150, "T0:reference-sweeps": 100 if q else 4000, "T0:flips-seen": 150, "T0:schedule-container:generator": 20,
            "T0:labelled-with-user-mapping": 60, "T0:schedule-container:linear-with-zero-range": 15, "T0:tiny-scale": 40, "chi2:rare-uphill-ratchet": 8, "T0:infinite-temperature-prefix": 60, "T0:schedule-longer-than-default-duration": 15,
            "T0:anneal_duration-given-with-explicit-schedule": 40, "T0:initial_state-as-sequence": 30, "T0:annealed-before-the-user-mapping": 20, "T0:negative-zero-in-schedule": 60,
            "chi2:tests": 40 if q else 1500, "chi2:random-order": 12, "chi2:in-order": 12, "chi2:cubic": 8,
            "chi2:boolean-front-end": 8, "hook-dE-checks": 10 ** 6 if q else 5 * 10 ** 7, "hook-exactness-verdicts": 300, "hook:big-workloads": 8}


# ---- chi-square survival function (regularised upper incomplete gamma), no scipy in /venv --------------------
def gammaincc(a, x):
    if x <= 0:
        return 1.0
    if x < a + 1:
        ap, s, d = a, 1.0 / a, 1.0 / a
        for _ in range(2000):
            ap += 1
            d *= x / ap
            s += d
            if abs(d) < abs(s) * 1e-16:
                break
        return max(0.0, 1.0 - s * math.exp(-x + a * math.log(x) - math.lgamma(a)))
    b = x + 1 - a
    c = 1.0 / 1e-300
    d = 1.0 / b
    h = d
    for i in range(1, 2000):
        an = -i * (i - a)
        b += 2
        d = an * d + b
        d = 1e-300 if abs(d) < 1e-300 else d
        c = b + an / c
        c = 1e-300 if abs(c) < 1e-300 else c
        d = 1.0 / d
        de = d * c
        h *= de
        if abs(de - 1) < 1e-16:
            break
    return math.exp(-x + a * math.log(x) - math.lgamma(a)) * h


def chi2_sf(x, df):
    return gammaincc(df / 2.0, x / 2.0)


# ---- exact chain -------------------------------------------------------------------------------------------------
def exact_law(p, n, Ts, init, in_order, dom):
    """distribution over product(dom, repeat=n) after the schedule; p: Poly over labels 0..n-1"""
    states = list(itertools.product(dom, repeat=n))
    idx = {s: i for i, s in enumerate(states)}
    E = [float(p.value(dict(enumerate(s)))) for s in states]
    flip = {dom[0]: dom[1], dom[1]: dom[0]}
    prob = np.zeros(len(states))
    prob[idx[tuple(init)]] = 1.0
    cache = {}
    for T in Ts:
        if T in cache:
            for K in cache[T]:
                prob = prob @ K
            continue
        Ks = []
        for i in range(n):
            K = np.zeros((len(states),) * 2)
            for s in states:
                t = list(s)
                t[i] = flip[t[i]]
                t = tuple(t)
                dE = E[idx[t]] - E[idx[s]]
                a = 1.0 if dE <= 0 else (math.exp(-dE / T) if T > 0 else 0.0)
                K[idx[s], idx[t]] += a
                K[idx[s], idx[s]] += 1 - a
            Ks.append(K)
        if in_order:
            step = Ks
        else:
            R = sum(Ks) / n
            step = [np.linalg.matrix_power(R, n)]
        if len(step) > 1:
            M_ = step[0]
            for K in step[1:]:
                M_ = M_ @ K
            step = [M_]
        cache[T] = step
        for K in step:
            prob = prob @ K
    return states, prob


def generic_model(rng, tn, n):
    """coefficients = distinct powers of two with random signs; boolean: a linear term on every variable"""
    spin = tn in ("QUSOMatrix", "PUSOMatrix")
    d2 = tn in ("QUSOMatrix", "QUBOMatrix")
    keys = set()
    if not spin:
        keys |= {(i,) for i in range(n)}
    for i in range(n):                      # every variable in at least one term
        k = {i}
        for _ in range(rng.randint(0, 1 if d2 else 3)):
            k.add(rng.randrange(n))
        keys.add(tuple(sorted(k)))
    for _ in range(rng.randint(0, 4)):
        k = tuple(sorted(set(rng.randrange(n) for _ in range(rng.randint(1, 2 if d2 else 4)))))
        keys.add(k)
    keys = sorted(keys)
    exps = list(range(-3, len(keys) - 3))
    rng.shuffle(exps)
    terms = {k: rng.choice([1, -1]) * 2.0 ** e for k, e in zip(keys, exps)}
    if rng.random() < 0.5:
        terms[()] = rng.choice([3, -0.5])
    return terms


def det_config(rng):
    cfg = A.make_config(rng)
    cfg["kw"]["seed"] = rng.choice([0, 5, 2 ** 31 - 1, 12345])
    cfg["kw"]["num_anneals"] = rng.choice([1, 2, 4])
    if cfg["schedule_kind"] in ("empty", "list0") and rng.random() < 0.7:
        cfg["kw"]["schedule"] = [rng.choice([2, 0.7, 0.1]) for _ in range(rng.randint(1, 4))]
    return cfg


def run_det(cfg):
    res = getattr(L.sim, cfg["fn"])(cfg["model"], **cfg["kw"])
    return [[sorted(((repr(k), v) for k, v in r.state.items())), float(r.value)] for r in res]


def pick(rng):
    r = rng.random()
    return "det" if r < 0.55 else ("T0" if r < 0.82 else ("chi2" if r < 0.95 else "big"))


def setup(ctx):
    ctx.extra["det"] = {}


def case(ctx, rng, idx):
    what = pick(rng)
    {"det": case_det, "T0": case_t0, "chi2": case_chi2, "big": case_big}[what](ctx, rng, idx)
    # det and T0 workloads have exactly summable coefficients; chi2 / big ones need not
    A.hook_verdict(ctx, {"case": what, "idx": idx}, exact=what in ("det", "T0"), what=" during a %s case" % what)


def case_det(ctx, rng, idx):
    cfg = det_config(rng)
    w = A.describe(cfg)
    if rng.random() < 0.02:
        # seeds with bit 31 set (a CRC, say): refusing them is fine; if one is accepted it is "a fixed non-negative integer
        # seed", so two identical calls -- made in different clock seconds -- must agree
        import time
        cfg["kw"]["seed"] = rng.choice([2 ** 31, 2 ** 32 - 1, 2205044409])
        w = A.describe(cfg)
        try:
            a = run_det(cfg)
        except (OverflowError, ValueError, TypeError):
            ctx.cat("det:seed>=2^31-refused")
            return
        except Exception as e:  # noqa
            ctx.violation("exception:%s@%s" % (type(e).__name__, cfg["fn"]), "%r" % (e,), w)
            return
        ctx.cat("det:seed>=2^31-accepted")
        time.sleep(1.05)
        b = run_det(cfg)
        if a != b and cfg["kw"]["num_anneals"] >= 1:
            ctx.violation("nondeterministic:seed>=2^31", "seed=%r is accepted but two identical calls a second apart differ" % cfg["kw"]["seed"], w)
        return
    try:
        a = run_det(cfg)
        b = run_det(cfg)
    except Exception as e:  # noqa
        ctx.violation("exception:%s@%s" % (type(e).__name__, cfg["fn"]), "%r" % (e,), w)
        return
    ctx.count("det:in-process")
    if "initial_state" not in cfg["kw"]:
        ctx.cat("det:without-initial_state")
    if a != b:
        ctx.violation("nondeterministic:in-process", "two identical calls with seed=%r differ" % cfg["kw"]["seed"], w)
        return
    ctx.extra["det"][str(idx)] = a
    if len(cfg["true_vars"]) >= 2 and len(cfg["terms"]) >= 2:
        ctx.nontrivial(("det", cfg["fn"], cfg["type"], sorted(cfg["terms"].items(), key=repr), sorted(cfg["kw"].items(), key=repr)))


LABELLED = {"QUSOMatrix": "QUSO", "PUSOMatrix": "PUSO", "QUBOMatrix": "QUBO", "PUBOMatrix": "PUBO"}
INFTY = float("inf")


def case_t0(ctx, rng, idx):
    tn = rng.choice(["QUSOMatrix", "PUSOMatrix", "QUBOMatrix", "PUBOMatrix"])
    fn = {"QUSOMatrix": rng.choice(["anneal_quso", "anneal_puso"]), "PUSOMatrix": "anneal_puso",
          "QUBOMatrix": "anneal_qubo", "PUBOMatrix": "anneal_pubo"}[tn]
    spin = tn in ("QUSOMatrix", "PUSOMatrix")
    n = rng.randint(1, 7)
    terms = generic_model(rng, tn, n)
    if rng.random() < 0.2:
        # the same model in very small units (every coefficient times 2**-60): "negative" means negative, however small
        terms = {k: v * 2.0 ** -60 for k, v in terms.items()}
        ctx.cat("T0:tiny-scale")
    items = list(terms.items())
    rng.shuffle(items)                      # labels need not first appear in increasing order
    terms = dict(items)
    name = [i for i in range(n)]            # name[i] = label of the variable with index i
    matrix_case = True
    if rng.random() < 0.35:
        matrix_case = False
        # a labelled model with a user-chosen enumeration (listed in an order unrelated to the indices): the initial
        # state is given by label; only the energy claims apply (the exact sweep order is stated for Matrix models)
        tn = LABELLED[tn]
        pool = gen.labels(rng, 6) + ["u6", "u7"]
        name = pool[:n]
        M = getattr(L, tn)()
        for k_, v_ in items:
            M[tuple(name[i] for i in k_)] += v_
        if rng.random() < 0.5:
            # the object was annealed before under its automatic enumeration (nothing of that may be remembered)
            ctx.call(fn, getattr(L.sim, fn), M, _w={"note": "earlier anneal before the user mapping"}, num_anneals=1, anneal_duration=2, seed=1)
            ctx.cat("T0:annealed-before-the-user-mapping")
        pairs = [(name[i], i) for i in range(n)]
        rng.shuffle(pairs)
        if rng.random() < 0.5:
            M.set_mapping(dict(pairs))
        else:
            M.set_reverse_mapping({i: l for l, i in pairs})
        ctx.cat("T0:labelled-with-user-mapping")
    else:
        M = getattr(L, tn)()
        for k_, v_ in items:
            M[k_] += v_
    p = ref.from_raw("spin" if spin else "bool", terms)
    dom = (1, -1) if spin else (0, 1)
    init = {i: rng.choice(dom) for i in range(n)}
    k = rng.randint(1, 3)
    # a prefix of infinite-temperature sweeps is deterministic too: every proposed flip is accepted
    in_order = rng.random() < 0.7
    hot = rng.choice([0, 0, 0, 1, 2, 3, 1000]) if in_order else 0       # (a random-order sweep may visit a spin twice)
    sched = [INFTY] * hot + [rng.choice([0, 0, 0.0, -0.0]) for _ in range(k)]      # zero is zero, however it is spelled
    if any(str(t) == "-0.0" for t in sched):
        ctx.cat("T0:negative-zero-in-schedule")
    kw = dict(schedule=list(sched), initial_state={name[i]: v for i, v in init.items()}, in_order=in_order, num_anneals=rng.choice([1, 3]),
              seed=rng.choice([None, 3]))
    if matrix_case and rng.random() < 0.35:
        # labels 0..n-1: the state spelled as a sequence indexed by label (the repository's own tests spell it so)
        kw["initial_state"] = rng.choice([list, tuple])(init[i] for i in range(n))
        ctx.cat("T0:initial_state-as-sequence")
    if rng.random() < 0.3:
        kw["anneal_duration"] = rng.choice([1, 2, 5])       # documented: ignored when an explicit schedule is given
        ctx.cat("T0:anneal_duration-given-with-explicit-schedule")
    if hot:
        ctx.cat("T0:infinite-temperature-prefix")
    if hot + k > 1000:
        ctx.cat("T0:schedule-longer-than-default-duration")
    w = {"function": fn, "type": tn, "terms": terms, "labels_by_index": name, "mapping": dict(getattr(M, "mapping", {})),
         "kwargs": dict(kw, schedule="[inf]*%d + [0]*%d" % (hot, k))}
    cont = rng.choice(["list", "list", "tuple", "generator", "iter", "ndarray"])
    if hot == 0 and rng.random() < 0.15:
        cont = "linear-with-zero-range"       # the named 'linear' schedule between T0 = Tf = 0: k zero-temperature sweeps
    w["schedule_container"] = cont
    ctx.cat("T0:schedule-container:" + cont)
    if cont == "tuple":
        kw["schedule"] = tuple(sched)
    elif cont == "generator":
        kw["schedule"] = (t for t in list(sched))
    elif cont == "iter":
        kw["schedule"] = iter(list(sched))
    elif cont == "ndarray":
        kw["schedule"] = np.array(sched, dtype=float)
    elif cont == "linear-with-zero-range":
        kw["schedule"] = "linear"
        kw["temperature_range"] = (0, 0)
        kw["anneal_duration"] = k
    ok, res = ctx.call(fn, getattr(L.sim, fn), M, _w=w, **kw)
    if not ok:
        return
    e0 = p.value(init)
    # reference sweep
    cur = dict(init)
    if hot % 2:
        cur = {i: ((-v) if spin else (1 - v)) for i, v in cur.items()}
    e_start = p.value(cur)
    flips = 0
    tie = False
    for _ in range(k):
        for i in range(n):
            nxt = dict(cur)
            nxt[i] = (-cur[i]) if spin else (1 - cur[i])
            dE = p.value(nxt) - p.value(cur)
            if dE == 0:
                tie = True
            if dE < 0:
                cur = nxt
                flips += 1
    if tie:
        ctx.cat("T0:tie-skipped")
        return
    cur_l = {name[i]: v for i, v in cur.items()}
    for r in res:
        st = {i: r.state[name[i]] for i in range(n)} if set(r.state) == set(name) else None
        if st is None:
            ctx.violation("T0:state-wrong-variables", "state over %r, model over %r" % (sorted(map(repr, r.state)), sorted(map(repr, name))), w)
            return
        if frac(r.value) > e_start:
            ctx.violation("T0:energy-increased", "value %r > value %r at the start of the zero-temperature sweeps" % (r.value, float(e_start)), w)
            return
        if frac(r.value) != p.value(st):
            ctx.violation("T0:value-mismatch", "value %r but model at state is %r" % (r.value, float(p.value(st))), w)
            return
        if in_order and matrix_case and r.state != cur_l:       # the exact sweep order is stated for integer-labelled Matrix models
            ctx.violation("T0:state-differs-from-reference-sweep", "final %r, reference sweep %r (init %r)" % (r.state, cur_l, kw["initial_state"]), w)
            return
    if in_order and matrix_case:
        ctx.count("T0:reference-sweeps")
        ctx.count("T0:flips-seen", flips)
    if n >= 2:
        ctx.nontrivial(("T0", fn, tn, sorted(terms.items()), sorted(init.items()), k, hot, in_order))
    ctx.sample({"T0": w, "final": cur_l}, limit=2)


def case_chi2(ctx, rng, idx):
    fn = rng.choice(["anneal_quso", "anneal_puso", "anneal_puso", "anneal_qubo", "anneal_pubo", "anneal_pubo"])
    spin = A.is_spin(fn)
    d2 = A.is_deg2(fn)
    n = rng.randint(2, 4 if rng.random() < 0.4 else 3)
    tn = {"anneal_quso": "QUSOMatrix", "anneal_puso": "PUSOMatrix", "anneal_qubo": "QUBOMatrix", "anneal_pubo": "PUBOMatrix"}[fn]
    keys = {tuple(sorted(set(rng.randrange(n) for _ in range(rng.randint(1, 2 if d2 else 3))))) for _ in range(rng.randint(2, 5))}
    if not d2 and n >= 3 and rng.random() < 0.6:
        keys.add(tuple(sorted(rng.sample(range(n), 3))))
    keys |= {(i,) for i in range(n) if not any(i in k for k in keys)}
    zero_step = rng.random() < 0.25
    # with a zero-temperature step the acceptance rule is discontinuous at dE = 0, so the kernel's float arithmetic must be
    # exact: dyadic coefficients only (a mathematically zero dE computed as +-1e-17 would otherwise look like a violation)
    terms = {k: rng.choice([-1, -0.5, 0.25, 0.75, 1, 0.5, -0.25, 1.5] if zero_step else [-1, -0.5, 0.3, 0.7, 1, 0.6, -0.4, 1.5]) for k in keys}
    M = getattr(L, tn)(terms)
    p = ref.from_raw("spin" if spin else "bool", {k: frac(v) for k, v in terms.items()})
    dom = (1, -1) if spin else (0, 1)
    init = [rng.choice(dom) for _ in range(n)]
    Ts = [rng.choice([0.6, 0.9, 1.3, 2.0, 0.4]) for _ in range(rng.randint(1, 3))]
    if rng.random() < 0.2:
        # temperatures spelled as ints / numpy scalars ("an iterable of floats" in practice)
        Ts = [rng.choice([1, 2, np.int64(1), np.float32(0.5), np.float64(2.0)]) for _ in range(rng.randint(1, 3))]
        ctx.cat("chi2:temperatures-not-python-floats")
    if zero_step:
        Ts.insert(rng.randrange(len(Ts) + 1), 0)        # a zero-temperature sweep inside a positive schedule
        ctx.cat("chi2:with-zero-temperature-step")
    in_order = rng.random() < 0.5
    N = 100000
    if rng.random() < 0.12:
        # rare uphill moves: a ferromagnetic pair started aligned; leaving the well costs dE = 2 at a temperature with
        # dE/T = r (acceptance probability exp(-r) ~ 1e-5); over k sweeps the other well fills to a few per cent
        r_, k_ = rng.choice([(9.7, 1000), (11.0, 3000)] + ([(13.0, 20000)] if ctx.tier == "thorough" else []))
        n = 2
        terms = {(0, 1): -1.0} if spin else {(): -1.0, (0,): 2.0, (1,): 2.0, (0, 1): -4.0}
        M = getattr(L, tn)(terms)
        p = ref.from_raw("spin" if spin else "bool", {k: frac(v) for k, v in terms.items()})
        init = [dom[0], dom[0]] if rng.random() < 0.5 else [dom[1], dom[1]]
        Ts = [2.0 / r_] * k_
        N = 20000
        zero_step = False
        ctx.cat("chi2:rare-uphill-ratchet")
    kw = dict(schedule=Ts, initial_state=dict(enumerate(init)), in_order=in_order, num_anneals=N, seed=rng.randrange(1, 10 ** 6))
    w = {"function": fn, "type": tn, "terms": terms, "kwargs": {k: (v if k != "schedule" or len(v) < 10 else "[%r]*%d" % (v[0], len(v))) for k, v in kw.items()}}
    ok, res = ctx.call(fn, getattr(L.sim, fn), M, _w=w, **kw)
    if not ok:
        return
    states, prob = exact_law(p, n, Ts, init, in_order, dom)
    cnt = {s: 0 for s in states}
    for r in res:
        cnt[tuple(r.state[i] for i in range(n))] += 1
    obs = np.array([cnt[s] for s in states], dtype=float)
    exp = prob * N
    impossible = [(s, int(o)) for s, o, e in zip(states, obs, exp) if e == 0 and o > 0]
    ctx.count("chi2:tests")
    ctx.cat("chi2:in-order" if in_order else "chi2:random-order")
    if not d2 and any(len(k) == 3 for k in terms):
        ctx.cat("chi2:cubic")
    if not spin:
        ctx.cat("chi2:boolean-front-end")
    if impossible:
        ctx.violation("chi2:impossible-state-observed", "states of probability 0 observed: %r" % (impossible[:3],), w)
        return
    big = exp >= 10
    o = list(obs[big]) + ([obs[~big].sum()] if (~big).any() and exp[~big].sum() > 0 else [])
    e = list(exp[big]) + ([exp[~big].sum()] if (~big).any() and exp[~big].sum() > 0 else [])
    if len(e) > len(exp[big]) and e[-1] < 10 and len(e) >= 2:
        # the rare states together are still too rare for the chi-square approximation: judge them by the exact Poisson tail
        # and fold them into the largest bin for the chi-square of the rest
        lam_, k_ = float(e[-1]), int(o[-1])
        term, cdf = math.exp(-lam_), 0.0
        for j in range(k_):
            cdf += term
            term *= lam_ / (j + 1)
        tail = max(0.0, 1.0 - cdf)
        ctx.count("chi2:rare-bin-poisson-tests")
        if k_ > 0 and tail < P_THRESHOLD:
            ctx.violation("chi2:rare-states-too-frequent:" + ("in-order" if in_order else "random-order"),
                          "states of total expectation %.3g observed %d times (Poisson tail %.3g)" % (lam_, k_, tail), w)
            return
        i_max = max(range(len(e) - 1), key=lambda i_: e[i_])
        o[i_max] += o[-1]
        e[i_max] += e[-1]
        o, e = o[:-1], e[:-1]
    if len(e) < 2:
        ctx.cat("chi2:degenerate-law")
        if abs(sum(o) - N) > 0:
            ctx.violation("chi2:mass-lost", "counts do not add up", w)
        return
    chi2 = sum((a - b) ** 2 / b for a, b in zip(o, e))
    df = len(e) - 1
    pv = chi2_sf(chi2, df)
    ctx.extra.setdefault("chi2", []).append([round(chi2, 2), df, float("%.3g" % pv)])
    if pv < P_THRESHOLD:
        ctx.violation("chi2:distribution-rejected:" + ("in-order" if in_order else "random-order"),
                      "chi2=%.1f df=%d p=%.3g; observed %r expected %r" % (chi2, df, pv, [int(x) for x in o], [round(x, 1) for x in e]), w)
        return
    ctx.nontrivial(("chi2", fn, sorted(terms.items()), init, Ts[:6], len(Ts), in_order))
    ctx.sample({"chi2": w["function"], "terms": terms, "Ts": Ts[:6], "sweeps": len(Ts), "in_order": in_order, "chi2": round(chi2, 2), "df": df, "p": pv}, limit=2)


def case_big(ctx, rng, idx):
    """large workloads whose only oracle is the H2 hook (+ value == model(state))"""
    ctx.cat("hook:big-workloads")
    if rng.random() < 0.5:
        n = rng.choice([150, 300])
        terms = {}
        for _ in range(n * 3):
            i, j = rng.randrange(n), rng.randrange(n)
            if i != j:
                terms[(min(i, j), max(i, j))] = rng.choice(gen.DYADIC)
        for i in range(n):
            if rng.random() < 0.5:
                terms[(i,)] = rng.choice(gen.DYADIC)
        M = L.QUSOMatrix(terms)
        fn = "anneal_quso"
    else:
        n = rng.choice([20, 40])
        terms = {}
        for _ in range(n * 2):
            k = tuple(sorted(set(rng.randrange(n) for _ in range(rng.randint(1, 6)))))
            terms[k] = rng.choice(gen.DYADIC)
        M = L.PUSOMatrix(terms)
        fn = "anneal_puso"
    kw = dict(num_anneals=2, anneal_duration=rng.choice([5, 20]), in_order=rng.random() < 0.5, seed=rng.randrange(100),
              schedule=rng.choice(["linear", "geometric"]))
    w = {"function": fn, "n": n, "nterms": len(terms), "kwargs": kw}
    ok, res = ctx.call(fn, getattr(L.sim, fn), M, _w=w, **kw)
    if not ok:
        return
    p = ref.from_raw("spin", dict(M))
    for r in res:
        if frac(r.value) != p.value(r.state):
            ctx.violation("big:value-mismatch", "value %r, model at state %r" % (r.value, float(p.value(r.state))), w)
            return
    ctx.nontrivial(("big", fn, n, sorted(kw.items(), key=repr), len(terms)))


def finish(ctx):
    """fresh-process determinism: one subprocess per shard recomputes every det case"""
    det = ctx.extra.pop("det", {})
    if not det:
        return
    env = dict(os.environ)
    cmd = [sys.executable, "-m", "qvmon.props.c12", str(ctx.seed), str(ctx.shard), ",".join(sorted(det, key=int))]
    p = subprocess.run(cmd, env=env, capture_output=True, text=True, timeout=1800,
                       cwd=os.path.dirname(os.path.dirname(os.path.dirname(os.path.abspath(__file__)))))
    if p.returncode != 0:
        ctx.harness_errors.append({"idx": "finish", "trace": "fresh process failed rc=%s: %s" % (p.returncode, p.stderr[-1500:])})
        return
    other = json.loads(p.stdout.strip().splitlines()[-1])
    for k, a in det.items():
        ctx.count("det:fresh-process")
        if other.get(k) != json.loads(json.dumps(a)):
            ctx.idx = int(k)
            ctx.violation("nondeterministic:across-processes", "case %s: a fresh process returns different results for the same seeded call" % k,
                          {"this_process": a[:2], "fresh_process": (other.get(k) or [])[:2]})
            ctx.idx = None
            return


def _fresh_main(argv):
    import warnings
    from .. import boot
    boot.boot()
    warnings.simplefilter("ignore")
    seed, shard, idxs = int(argv[0]), int(argv[1]), [int(x) for x in argv[2].split(",")]
    out = {}
    for idx in idxs:
        rng = case_rng(seed, ID, shard, idx)
        assert pick(rng) == "det"
        out[str(idx)] = run_det(det_config(rng))
    print(json.dumps(out))


if __name__ == "__main__":
    _fresh_main(sys.argv[1:])
