"""C13 -- AnnealResults keeps `best` equal to the minimum under every list operation.

Model-based history monitor: every operation of a random history is applied to the
real AnnealResults and to a plain-list shadow; after every operation the invariant
is checked on the main collection and on every derived collection.
"""
from .. import lib as L

ID = "C13"
RULE = ("random histories (5-40 operations) over the 24 listed AnnealResults operations, operands "
        "empty or not, values drawn from 6 numbers so duplicates are frequent; every operation is "
        "mirrored on a plain-list shadow. A history is non-trivial when it contains >= 3 distinct "
        "operation kinds and the collection was non-empty at some point; distinct = digest of the "
        "operation sequence with operands"
        ' Also: element reads with int / numpy integer / __index__ / bool indices, operations a list rejects (elements and best must agree afterwards), slice assignment (plain and extended) from generators / iterators / maps, predicates with memory, value pools with +-inf and huge magnitudes, continuation on derived collections, equal-but-distinct elements, sort(key=...).')
TIERS = {"quick": {"shards": 4, "cases": 10000}, "thorough": {"shards": 16, "cases": 40000}}
FLOOR_BASE = {"quick": 900, "thorough": 20000}    # case counts the floors below were calibrated for; the launcher scales them
OPS = ["getitem", "rejected", "construct", "append", "add_state", "insert", "remove", "pop", "extend", "add", "iadd",
       "mul", "slice", "setitem", "delitem", "setslice", "delslice", "clear", "sort", "copy",
       "filter", "filter_states", "apply_function", "convert_states", "to_boolean", "to_spin"]


def FLOORS(tier):
    f = {"op:" + o: (40 if tier == "quick" else 400) for o in OPS}
    f.update({"operand:empty-other": 30, "operand:empty-self": 30, "inv-checks": 5000, "continue-on-derived": 300,
              "operand:equal-but-distinct-copy": 200, "sort:with-key": 50, "values:with-inf": 60, "values:near-ties": 60, "values:only-inf": 60,
              "filter:stateful-predicate": 30, "getitem:numpy.int64": 10, "getitem:__index__-object": 10, "setslice:extended": 20, "operand-kind:setslice:gen": 10, "operand-kind:setslice:iter": 10})
    return f


VALUES = [-2, -1, 0, 1, 2.5, -1]
INF = float("inf")
POOLS = {"near-ties": [0.1 + 0.2, 0.3, 10 ** 12, 10 ** 12 + 1, 1.0, 1.0 + 2.0 ** -40, 0.3], "plain": VALUES, "with-inf": [INF, INF, INF, 1, -1, -INF], "only-inf": [INF], "big": [2.0 ** 70, -2.0 ** 70, 1e-300, 0, 3]}


def _rresult(rng, values=VALUES):
    spin = rng.random() < 0.5
    n = rng.randint(0, 3)
    st = {i: (rng.choice((1, -1)) if spin else rng.choice((0, 1))) for i in range(n)}
    if rng.random() < 0.1:
        import numpy as np
        ty = rng.choice([np.int8, np.int64] if spin else [np.uint8, np.int64])      # states that come out of numpy arrays
        st = {i: ty(v) for i, v in st.items()}
    return L.sim.AnnealResult(st, rng.choice(values), spin)


class _Index:
    def __init__(self, i):
        self.i = i

    def __index__(self):
        return self.i


def check_inv(ctx, op, res, shadow, hist, flags=""):
    """the invariant of the statement, at the client boundary"""
    ctx.count("inv-checks")
    AR = L.sim.AnnealResults
    w = {"history": hist, "len": len(res)}
    if type(res) is not AR:
        ctx.violation("%s:not-AnnealResults%s" % (op, flags), "%s returned %s" % (op, type(res).__name__), w)
        return False
    if shadow is not None:
        if len(res) != len(shadow) or any(a is not b and not (a == b) for a, b in zip(res, shadow)):
            ctx.violation("%s:elements-differ-from-list%s" % (op, flags), "contents differ from the plain-list shadow", w)
            return False
    best = getattr(res, "best", None)
    if len(res) == 0:
        if best is not None:
            ctx.violation("%s:best-not-none-on-empty%s" % (op, flags), "best=%r on an empty collection" % (best,), w)
            return False
        return True
    if best is None:
        ctx.violation("%s:best-none-on-nonempty%s" % (op, flags), "best is %r but len=%d" % (best, len(res)), w)
        return False
    mn = min(r.value for r in res)
    if not any(best is r for r in res) and not any(best == r for r in res):
        ctx.violation("%s:best-not-element%s" % (op, flags), "best %r is not an element" % (best,), w)
        return False
    if best.value != mn:
        ctx.violation("%s:best-not-min%s" % (op, flags), "best.value=%r min=%r" % (best.value, mn), w)
        return False
    return True


def case(ctx, rng, idx):
    AR, R = L.sim.AnnealResults, L.sim.AnnealResult
    res = AR()
    shadow = []
    hist = []
    kinds = set()
    nonempty_seen = False
    pool = rng.choice(["plain", "plain", "plain", "with-inf", "only-inf", "big", "near-ties"])
    ctx.cat("values:" + pool)
    values = POOLS[pool]
    hist.append(["values", pool])
    def rresult(rng):           # every draw of this history uses its pool
        return _rresult(rng, values)
    for step in range(rng.randint(5, 40)):
        op = rng.choice(OPS)
        ctx.cat("op:" + op)
        kinds.add(op)
        self_empty = len(shadow) == 0
        if self_empty:
            ctx.cat("operand:empty-self")
        flags = ""
        derived = None          # (collection, expected plain list or None)
        exp_exc = None
        desc = [op]
        try:
            # ---- operand preparation ---------------------------------------
            if op in ("append", "insert", "setitem"):
                r = rresult(rng)
                if shadow and rng.random() < 0.3:
                    r = rng.choice(shadow).copy()          # an equal but distinct object
                    ctx.cat("operand:equal-but-distinct-copy")
                desc.append((r.state, r.value, r.spin))
            if op in ("construct", "extend", "add", "iadd", "setslice"):
                k = rng.choice([0, 0, 1, 2, 3])
                items = [rresult(rng) for _ in range(k)]
                okind = rng.choice(["list", "AnnealResults", "tuple", "gen", "iter", "map"]) if op in ("construct", "extend", "iadd", "setslice") else \
                    rng.choice(["list", "AnnealResults"])
                ctx.cat("operand-kind:%s:%s" % (op, okind))
                if k == 0:
                    ctx.cat("operand:empty-other")
                    flags = ":empty-other" if not self_empty else ":empty-both"
                elif self_empty:
                    flags = ":empty-self"
                desc.append((okind, [(x.state, x.value, x.spin) for x in items]))

                def mk():
                    if okind == "list":
                        return list(items)
                    if okind == "tuple":
                        return tuple(items)
                    if okind == "gen":
                        return (x for x in items)
                    if okind == "iter":
                        return iter(items)
                    if okind == "map":
                        return map(lambda x: x, items)
                    return AR(items)
            # ---- apply to shadow first (decides whether a list would accept) -
            if op == "rejected":
                # an operation a plain list rejects (wrong index type, index out of range, unequal extended-slice lengths, a
                # non-iterable operand): the same exception type, and the collection -- elements and best -- as it was
                r = rresult(rng)
                r.value = min([x.value for x in shadow] + [0]) - 1          # would be the new minimum
                kind_ = rng.choice(["insert-float-index", "insert-none-index", "setitem-out-of-range", "setitem-float-index",
                                    "setslice-wrong-length", "extend-non-iterable", "iadd-non-iterable", "setslice-non-iterable",
                                    "pop-float-index", "delitem-none-index"])
                desc += [kind_, (r.state, r.value, r.spin)]
                calls = {"insert-float-index": lambda c: c.insert(1.5, r), "insert-none-index": lambda c: c.insert(None, r),
                         "setitem-out-of-range": lambda c: c.__setitem__(len(c) + 3, r), "setitem-float-index": lambda c: c.__setitem__(0.0, r),
                         "setslice-wrong-length": lambda c: c.__setitem__(slice(0, None, 2), [r] * (len(c[::2]) + 1)),
                         "extend-non-iterable": lambda c: c.extend(7), "iadd-non-iterable": lambda c: c.__iadd__(7),
                         "setslice-non-iterable": lambda c: c.__setitem__(slice(0, 1), 7),
                         "pop-float-index": lambda c: c.pop(0.5), "delitem-none-index": lambda c: c.__delitem__(None)}
                ctx.cat("rejected:" + kind_)
                before_list = list(shadow)
                try:
                    calls[kind_](shadow)
                    exp_t = None
                except Exception as e0:   # noqa
                    exp_t = type(e0)
                shadow[:] = before_list
                if exp_t is None:
                    raise RuntimeError("harness: a plain list accepted " + kind_)
                got_t = None
                try:
                    calls[kind_](res)
                except Exception as e1:   # noqa
                    got_t = type(e1)
                hist.append(desc)
                # (the statement speaks of operands a list accepts; whatever the collection does with the others -- which
                #  exception, or none -- its elements and best must still agree afterwards)
                shadow[:] = list(res)
                if not check_inv(ctx, "rejected:" + kind_, res, shadow, hist, flags):
                    return
                continue
            elif op == "getitem":
                # reading one element: any index a list accepts (int, numpy integer, an object with __index__)
                if not shadow:
                    continue
                i = rng.randint(-len(shadow), len(shadow) - 1)
                import numpy as np
                how = rng.choice(["int", "numpy.int64", "numpy.intp", "__index__-object", "bool"])
                if how == "bool" and len(shadow) < 2:
                    how = "int"
                ix = {"int": i, "numpy.int64": np.int64(i), "numpy.intp": np.intp(i), "__index__-object": _Index(i), "bool": bool(i % 2)}[how]
                desc += [i, how]
                ctx.cat("getitem:" + how)
                want = shadow[ix]
                got = res[ix]
                if not (got is want or got == want) or isinstance(got, list):
                    ctx.violation("getitem:wrong-element", "res[%r] gave %r, the list gives %r" % (ix, got, want), hist + [desc])
                    return
            elif op == "construct":
                shadow = list(items)
                res = AR(mk())
            elif op == "append":
                shadow.append(r)
                res.append(r)
            elif op == "add_state":
                r = rresult(rng)
                desc.append((r.state, r.value, r.spin))
                shadow.append(r)
                res.add_state(r.state, r.value, r.spin)
            elif op == "insert":
                i = rng.randint(-len(shadow) - 2, len(shadow) + 2)
                desc.append(i)
                shadow.insert(i, r)
                res.insert(i, r)
            elif op == "remove":
                if shadow and rng.random() < 0.85:
                    r = rng.choice(shadow)
                else:
                    r = rresult(rng)
                desc.append((r.state, r.value, r.spin))
                try:
                    shadow.remove(r)
                except ValueError as e:
                    exp_exc = e
                try:
                    res.remove(r)
                    if exp_exc:
                        ctx.violation("remove:no-raise", "list.remove raised, AnnealResults.remove did not", hist + [desc])
                except ValueError:
                    if not exp_exc:
                        raise
            elif op == "pop":
                i = rng.randint(-len(shadow) - 1, len(shadow))
                desc.append(i)
                try:
                    a = shadow.pop(i)
                except IndexError as e:
                    exp_exc = e
                try:
                    b = res.pop(i)
                    if exp_exc:
                        ctx.violation("pop:no-raise", "list.pop raised, AnnealResults.pop did not", hist + [desc])
                    elif not (a is b or a == b):
                        ctx.violation("pop:wrong-element", "pop returned a different element", hist + [desc])
                except IndexError:
                    if not exp_exc:
                        raise
            elif op == "extend":
                shadow.extend(items)
                res.extend(mk())
            elif op == "add":
                out = res + mk()
                derived = (out, shadow + items)
            elif op == "iadd":
                shadow += items
                before = res
                res += mk()
                if res is not before:
                    ctx.violation("iadd:not-in-place", "+= returned a new object", hist + [desc])
            elif op == "mul":
                k = rng.choice([0, 1, 2, 3, -1])
                desc.append(k)
                out = res * k
                derived = (out, shadow * k)
            elif op == "slice":
                sl = slice(*[rng.choice([None, 0, 1, 2, -1, -2, 3]) for _ in range(2)], rng.choice([None, 1, 2, -1]))
                desc.append(repr(sl))
                out = res[sl]
                derived = (out, shadow[sl])
            elif op == "setitem":
                i = rng.randint(-len(shadow) - 1, len(shadow))
                desc.append(i)
                try:
                    shadow[i] = r
                except IndexError as e:
                    exp_exc = e
                try:
                    res[i] = r
                    if exp_exc:
                        ctx.violation("setitem:no-raise", "list item assignment raised, AnnealResults did not", hist + [desc])
                except IndexError:
                    if not exp_exc:
                        raise
            elif op == "delitem":
                i = rng.randint(-len(shadow) - 1, len(shadow))
                desc.append(i)
                try:
                    del shadow[i]
                except IndexError as e:
                    exp_exc = e
                try:
                    del res[i]
                    if exp_exc:
                        ctx.violation("delitem:no-raise", "list item deletion raised, AnnealResults did not", hist + [desc])
                except IndexError:
                    if not exp_exc:
                        raise
            elif op == "setslice":
                a = rng.choice([None, 0, 1, 2, -1])
                b = rng.choice([None, 0, 1, 2, 3, -1])
                st = rng.choice([None, None, None, 2, -1])
                if st is not None:
                    want = len(shadow[a:b:st])          # an extended slice takes exactly as many elements as it replaces
                    items[:] = [rresult(rng) for _ in range(want)]
                    desc[-1] = (okind, [(x.state, x.value, x.spin) for x in items])
                    ctx.cat("setslice:extended")
                desc.append((a, b, st))
                shadow[a:b:st] = items
                res[a:b:st] = mk()
            elif op == "delslice":
                a = rng.choice([None, 0, 1, 2, -1])
                b = rng.choice([None, 0, 1, 2, 3, -1])
                st = rng.choice([None, None, 2])
                desc.append((a, b, st))
                del shadow[a:b:st]
                del res[a:b:st]
            elif op == "clear":
                shadow.clear()
                res.clear()
            elif op == "sort":
                rev = rng.random() < 0.3
                keyname = rng.choice([None, None, "neg-value", "len-state", "value"])
                desc += [rev, keyname]
                keyf = {None: None, "neg-value": (lambda x: -x.value), "len-state": (lambda x: len(x.state)),
                        "value": (lambda x: x.value)}[keyname]
                shadow.sort(key=keyf or (lambda x: x.value), reverse=rev)
                if keyf is None:
                    res.sort(reverse=rev)
                else:
                    ctx.cat("sort:with-key")
                    res.sort(key=keyf, reverse=rev)
                vals = [x.value for x in res]
                if vals != [x.value for x in shadow]:
                    ctx.violation("sort:not-ordered-like-list-sort", "after sort(key=%s, reverse=%s) values are %r" % (keyname, rev, vals), hist + [desc])
            elif op == "copy":
                out = res.copy()
                derived = (out, list(shadow))
                if out is res:
                    ctx.violation("copy:same-object", "copy returned self", hist + [desc])
            elif op == "filter":
                t = rng.choice(values)
                if rng.random() < 0.35:
                    # a predicate with memory (drop the first k / keep by mask): the result is what list(filter(...)) gives
                    mask = [rng.random() < 0.5 for _ in shadow]
                    desc.append(("mask", mask))
                    ctx.cat("filter:stateful-predicate")

                    def pred_factory():
                        it = iter(mask)
                        return lambda x: next(it, True)
                    out = res.filter(pred_factory())
                    derived = (out, list(filter(pred_factory(), shadow)))
                else:
                    desc.append(t)
                    out = res.filter(lambda x: x.value <= t)
                    derived = (out, [x for x in shadow if x.value <= t])
            elif op == "filter_states":
                t = rng.randint(0, 3)
                desc.append(t)
                out = res.filter_states(lambda s: len(s) >= t)
                derived = (out, [x for x in shadow if len(x.state) >= t])
            elif op == "apply_function":
                c = rng.choice([-1, 1, 2])
                desc.append(c)
                out = res.apply_function(lambda x: R(x.state, x.value * c, x.spin))
                derived = (out, [R(x.state, x.value * c, x.spin) for x in shadow])
            elif op == "convert_states":
                out = res.convert_states(lambda s: {("q", k): v for k, v in s.items()})
                derived = (out, [R({("q", k): v for k, v in x.state.items()}, x.value, x.spin) for x in shadow])
            elif op == "to_boolean":
                out = res.to_boolean()
                derived = (out, None)
                ok = len(out) == len(shadow) and all(
                    o.spin is False and o.value == x.value and
                    o.state == ({k: (1 - int(v)) // 2 for k, v in x.state.items()} if x.spin else x.state)
                    for o, x in zip(out, shadow))
                back = out.to_spin().to_boolean() if ok else None
                if not ok or [(o.state, o.value) for o in back] != [(o.state, o.value) for o in out]:
                    ctx.violation("to_boolean:states-or-values", "to_boolean changed values or is not inverse of to_spin", hist + [desc])
            elif op == "to_spin":
                out = res.to_spin()
                derived = (out, None)
                ok = len(out) == len(shadow) and all(
                    o.spin is True and o.value == x.value and
                    o.state == (x.state if x.spin else {k: 1 - 2 * int(v) for k, v in x.state.items()})
                    for o, x in zip(out, shadow))
                back = out.to_boolean().to_spin() if ok else None
                if not ok or [(o.state, o.value) for o in back] != [(o.state, o.value) for o in out]:
                    ctx.violation("to_spin:states-or-values", "to_spin changed values or is not inverse of to_boolean", hist + [desc])
        except Exception as e:  # the plain list accepted the operation, the library raised
            hist.append(desc)
            ctx.exc["%s@%s" % (type(e).__name__, op)] += 1
            ctx.violation("%s:raises-%s%s" % (op, type(e).__name__, flags),
                          "%s raised %r on operands a plain list accepts" % (op, e), {"history": hist})
            return
        hist.append(desc)
        if shadow:
            nonempty_seen = True
        ok = check_inv(ctx, op, res, shadow, hist, flags)
        if ok and derived is not None:
            ok = check_inv(ctx, op + ":derived", derived[0], derived[1], hist, flags)
            if ok and derived[1] is not None and rng.random() < 0.3:
                # the history continues on the derived collection
                res, shadow = derived[0], list(derived[1])
                hist.append(["continue-on-derived"])
                ctx.cat("continue-on-derived")
        if not ok:
            return
    if len(kinds) >= 3 and nonempty_seen:
        ctx.nontrivial(hist)
    ctx.sample({"history": hist[:12], "final_len": len(res)}, limit=3)
