"""C14 -- model bookkeeping stays consistent under every history of edits.

History monitor: invariants evaluated at the client boundary after every operation
(never inside a dunder: BO.__setitem__ legitimately registers the mapping after
PUBOMatrix.__setitem__ registered the variable)."""
import copy

from .. import gen, oracles, ref
from .. import lib as L

ID = "C14"
RULE = ("random edit histories (5-30 operations) on one object of each of the ten model types: item "
        "assignment (zero values, repeated/unsorted labels), augmented item assignment, cancellation, in-place "
        "arithmetic with dict/model/scalar, update, clear, refresh, copy / copy-constructor / subs / round "
        "(history continues on the copy), add_constraint_* on PCBO/PCSO, and un-refreshed observations "
        "to_pubo/to_qubo/to_puso/to_quso/to_enumerated. Non-trivial = history with >= 4 distinct operation kinds "
        "that reached a state with >= 2 variables; distinct = digest of (type, operation list)"
        ' Also: long raw keys (9+ entries, labels repeated an even number of times), in-place powers up to 5 on small (also constrained) models, update with pairs / same-class / other-class models also into an empty model, permute_mapping with watched caller-owned dicts, frozen siblings (sources of copies and models given the same mapping dict) re-compared after every operation.')
RULE += " Rounds 9-10: update() arguments that carry penalised constraints (ancillas among their terms), histories born as a variable object (create_var / boolean_var / spin_var)."
TIERS = {"quick": {"shards": 8, "cases": 3000}, "thorough": {"shards": 16, "cases": 40000}}
FLOOR_BASE = {"quick": 450, "thorough": 15000}    # case counts the floors below were calibrated for; the launcher scales them
TYPES = ["QUBO", "PUBO", "PCBO", "QUSO", "PUSO", "PCSO", "QUBOMatrix", "PUBOMatrix", "QUSOMatrix", "PUSOMatrix"]
OPS = ["setlong", "permute_mapping", "cancel_top", "set", "set0", "setdup", "iadd_item", "isub_item", "imul_item", "cancel", "iadd0", "iadd", "isub", "imul",
       "idiv", "ipow", "update", "clear", "refresh", "copy", "derive", "constraint", "observe", "setbad"]


def FLOORS(tier):
    q = tier == "quick"
    f = {"inv-checks": 20000 if q else 10 ** 6, "refresh-exactness-checks": 800 if q else 30000,
         "observe-forms-checked": 600 if q else 20000, "constraint-ancilla-checks": 150 if q else 5000,
         "observe-with-ancillas": 60 if q else 2000, "op:construct-from-raw": 200 if q else 6000, "op:observe-after-cancel_top": 60 if q else 2000, "observe-stale-with-ancillas": 15 if q else 500, "op:derive-then-constraint": 10 if q else 300}
    f.update({"untouched-object-checks": 3000 if q else 10 ** 5, "sibling:shares-mapping-dict": 100, "sibling:source-of-copy": 300,
              "caller-dict-scribbled": 60, "update:same-class-model:into-empty": 20, "update:same-class-model": 60, "update:pairs": 60,
              "update:other-class-model": 60, "copy-by:times-one": 60, "continued-after-refused-edit": 100, "operand-with-user-mapping-and-stale-variable": 60, "update:argument-with-constraints": 20, "update:argument-with-ancillas": 6, "copy-by:neg-neg": 60, "copy-by:deepcopy": 50, "copy-by:power-one": 50, "observe:with-pairs-argument": 40, "ipow:exponent>=4:model-with-ancillas": 2})
    for t in TYPES:
        f["type:" + t] = 150 if q else 5000
    for o in OPS:
        f["op:" + o] = 100 if q else 3000
    return f


def anc_names(keys):
    return {x for k in keys for x in k if isinstance(x, str) and x.startswith("__a")}


def bookkeeping(m):
    d = {"variables": m.variables, "degree": m.degree, "nbv": m.num_binary_variables,
         "max_index": m.max_index}
    if hasattr(m, "mapping"):
        d["mapping"] = m.mapping
        d["reverse_mapping"] = m.reverse_mapping
    if hasattr(m, "num_ancillas"):
        d["num_ancillas"] = m.num_ancillas
    return d


def frozen(m):
    """deep copy of everything observable about a model"""
    d = {"terms": dict(m), "bookkeeping": copy.deepcopy(bookkeeping(m))}
    if hasattr(m, "constraints"):
        d["constraints"] = copy.deepcopy({k: [dict(c) for c in v] for k, v in m.constraints.items()})
    return d


def invariants(m, labelled):
    errs = []
    tv = oracles.true_vars(m)
    bk = bookkeeping(m)
    if not tv <= bk["variables"]:
        errs.append("variables-not-superset")
    td = max((len(k) for k in m), default=float("-inf"))
    if bk["degree"] < td:
        errs.append("degree-below-true")
    if bk["nbv"] != len(bk["variables"]):
        errs.append("nbv!=len(variables)")
    if labelled:
        mp, rm = bk["mapping"], bk["reverse_mapping"]
        if set(mp) != bk["variables"]:
            errs.append("mapping-keys!=variables")
        if len(mp) != bk["nbv"] or set(mp.values()) != set(range(bk["nbv"])):
            errs.append("mapping-values!=range(nbv)")
        if {v: k for k, v in mp.items()} != rm or len(rm) != len(mp):
            errs.append("reverse_mapping-not-inverse")
        if bk["max_index"] != bk["nbv"] - 1:
            errs.append("max_index!=nbv-1")
    else:
        want = max(bk["variables"]) if bk["variables"] else None
        if bk["max_index"] != want:
            errs.append("max_index!=max(variables)")
    if "num_ancillas" in bk:
        if bk["num_ancillas"] < len(anc_names(m)):
            errs.append("num_ancillas-below-present")
    return errs, bk


def exact_after_refresh(m, labelled):
    errs = []
    tv = oracles.true_vars(m)
    bk = bookkeeping(m)
    if bk["variables"] != tv:
        errs.append("variables-not-exact")
    td = max((len(k) for k in m), default=None)
    if td is None:
        if bk["degree"] not in (float("-inf"), 0):
            errs.append("degree-not-exact")
    elif bk["degree"] != td:
        errs.append("degree-not-exact")
    if bk["nbv"] != len(tv):
        errs.append("nbv-not-exact")
    if labelled and set(bk["mapping"]) != tv:
        errs.append("mapping-not-exact")
    return errs


def small_poly(rng, labs, deg2, kind):
    P = {}
    for _ in range(rng.randint(1, 3)):
        k = tuple(rng.sample(labs, min(len(labs), rng.randint(0, 2))))
        P[k] = P.get(k, 0) + rng.choice([-2, -1, 1, 2, 3])
    return {k: v for k, v in P.items() if v} or {(labs[0],): 1}


def case(ctx, rng, idx):
    tname = rng.choice(TYPES)
    T = getattr(L, tname)
    ctx.cat("type:" + tname)
    labelled, deg2, kind = not L.is_matrix(T), L.is_deg2(T), L.kind_of(T)
    pc = tname in ("PCBO", "PCSO")
    labs = gen.labels(rng, rng.randint(2, 5), matrix=not labelled)
    m = T()
    hist, kinds = [], set()
    if rng.random() < 0.25:
        # the model is born from a constructor call whose raw input has alias keys (several spellings of one monomial),
        # some of which cancel: bookkeeping may be loose from the start, refresh() must still make it exact
        raw = []
        for _ in range(rng.randint(1, 4)):
            k = tuple(rng.sample(labs, min(len(labs), rng.randint(1, 2 if deg2 else 3))))
            v = rng.choice(gen.DYADIC)
            raw.append((k, v))
            if rng.random() < 0.6:
                k2 = list(k)
                rng.shuffle(k2)
                if not deg2 and kind == "bool" and rng.random() < 0.5:
                    k2.append(k2[0])
                elif not deg2 and kind == "spin" and rng.random() < 0.5:
                    k2 += [labs[0], labs[0]]
                raw.append((tuple(k2), -v if rng.random() < 0.7 else v))
        try:
            m = T(raw) if rng.random() < 0.5 else T(dict(raw))
            hist.append(["construct-from-raw", raw])
            ctx.cat("op:construct-from-raw")
            if rng.random() < 0.6:
                ok, _ = ctx.call("refresh", m.refresh, _w={"type": tname, "history": hist})
                if not ok:
                    return
                hist.append(["refresh"])
                e = exact_after_refresh(m, labelled)
                ctx.count("refresh-exactness-checks")
                if e:
                    ctx.violation("refresh-after-construction:" + e[0], "refresh() right after construction from %r: %s; bookkeeping %r" % (raw, e, bookkeeping(m)),
                                  {"type": tname, "history": hist})
                    return
        except KeyError:
            m = T()
    elif rng.random() < 0.15:
        # the model is born as a variable object (create_var, boolean_var / spin_var: a one-term model carrying its name), then
        # grown in place like any other model -- its bookkeeping has to be in order from the first moment
        l0_ = labs[0]
        how_ = "create_var"
        if pc and rng.random() < 0.5:
            m = (L.boolean_var if kind == "bool" else L.spin_var)(l0_)
            how_ = "boolean_var" if kind == "bool" else "spin_var"
        else:
            m = T.create_var(l0_)
        hist.append([how_, l0_])
        ctx.cat("op:born-as-a-variable-object")
        errs0, bk0 = invariants(m, labelled)
        if errs0:
            ctx.violation("%s:%s" % (how_ if how_ == "create_var" else "boolean_var/spin_var", errs0[0]), "right after %s(%r): %s; bookkeeping %r" % (how_, l0_, errs0, bk0),
                          {"type": tname, "history": hist})
            return
    lineage = set()
    reached2 = False
    after_derive = False
    siblings = []        # (object nobody edits any more, its frozen observable state, what it is)
    watched = []         # (caller-owned container handed to the library, its content then, what it is)
    maxd = 2 if deg2 else 3

    def rkey(dup=False):
        d = rng.randint(0, maxd)
        if dup:
            k = [rng.choice(labs) for _ in range(max(1, d))]
            k.append(k[0])
            if rng.random() < 0.3:
                k.append(k[0])
            rng.shuffle(k)
            return tuple(k)
        return tuple(rng.sample(labs, min(d, len(labs))))

    for step in range(rng.randint(5, 30)):
        op = rng.choice(OPS)
        if op == "constraint" and not pc:
            op = rng.choice(["set", "iadd_item", "cancel", "observe"])
        if op == "observe" and not labelled:
            op = rng.choice(["set", "set0", "refresh"])
        if op == "derive" and tname.endswith("Matrix") and rng.random() < 0.5:
            op = "copy"
        ctx.cat("op:" + op)
        kinds.add(op)
        before_keys = anc_names(m)
        lineage |= before_keys
        snap = dict(m)
        desc = [op]
        new = m
        try:
            if op in ("set", "setdup"):
                k, v = rkey(op == "setdup"), rng.choice(gen.DYADIC)
                desc += [k, v]
                m[k] = v
            elif op == "setlong":
                # a long raw spelling of a short monomial (as produced by multiplying long keys): more than 8 entries, labels
                # repeated; in a spin key a label that occurs an even number of times is not in the monomial at all
                base = list(rkey()) or [labs[0]]
                newl = rng.choice(labs) if not labelled else (("nl%d" % step) if rng.random() < 0.7 else rng.choice(labs))
                k = base + [newl, newl] * rng.choice([1, 2])
                while len(k) <= 8:
                    x_ = rng.choice(labs)
                    k += [x_, x_]
                rng.shuffle(k)
                k, v = tuple(k), rng.choice(gen.DYADIC)
                desc += [k, v]
                if rng.random() < 0.5:
                    m[k] = v
                else:
                    m[k] += v
            elif op == "set0":
                k = rkey(rng.random() < 0.2)
                desc += [k, 0]
                m[k] = 0
            elif op == "iadd_item":
                k, v = rkey(rng.random() < 0.15), rng.choice(gen.DYADIC)
                desc += [k, v]
                m[k] += v
            elif op == "isub_item":
                k, v = rkey(), rng.choice(gen.DYADIC)
                desc += [k, v]
                m[k] -= v
            elif op == "imul_item":
                k, v = rkey(), rng.choice([0, -1, 2, 0.5])
                desc += [k, v]
                m[k] *= v
            elif op == "cancel":
                k = rng.choice(list(m)) if (m and rng.random() < 0.7) else rkey()
                desc += [k]
                m[k] -= m[k]
            elif op == "permute_mapping":
                # documented API: a user mapping that is a bijection onto 0..n-1; later edits must extend it consistently
                if not labelled or not m.mapping:
                    continue
                vs = list(m.mapping)
                perm = list(range(len(vs)))
                rng.shuffle(perm)
                if rng.random() < 0.5:
                    given = {v: perm[i] for i, v in enumerate(vs)}
                    m.set_mapping(given)
                else:
                    given = {perm[i]: v for i, v in enumerate(vs)}
                    m.set_reverse_mapping(given)
                watched.append((given, dict(given), "the dict handed to set_mapping / set_reverse_mapping"))
                if rng.random() < 0.5:
                    # the documented use: the same enumeration for a second model (a copy that is never edited again)
                    sib = T(m)
                    (sib.set_mapping if set(given) == set(vs) else sib.set_reverse_mapping)(given)
                    siblings.append((sib, frozen(sib), "a second model given the same mapping dict"))
                    ctx.cat("sibling:shares-mapping-dict")
                desc += [perm]
            elif op == "cancel_top":
                # every term of the variable registered last disappears, the variable stays registered (stale top label)
                top = None
                if labelled and m.mapping:
                    top = max(m.mapping, key=lambda x: m.mapping[x])
                elif m.variables:
                    top = max(m.variables)
                desc += [top]
                for k in [k for k in m if top in k]:
                    if rng.random() < 0.5:
                        m[k] = 0
                    else:
                        m[k] -= m[k]
                if labelled and not deg2 and len(labs) >= 3 and rng.random() < 0.7:
                    rest = [x for x in labs if x != top]
                    if len(rest) >= 3:
                        m[tuple(rng.sample(rest, 3))] += rng.choice(gen.DYADIC)     # make sure a reduction is needed
            elif op == "iadd0":
                k = rkey()
                desc += [k]
                m[k] += 0
            elif op in ("iadd", "isub"):
                which = rng.choice(["dict", "model", "scalar"])
                if which == "scalar":
                    o = rng.choice([0, 1, -2.5])
                elif which == "dict":
                    o = gen.rand_terms(rng, labs, maxd, lo=1, hi=3, raw=rng.random() < 0.3 and not deg2)
                else:
                    o = gen.model_of(T, gen.rand_terms(rng, labs, maxd, lo=1, hi=3))
                    if labelled and len(o) >= 2 and rng.random() < 0.4:
                        # the other model has a history of its own: a user enumeration, and a variable whose terms all cancelled
                        vs_ = list(o.mapping)
                        pm_ = list(range(len(vs_)))
                        rng.shuffle(pm_)
                        o.set_mapping({v_: pm_[i_] for i_, v_ in enumerate(vs_)})
                        try:
                            o[("stale_only_in_operand",)] += 3
                            o[("stale_only_in_operand",)] -= 3
                        except KeyError:
                            pass
                        ctx.cat("operand-with-user-mapping-and-stale-variable")
                desc += [which, dict(o) if isinstance(o, dict) else o]
                if op == "iadd":
                    m += o
                else:
                    m -= o
            elif op == "imul":
                which = rng.choice(["scalar", "scalar", "dict"])
                o = rng.choice([0, -1, 2, 0.5]) if which == "scalar" else gen.rand_terms(rng, labs, 1, lo=1, hi=2)
                desc += [which, o]
                m *= o
            elif op == "idiv":
                o = rng.choice([2, -4, 0.5])
                desc += [o]
                m /= o
            elif op == "ipow":
                if len(m) > (7 if pc else 4):
                    continue
                big_ = max((abs(v_) for v_ in m.values()), default=0)
                if big_ > 1e40:
                    continue
                e_ = rng.choice([2, 3, 4, 5]) if (len(m) <= (7 if pc else 2) and big_ <= 16) else 2
                if e_ >= 4:
                    ctx.cat("ipow:exponent>=4" + (":model-with-ancillas" if pc and m.num_ancillas else ""))
                desc += [e_]
                m **= e_
            elif op == "update":
                o = gen.rand_terms(rng, labs, maxd, lo=1, hi=3)
                if rng.random() < 0.3:
                    o[rkey()] = 0
                how = rng.choice(["dict", "pairs", "same-class-model", "other-class-model"])
                if rng.random() < 0.3 and len(m):
                    m.clear()                 # update() into a model that is empty at that moment
                    lineage = set()
                    before_keys = set()
                    snap = {}
                    how += ":into-empty"
                desc += [o, how]
                ctx.cat("update:" + how)
                if how.startswith("pairs"):
                    arg = list(o.items())
                elif how.startswith("same-class-model"):
                    arg = gen.model_of(T, {k: v for k, v in o.items() if v})
                    if pc and rng.random() < 0.6:
                        # the other model carries a recorded constraint of its own; it stays the other model's
                        if rng.random() < 0.5:
                            getattr(arg, "add_constraint_%s_zero" % rng.choice(["eq", "le", "ne"]))(small_poly(rng, labs, deg2, kind), lam=0)
                        else:
                            # ... a penalised one, whose slack ancillas ('__a0', ...) are terms of the other model: once they are
                            # merged in, the receiver's count has to cover them (its next constraint must not reuse the names)
                            import warnings as _w
                            with _w.catch_warnings():
                                _w.simplefilter("ignore")
                                getattr(arg, "add_constraint_%s_zero" % rng.choice(["le", "ge", "ne"]))(
                                    {(x_,): 1 for x_ in labs[:3]} if kind == "bool" else {(x_,): 1 for x_ in labs[:3]}, lam=rng.choice([1, 2]))
                            if anc_names(arg):
                                ctx.cat("update:argument-with-ancillas")
                        ctx.cat("update:argument-with-constraints")
                    if len(siblings) < 4:
                        siblings.append((arg, frozen(arg), "the model handed to update()"))
                elif how.startswith("other-class-model"):
                    T2 = {"bool": L.PUBO if labelled else L.PUBOMatrix, "spin": L.PUSO if labelled else L.PUSOMatrix}[kind]
                    arg = gen.model_of(T2, {k: v for k, v in o.items() if v})
                else:
                    arg = o
                m.update(arg)
            elif op == "clear":
                m.clear()
                lineage = set()
                before_keys = set()
            elif op == "refresh":
                pass   # handled below
            elif op == "copy":
                how = rng.choice(["copy", "ctor", "times-one", "one-times", "neg-neg", "plus-zero", "over-one", "power-one", "minus-zero", "deepcopy"])
                desc += [how]
                new = {"copy": lambda: m.copy(), "ctor": lambda: T(m), "times-one": lambda: m * 1, "one-times": lambda: 1 * m,
                       "neg-neg": lambda: -(-m), "plus-zero": lambda: m + 0, "over-one": lambda: m / 1, "power-one": lambda: m ** 1, "minus-zero": lambda: m - 0, "deepcopy": lambda: __import__("copy").deepcopy(m)}[how]()
                ctx.cat("copy-by:" + how)
            elif op == "derive":
                how = rng.choice(["subs", "round"])
                desc += [how]
                new = m.subs({}) if how == "subs" else round(m, 3)
            elif op == "setbad":
                # keys the type documents as invalid must raise KeyError and change nothing
                if deg2:
                    k = tuple(rng.sample(labs, 3)) if len(labs) >= 3 else ("p", "q", "r") if labelled else (90, 91, 92)
                elif not labelled:
                    k = rng.choice([("a",), (-1,), (0, 1.5)])
                else:
                    k = rng.choice(["ab", 3, ["a"]])
                desc += [repr(k)]
                bk0 = bookkeeping(m)
                try:
                    m[k] = 2
                    if isinstance(k, tuple) or not labelled:
                        ctx.violation("setbad:no-keyerror", "invalid key %r accepted by %s" % (k, tname), {"type": tname, "history": hist + [desc]})
                        return
                except (KeyError, TypeError):
                    pass
                if dict(m) != snap or bookkeeping(m) != bk0:
                    ctx.violation("setbad:state-changed", "rejected key %r changed the model" % (k,), {"type": tname, "history": hist + [desc]})
                    return
            elif op == "constraint":
                P = small_poly(rng, [x for x in labs], deg2, kind)
                R = rng.choice(list(oracles.REL))
                kw = {"lam": rng.choice([1, 2, 0.5])}
                if R != "eq":
                    kw["log_trick"] = rng.random() < 0.5
                desc += [R, P, kw]
                getattr(m, "add_constraint_%s_zero" % R)(P, **kw)
                ctx.count("constraint-ancilla-checks")
                if after_derive:
                    ctx.cat("op:derive-then-constraint")
                delta = ref.from_raw(kind, dict(m)) - ref.from_raw(kind, snap)
                used = anc_names(tuple(k) for k in delta.d)
                reused = used & lineage
                if reused:
                    hist.append(desc)
                    ctx.violation("constraint%s:ancilla-name-reused" % (":after-derive" if after_derive else ""),
                                  "constraint penalty uses ancilla names %r that already occurred in this model" % sorted(reused),
                                  {"type": tname, "history": hist})
                    return
        except KeyError as e:
            ctx.exc["KeyError@" + op] += 1
            if deg2 or not labelled:
                # documented: degree overflow / non-integer labels; a multi-step in-place product may be half done
                ctx.cat("expected-keyerror")
                hist.append(desc + ["KeyError"])
                # whatever the refused edit left behind (the product may be half done), the bookkeeping still has to bound it,
                # and the caller may go on using the object
                ctx.count("inv-checks")
                errs, bk = invariants(m, labelled)
                if errs:
                    ctx.violation("%s:after-refused-edit:%s" % (op, errs[0]), "after the refused %s: %s; bookkeeping %r terms %r" % (desc, errs, bk, dict(m)),
                                  {"type": tname, "history": hist})
                    return
                ctx.cat("continued-after-refused-edit")
                lineage |= anc_names(m)
                continue
            hist.append(desc)
            ctx.violation("%s:raises-KeyError" % op, "%s raised %r on %s" % (op, e, tname), {"type": tname, "history": hist})
            return
        except Exception as e:   # noqa
            hist.append(desc)
            ctx.exc["%s@%s" % (type(e).__name__, op)] += 1
            ctx.violation("%s:raises-%s" % (op, type(e).__name__), "%s raised %r on %s" % (op, e, tname), {"type": tname, "history": hist})
            return
        hist.append(desc)
        w = {"type": tname, "history": hist}
        if op in ("copy", "derive"):
            # the copy must be a new object carrying the same terms; history continues on it
            if new is m:
                ctx.violation("%s:returns-the-same-object" % op, "%s returned the model itself" % (desc,), w)
                return
            if type(new) is not T:
                ctx.violation("%s:type-changed" % op, "%s returned %s" % (desc, type(new).__name__), w)
                return
            # (`m / 1` is a float division: integer coefficients beyond 2**53 come back rounded -- Python's arithmetic, not the
            # library's; that copy is then compared as floats)
            inexact_ = op == "copy" and desc[-1] == "over-one" and any(isinstance(v, int) and abs(v) > 2 ** 53 for v in snap.values())
            if inexact_:
                same_ = set(new) == set(snap) and all(float(new[k_]) == float(snap[k_]) for k_ in snap)
            else:
                same_ = ref.from_raw(kind, dict(new)) == ref.from_raw(kind, snap)
            if not same_ and op == "copy":
                ctx.violation("copy:terms-differ", "copy has different terms", w)
                return
            if pc and op == "copy" and (new.num_ancillas != m.num_ancillas or new.constraints != m.constraints):
                ctx.violation("copy:constraints-or-ancillas-lost", "copy num_ancillas=%r (was %r)" % (new.num_ancillas, m.num_ancillas), w)
                return
            if len(siblings) < 4:
                siblings.append((m, frozen(m), "the model a %s was taken from" % op))
                ctx.cat("sibling:source-of-copy")
            m = new
            if op == "derive":
                after_derive = True
        if op == "refresh":
            p0 = ref.from_raw(kind, dict(m))
            c0 = m.constraints if pc else None
            a0 = m.num_ancillas if pc else None
            ok, _ = ctx.call("refresh", m.refresh, _w=w)
            if not ok:
                return
            ctx.count("refresh-exactness-checks")
            if ref.from_raw(kind, dict(m)) != p0:
                ctx.violation("refresh:function-changed", "refresh changed the terms", w)
                return
            if pc and (m.constraints != c0 or m.num_ancillas != a0):
                ctx.violation("refresh:constraints-or-ancillas-changed", "refresh changed constraints / num_ancillas", w)
                return
            e = exact_after_refresh(m, labelled)
            if e:
                ctx.violation("refresh:" + e[0], "after refresh: %s; bookkeeping %r" % (e, bookkeeping(m)), w)
                return
        # ---- objects nobody touched stay as they were ---------------------------------------
        for sib, fz, what in siblings:
            ctx.count("untouched-object-checks")
            now = frozen(sib)
            if now != fz:
                ctx.violation("%s:changes-an-untouched-model" % op, "%s changed (%s): %r -> %r" % (what, desc, fz, now), w)
                return
        for obj, content, what in watched:
            ctx.count("untouched-object-checks")
            if obj != content:
                ctx.violation("%s:changes-a-caller-owned-dict" % op, "%s changed: %r -> %r" % (what, content, obj), w)
                return
        if watched and rng.random() < 0.2:
            # the caller reuses its dict for something else; the model keeps its own copy
            obj = watched.pop()[0]
            bk_before = copy.deepcopy(bookkeeping(m))
            obj.clear()
            obj["scribble"] = "x"
            ctx.cat("caller-dict-scribbled")
            if bookkeeping(m) != bk_before:
                ctx.violation("set_mapping:model-aliases-the-callers-dict", "editing the dict that was handed to set_mapping changed the model's bookkeeping from %r to %r" % (bk_before, bookkeeping(m)), w)
                return
        # ---- invariants at the client boundary ------------------------------------------
        ctx.count("inv-checks")
        errs, bk = invariants(m, labelled)
        if errs:
            mech = op
            if op in ("set0", "cancel", "iadd0", "imul_item", "update", "isub_item", "iadd_item") and "mapping" in errs[0]:
                mech = op + ":zero-value-unseen-label"
            if op == "setdup" or (len(desc) > 1 and isinstance(desc[1], tuple) and len(set(desc[1])) < len(desc[1])):
                mech = op + ":repeated-label-" + kind
            ctx.violation("%s:%s" % (mech, errs[0]), "after %s: %s; bookkeeping %r terms %r" % (desc, errs, bk, dict(m)), w)
            return
        if len(oracles.true_vars(m)) >= 2:
            reached2 = True
        # ---- un-refreshed observation of produced forms -----------------------------------
        if op == "cancel_top" and labelled and rng.random() < 0.8:
            op = "observe"
            ctx.cat("op:observe-after-cancel_top")
            desc.append("then-observe")
        if op == "observe":
            forms = ["qubo", "quso", "pubo", "puso", "enum"]
            form = rng.choice(forms)
            deg = rng.choice([2, 3])
            if "then-observe" in desc:
                form, deg = rng.choice(["qubo", "quso", "pubo", "puso"]), 2
            desc += [form, deg]
            snapm = dict(m)
            if form == "enum":
                ok, D = ctx.call("to_enumerated", m.to_enumerated, _w=w)
                form2 = "puso" if kind == "spin" else "pubo"
                form2 = {"QUBO": "qubo", "QUSO": "quso"}.get(tname, form2)
                deg = None
            else:
                if deg2 and form in ("pubo", "puso"):
                    deg = None
                pairs_ = None
                tv_ = sorted(oracles.true_vars(m), key=repr)
                if len(tv_) >= 3 and rng.random() < 0.25:
                    # the optional `pairs` argument: products the caller wants reduced first (others may still be needed)
                    pairs_ = {tuple(rng.sample(tv_, 2)) for _ in range(rng.randint(1, 2))}
                    desc += ["pairs", sorted(pairs_, key=repr)]
                    ctx.cat("observe:with-pairs-argument")
                ok, D = ctx.call("to_" + form, oracles.call_form, m, form, deg, None, pairs_, _w=w)
                form2 = form
            if not ok:
                return
            if dict(m) != snapm:
                ctx.violation("observe:model-mutated", "to_%s changed the model" % form, w)
                return
            r = oracles.reduction_oracle(ctx, m, D, form2, deg, True, w, tag="observe:", rng=rng,
                                         check_type=(form != "enum" or True))
            if r is None:
                return
            ctx.count("observe-forms-checked")
            if r["anc"]:
                ctx.cat("observe-with-ancillas")
                if set(m.mapping) != oracles.true_vars(m):
                    ctx.cat("observe-stale-with-ancillas")
    if len(kinds) >= 4 and reached2:
        ctx.nontrivial((tname, hist))
    ctx.sample({"type": tname, "history": hist[:10]}, limit=3)
