"""C15 -- approximate extrema always enclose the true extrema; anneal_temperature_range is ordered."""
import math

from .. import gen, ref
from .. import lib as L
from ..ref import frac

ID = "C15"
RULE = ("approximate_{pubo,qubo,puso,quso}_extrema on raw dicts (unsorted / repeated labels) and all model types of the "
        "matching kind, degree <= 6, <= 12 variables, dyadic coefficients (exact comparison) or arbitrary floats "
        "(tolerance 1e-9*sum|coef|), constant and empty models; anneal_temperature_range on boolean and spin models "
        "(dict and model objects) with admissible probability pairs including 0 and equal values, variable-free "
        "models, and (flagged class) stale models. Oracle: exact extrema from the reference truth table. "
        "Non-trivial = model with >= 2 variables and >= 2 non-constant terms; distinct = digest of (function, type, terms)"
        ' Also: the documented keyword spelling of the argument, a refused call (a coefficient that is no number, put right afterwards) before the valid one, long raw spellings of monomials, full-matrix style dicts with diagonal keys and both orientations, models scaled by 2^-70, exact-arithmetic coefficients (ints above 2^53, thirds, sevenths), single-scale models with two-digit equal probabilities, plain dicts whose variable-carrying terms cancel under two spellings, a second look after in-place edits.')
RULE += " Rounds 9-10: named variable objects scaled / divided / shifted / grown in place."
TIERS = {"quick": {"shards": 8, "cases": 6000}, "thorough": {"shards": 16, "cases": 50000}}
FLOOR_BASE = {"quick": 500, "thorough": 20000}    # case counts the floors below were calibrated for; the launcher scales them
FN = {"approximate_pubo_extrema": ("bool", False), "approximate_qubo_extrema": ("bool", True),
      "approximate_puso_extrema": ("spin", False), "approximate_quso_extrema": ("spin", True)}
TYPES = {"bool": ["dict", "QUBO", "PUBO", "PCBO", "QUBOMatrix", "PUBOMatrix"],
         "spin": ["dict", "QUSO", "PUSO", "PCSO", "QUSOMatrix", "PUSOMatrix"]}


def FLOORS(tier):
    q = tier == "quick"
    f = {"temperature-range-calls": 600 if q else 20000, "temperature:no-variables": 40, "temperature:zero-prob": 80,
         "temperature:equal-probs": 40, "constant-model": 60, "raw-repeated-labels": 40, "real-coefficients": 150,
         "temperature:stale-model": 20, "second-look-checks": 500 if q else 20000, "second-look:cancel-all": 40, "second-look:clear": 40, "exact-arithmetic": 100,
         "dict-with-zero-coefficients": 60, "temperature:dict-with-zero-coefficients": 20, "raw-diagonal-keys": 100, "refused-call-first": 300, "called-by-keyword": 500, "raw-long-spellings": 100, "tiny-scale": 150, "many-terms": 4, "temperature:alias-spellings-cancel": 10,
         "temperature:single-scale-model": 80}
    for fn in FN:
        f["fn:" + fn] = 300 if q else 15000
    return f

_FLOORS_BEFORE_ROUND9 = FLOORS


def FLOORS(tier):      # noqa: F811 -- floors of the input classes added in round 9 (a quarter of what seed 0 observes in the quick tier)
    f = _FLOORS_BEFORE_ROUND9(tier)
    f.update({'named-variable-edited-in-place': 55})
    return f


def exact_case(ctx, rng):
    """coefficients that floats cannot hold (ints above 2**53, thirds, sevenths): bounds compared exactly with Fractions"""
    import itertools
    from fractions import Fraction as F
    fn = rng.choice(list(FN))
    kind, d2 = FN[fn]
    labs = gen.labels(rng, rng.randint(1, 5))
    coefs = [2 ** 53 + 1, -(2 ** 60 + 3), F(1, 3), F(-2, 7), 1, -1, F(5, 3), 2 ** 53, 3]
    terms = gen.rand_terms(rng, labs, 2 if d2 else 3, coefs=coefs, lo=1, hi=6)
    tn = rng.choice(["dict", "model"])
    if rng.random() < 0.15:
        terms = {(): rng.choice(coefs)}
    if tn == "model":
        T = getattr(L, {"bool": "QUBO" if d2 else "PUBO", "spin": "QUSO" if d2 else "PUSO"}[kind])
        m = gen.model_of(T, terms)
    else:
        m = dict(terms)
    p = ref.from_raw(kind, dict(m))
    order = sorted(p.vars(), key=repr)
    vals = (0, 1) if kind == "bool" else (1, -1)
    allv = [p.value(dict(zip(order, a))) for a in itertools.product(vals, repeat=len(order))]
    tmin, tmax = min(allv), max(allv)
    w = {"function": fn, "type": tn, "terms": dict(m), "class": "exact-arithmetic"}
    ok, res = ctx.call(fn, getattr(L.utils, fn), m, _w=w)
    if not ok:
        return
    ctx.cat("exact-arithmetic")
    lo, hi = res
    if frac(lo) > tmin:
        ctx.violation(fn + ":lower-bound-above-minimum:exact", "lo=%r > exact min %s" % (lo, tmin), w)
        return
    if frac(hi) < tmax:
        ctx.violation(fn + ":upper-bound-below-maximum:exact", "hi=%r < exact max %s" % (hi, tmax), w)
        return
    if all(not k for k in m) and not (frac(lo) == frac(hi) == frac(m.get((), 0))):
        ctx.violation(fn + ":constant-model-not-tight:exact", "constant %r gives (%r, %r)" % (m.get((), 0), lo, hi), w)
        return
    if len(order) >= 2:
        ctx.nontrivial(("exact", fn, tn, sorted(map(repr, m.items()))))


KWNAME = {"approximate_pubo_extrema": "P", "approximate_qubo_extrema": "Q", "approximate_puso_extrema": "H", "approximate_quso_extrema": "L"}


def case(ctx, rng, idx):
    r0 = rng.random()
    if r0 < 0.06:
        return exact_case(ctx, rng)
    if r0 < 0.34:
        return temperature(ctx, rng)
    fn = rng.choice(list(FN))
    kind, d2 = FN[fn]
    tn = rng.choice([t for t in TYPES[kind] if not (d2 and t in ("PUBO", "PCBO", "PUSO", "PCSO", "PUBOMatrix", "PUSOMatrix"))])
    mat = tn.endswith("Matrix")
    real = rng.random() < 0.2
    coefs = [rng.uniform(-4, 4) for _ in range(5)] if real else gen.DYADIC
    labs = gen.labels(rng, rng.randint(1, 6), matrix=mat)
    if rng.random() < 0.3 and not mat:
        labs = labs + ["w%d" % i for i in range(rng.randint(1, 6))]
    maxd = 2 if (d2 or L.is_deg2(getattr(L, tn)) if tn != "dict" else d2) else rng.choice([2, 3, 4, 6])
    r = rng.random()
    if r < 0.05:
        terms = {(): rng.choice(coefs)} if rng.random() < 0.7 else {}
        ctx.cat("constant-model")
    else:
        raw = tn == "dict" and rng.random() < 0.5
        terms = gen.rand_terms(rng, labs, maxd, coefs=coefs, raw=raw, lo=1, hi=9)
        if raw and d2 and rng.random() < 0.6:
            # the quadratic functions on a full-matrix style dict: diagonal keys (i, i) next to (i,), both orientations
            items = list(terms.items())
            for x in labs[:3]:
                items.append(((x, x), rng.choice(coefs)))
                items.append(((x,), rng.choice(coefs)))
            for (k, v) in list(items):
                if len(k) == 2 and k[0] != k[1] and rng.random() < 0.5:
                    items.append(((k[1], k[0]), rng.choice(coefs)))
            rng.shuffle(items)
            terms = {}
            for k, v in items:
                terms.setdefault(k, v)
            ctx.cat("raw-diagonal-keys")
        if raw and rng.random() < 0.3:
            # longer spellings of the same monomials: a boolean label repeated (x*x = x), a pair of equal spins inserted (z*z = 1)
            t2 = {}
            for k, v in terms.items():
                k = list(k)
                if k and rng.random() < 0.6:
                    if kind == "bool":
                        k.append(rng.choice(k))
                    else:
                        y_ = rng.choice(labs)
                        k += [y_, y_]
                    rng.shuffle(k)
                t2.setdefault(tuple(k), v)
            terms = t2
            ctx.cat("raw-long-spellings")
        if raw and any(len(set(k)) < len(k) for k in terms):
            ctx.cat("raw-repeated-labels")
    if not real and tn == "dict" and not d2 and rng.random() < 0.03:
        # a dense model: well over a hundred terms, most of one sign
        labs = list(range(8)) if rng.random() < 0.5 else ["v%d" % i for i in range(8)]
        sign = rng.choice([1, -1])
        mixed = rng.random() < 0.4          # otherwise every term has the same sign: the bound is attained at all ones
        terms = {}
        for mask in range(1, 256):
            if rng.random() < 0.75:
                terms[tuple(labs[j] for j in range(8) if (mask >> j) & 1)] = sign * rng.choice([1, 2, 3, 0.5]) * (-1 if (mixed and rng.random() < 0.1) else 1)
        ctx.cat("many-terms")
    if not real and rng.random() < 0.12:
        # the same model in very small units: a coefficient of 1e-21 (or 1e-121) is a coefficient, not rounding noise
        sc_ = rng.choice([2.0 ** -70, 2.0 ** -400])
        terms = {k: v * sc_ for k, v in terms.items()}
        ctx.cat("tiny-scale")
    m = dict(terms) if tn == "dict" else gen.model_of(getattr(L, tn), terms)
    if tn != "dict" and not mat and labs and rng.random() < 0.08:
        # a variable object (create_var / boolean_var / spin_var: one term, carries its name) edited IN PLACE: it keeps the name
        # while it stops being "just the variable" -- rescaled, shifted, possibly grown by the terms above
        T_ = getattr(L, tn)
        m = (L.boolean_var if tn == "PCBO" else L.spin_var)(labs[0]) if (tn in ("PCBO", "PCSO") and rng.random() < 0.5) else T_.create_var(labs[0])
        how_ = rng.choice(["scaled", "scaled", "divided", "set-item", "shifted", "grown"])
        if how_ == "scaled":
            m *= rng.choice([-3, 5, -0.5])
        elif how_ == "divided":
            m /= rng.choice([4, -2])
        elif how_ == "set-item":
            m[(labs[0],)] = rng.choice([-7, 3])
        elif how_ == "shifted":
            m *= -2
            m += 5
            m -= 5
        else:
            m *= 2
            for k_, v_ in terms.items():
                m[k_] += v_
        ctx.cat("named-variable-edited-in-place")
    if tn == "dict" and rng.random() < 0.15:
        for x in labs[:2]:
            m.setdefault((x,), 0)             # a plain dict may carry explicit zero coefficients
        ctx.cat("dict-with-zero-coefficients")
    p = ref.from_raw(kind, dict(m))
    w = {"function": fn, "type": tn, "terms": dict(m)}
    snap = dict(m)
    if len(m) and rng.random() < 0.12:
        # a call that must be refused comes first (a coefficient that is no number, put right afterwards): the later,
        # valid call on the same object must not be affected by what the failed one left behind
        k_bad = rng.choice(list(m))
        good = m[k_bad]
        try:
            dict.__setitem__(m, k_bad, None)
            try:
                getattr(L.utils, fn)(m)
            except Exception:   # noqa
                ctx.cat("refused-call-first")
        finally:
            dict.__setitem__(m, k_bad, good)
        if list(m.items()) != list(snap.items()):
            ctx.violation(fn + ":model-changed-by-a-refused-call", "after a refused call (coefficient None, restored afterwards) the argument is %r, was %r" % (dict(m), snap), w)
            return
    if rng.random() < 0.2:
        # the documented parameter name
        ok, res = ctx.call(fn, getattr(L.utils, fn), _w=w, **{KWNAME[fn]: m})
        ctx.cat("called-by-keyword")
    else:
        ok, res = ctx.call(fn, getattr(L.utils, fn), m, _w=w)
    if not ok:
        return
    ctx.cat("fn:" + fn)
    if real:
        ctx.cat("real-coefficients")
    if dict(m) != snap:
        ctx.violation(fn + ":model-mutated", "argument changed", w)
        return
    if not (isinstance(res, tuple) and len(res) == 2):
        ctx.violation(fn + ":result-shape", "returned %r" % (res,), w)
        return
    lo, hi = res
    order = sorted(p.vars(), key=repr)
    tab = ref.table(p, order)
    tmin, tmax = float(tab.min()), float(tab.max())
    tol = 0.0 if not real else 1e-9 * max(1.0, float(p.sumabs()))
    if lo > tmin + tol:
        ctx.violation(fn + ":lower-bound-above-minimum", "lo=%r > true min %r" % (lo, tmin), w)
        return
    if hi < tmax - tol:
        ctx.violation(fn + ":upper-bound-below-maximum", "hi=%r < true max %r" % (hi, tmax), w)
        return
    if all(not k for k in m):
        c = m.get((), 0)
        if not (lo == hi == c):
            ctx.violation(fn + ":constant-model-not-tight", "constant %r gives (%r, %r)" % (c, lo, hi), w)
            return
    if len(order) >= 2 and sum(1 for k in p.d if k) >= 2:
        ctx.nontrivial((fn, tn, sorted(snap.items(), key=repr)))
    second_look(ctx, rng, m, tn, kind, getattr(L.utils, fn), fn, w)
    ctx.sample({"function": fn, "type": tn, "terms": snap, "bounds": [lo, hi], "true": [tmin, tmax]}, limit=3)


def temperature(ctx, rng):
    kind = rng.choice(["bool", "spin"])
    tn = rng.choice(TYPES[kind])
    mat = tn.endswith("Matrix")
    labs = gen.labels(rng, rng.randint(1, 5), matrix=mat)
    maxd = 2 if (tn != "dict" and L.is_deg2(getattr(L, tn))) else rng.choice([2, 3, 4])
    r = rng.random()
    stale = False
    if r < 0.08:
        terms = {(): 2.5} if rng.random() < 0.5 else {}
        ctx.cat("temperature:no-variables")
    else:
        terms = gen.rand_terms(rng, labs, maxd, lo=1, hi=6)
        if rng.random() < 0.25:
            # largest and smallest energy change coincide: one term, or disjoint terms of equal magnitude
            c = rng.choice(gen.DYADIC + [3, 7])
            ls = list(labs)
            rng.shuffle(ls)
            terms = {}
            while ls:
                k = tuple(ls.pop() for _ in range(min(len(ls), rng.randint(1, maxd))))
                terms[k] = c * rng.choice([1, -1])
                if rng.random() < 0.5:
                    break
            ctx.cat("temperature:single-scale-model")
    m = dict(terms) if tn == "dict" else gen.model_of(getattr(L, tn), terms)
    if tn == "dict" and len(labs) >= 2 and rng.random() < 0.12:
        # a plain dict in which every variable-carrying term appears under two spellings that cancel exactly
        a_, b_ = labs[0], labs[1]
        c_ = rng.choice([3, 0.5, -2])
        m = {(a_, b_): c_, (b_, a_): -c_}
        if kind == "bool":
            m.update({(a_, a_): 2, (a_,): -2})
        if rng.random() < 0.5:
            m[()] = 1.5
        ctx.cat("temperature:alias-spellings-cancel")
    elif tn == "dict" and rng.random() < 0.2:
        if rng.random() < 0.5:
            m = {k: (0 if k else v) for k, v in m.items()}        # every non-constant coefficient is an explicit zero
        else:
            m.setdefault((labs[0],), 0)
        ctx.cat("temperature:dict-with-zero-coefficients")
    if tn != "dict" and len(m) and rng.random() < 0.08:
        for k in list(m):
            if k:
                m[k] = 0          # all variables cancelled, bookkeeping stale
        stale = True
        ctx.cat("temperature:stale-model")
    elif tn != "dict" and len(m) > 1 and rng.random() < 0.1:
        vs_ = sorted({x for k in m for x in k}, key=repr)
        if vs_:
            gone = rng.choice(vs_)
            for k in [k for k in m if gone in k]:
                m[k] -= m[k]      # one variable cancelled, the others alive
            ctx.cat("temperature:partially-stale-model")
    style = rng.choice(["default", "pair", "zero-end", "zero-both", "equal"])
    kw = {"spin": kind == "spin"}
    if style == "pair":
        a, b = sorted([rng.choice([0.9, 0.5, 0.3, 0.05, 0.001, 0.99]) for _ in range(2)], reverse=True)
        kw.update(start_flip_prob=a, end_flip_prob=b)
    elif style == "zero-end":
        kw.update(start_flip_prob=rng.choice([0.5, 0.1]), end_flip_prob=0)
        ctx.cat("temperature:zero-prob")
    elif style == "zero-both":
        kw.update(start_flip_prob=0, end_flip_prob=0)
        ctx.cat("temperature:zero-prob")
    elif style == "equal":
        v = rng.choice([0.5, 0.01, 0.2] + [rng.randint(1, 99) / 100 for _ in range(6)])
        kw.update(start_flip_prob=v, end_flip_prob=v)
        ctx.cat("temperature:equal-probs")
    w = {"function": "anneal_temperature_range", "type": tn, "terms": dict(m), "kwargs": kw, "stale": stale}
    snap = dict(m)
    book = (m.variables, m.degree, m.num_binary_variables, m.max_index) if tn != "dict" else None
    tag = "anneal_temperature_range:" + ("stale-model:" if stale else "")
    try:
        res = L.sim.anneal_temperature_range(m, **kw)
    except Exception as e:   # noqa
        ctx.exc["%s@anneal_temperature_range" % type(e).__name__] += 1
        ctx.violation(tag + "raises-" + type(e).__name__, "anneal_temperature_range raised %r" % (e,), w)
        return
    ctx.count("temperature-range-calls")
    if dict(m) != snap or (book is not None and (m.variables, m.degree, m.num_binary_variables, m.max_index) != book):
        ctx.violation(tag + "model-mutated", "argument (terms or variables/degree bookkeeping) changed", w)
        return
    T0, Tf = res
    p = ref.from_raw(kind, dict(m))
    # "without variables" is syntactic: no key names a variable (a raw dict whose differently ordered duplicate keys
    # cancel still names variables; only the ordering clause is demanded of it)
    if not any(k for k in m):
        if (T0, Tf) != (0, 0):
            ctx.violation(tag + "no-variables-not-zero", "model without variables gives %r" % (res,), w)
        return
    if not (T0 >= Tf >= 0) or math.isnan(T0) or math.isnan(Tf):
        ctx.violation(tag + "not-ordered", "T0=%r Tf=%r" % (T0, Tf), w)
        return
    if len(p.vars()) >= 2:
        ctx.nontrivial(("temp", tn, sorted(snap.items(), key=repr), sorted(kw.items())))
    second_look(ctx, rng, m, tn, kind, lambda mm: L.sim.anneal_temperature_range(mm, **kw), "anneal_temperature_range", w)


def second_look(ctx, rng, m, tn, kind, f, name, w):
    """history dimension: edit the same object in place and ask again -- the answer must be the one a freshly built equal
    model gets (and (0, 0) / the constant once no variable is left)"""
    if tn == "dict" or rng.random() < 0.4:
        return
    edit = rng.choice(["cancel-all", "clear", "scale", "add-term", "cancel-one"])
    try:
        if edit == "cancel-all":
            for k in list(m):
                if k:
                    m[k] -= m[k]
        elif edit == "clear":
            m.clear()
        elif edit == "scale":
            m *= 4
        elif edit == "add-term":
            vs = sorted({x for k in m for x in k}, key=repr)
            if not vs:
                return
            m[(vs[0],)] += 16
        else:
            ks = [k for k in m if k]
            if not ks:
                return
            m[rng.choice(ks)] = 0
    except KeyError:
        return
    ctx.cat("second-look:" + edit)
    w2 = dict(w, edit=edit, terms_after=dict(m))
    try:
        got = f(m)
        fresh = f(dict(m))
    except Exception as e:   # noqa
        ctx.violation("%s:second-look:raises-%s" % (name, type(e).__name__), "%s raised %r after in-place %s" % (name, e, edit), w2)
        return
    ctx.count("second-look-checks")
    if tuple(got) != tuple(fresh):
        ctx.violation("%s:stale-after-in-place-edit" % name, "after %s the same object gives %r, an equal fresh model gives %r" % (edit, got, fresh), w2)
