"""C16 -- symbolic coefficients commute with substitution."""
import warnings

from .. import gen, oracles, ref
from .. import lib as L
from ..ref import frac
from . import _constraints as C
from . import _sat

ID = "C16"
RULE = ("(constraints) PCBO/PCSO histories of 1-3 constraints drawn from the six comparison methods (the 14 branch shapes "
        "of C02, log_trick both ways, optional bounds) and the sixteen logical methods, each weighted by its own sympy "
        "Symbol, optionally on top of an objective with a symbolic coefficient; the symbolic model is substituted (all at "
        "once, or in two partial steps) with c > 0 (dyadic: exact comparison; arbitrary float: tolerance 1e-9) and compared "
        "with the model built with the numbers directly: type, coefficients, recorded constraints, num_ancillas; the "
        "symbolic original is snapshotted. (reductions) to_qubo/to_quso/to_pubo/to_puso(lam=Symbol) on degree >= 3 models. "
        "Non-trivial = the symbolic model really contains a symbol in >= 2 coefficients; distinct = digest of the history"
        ' Also: symbols named by their strings in every subs form, objective coefficients of numpy / Fraction types next to symbolic weights, every argument form of subs, weights of 2^40, models whose own coefficients are number + k*symbol (coincidental cancellations skipped), symbols inside the constraint polynomial with supplied bounds, a sympy number left after full substitution must equal (==) the number of the numeric build, independence of the result from the original.')
RULE += " Rounds 9-10: second round after the first subs (another constraint with a new symbol, or update() with a constrained model, on the original or on the result, then subs again), objectives written as products with the symbol, bookkeeping of the substituted model."
TIERS = {"quick": {"shards": 8, "cases": 120}, "thorough": {"shards": 16, "cases": 5000}}
FLOOR_BASE = {"quick": 90, "thorough": 2000}    # case counts the floors below were calibrated for; the launcher scales them
GATES = _sat.ALL + ["eq_" + g for g in _sat.ALL]


def FLOORS(tier):
    q = tier == "quick"
    f = {"constraint-histories": 350 if q else 10000, "reductions": 120 if q else 4000, "partial-substitution": 80,
         "arbitrary-float-weight": 80, "logical-method": 100, "class:PCBO": 100, "class:PCSO": 100,
         "symbol-really-present": 300 if q else 9000, "independence-probes": 300, "reduction:nothing-to-reduce": 15,
         "subs-form:dict": 60, "subs-form:pairs": 60, "subs-form:positional": 40, "typed-number-coefficients": 25, "subs-form:symbol-named-by-string": 50, "huge-weight": 60, "symbol-inside-constraint-polynomial": 60, "original-with-name-and-user-mapping": 100,
         "reduction:symbolic-model-coefficients": 30}
    for s in C.SHAPES:
        f["shape:" + s] = 8 if q else 300
    for R in C.RELS:
        f["rel:" + R] = 30 if q else 1000
    for fo in ("qubo", "quso", "pubo", "puso"):
        f["reduction:" + fo] = 15 if q else 600
    return f

_FLOORS_BEFORE_ROUND9 = FLOORS


def FLOORS(tier):      # noqa: F811 -- floors of the input classes added in round 9 (a quarter of what seed 0 observes in the quick tier)
    f = _FLOORS_BEFORE_ROUND9(tier)
    f.update({'product-with-symbol:imul': 12, 'product-with-symbol:rmul': 20, 'second-round:original:add-constraint': 30, 'second-round:original:update-with-constrained-model': 40, 'second-round:result:add-constraint': 31, 'second-round:result:update-with-constrained-model': 35})
    return f


def has_symbol(m):
    return sum(1 for v in m.values() if hasattr(v, "free_symbols") and v.free_symbols)


def numeric_terms(m, tol):
    out = {}
    for k, v in m.items():
        if hasattr(v, "free_symbols"):
            if v.free_symbols:
                return None
            v = float(v)
        if abs(v) > tol:
            out[k] = v
    return out


def same_terms(a, b, exact, tol):
    if a is None or b is None:
        return False
    if set(a) != set(b):
        return False
    if exact:
        return all(frac(a[k]) == frac(b[k]) for k in a)
    return all(abs(a[k] - b[k]) <= tol * max(1.0, abs(b[k])) for k in a)


def product_case(ctx, rng):
    """a weighted objective written as a product: S = lam * F, F * lam or F *= lam for a numeric model F of any labelled
    type; S.subs(lam -> c) must be the model c * F (and leave S alone)"""
    import sympy
    tn = rng.choice(["PCBO", "PCSO", "PUBO", "PUSO", "QUBO", "QUSO"])
    T = getattr(L, tn)
    labs = [x for x in gen.labels(rng, rng.randint(2, 5)) if x is not None] or ["a", "b"]
    terms = gen.rand_terms(rng, labs, 2, lo=1, hi=5)
    F_ = gen.model_of(T, terms)
    lam = sympy.Symbol("lam")
    c = rng.choice([0.5, 2, 3, 0.25])
    how = rng.choice(["rmul", "mul", "imul", "imul-then-add-number"])
    w = {"class": tn, "terms": terms, "how": how, "value": c}
    try:
        if how == "rmul":
            S = lam * F_
        elif how == "mul":
            S = F_ * lam
        else:
            S = F_.copy()
            S *= lam
            if how == "imul-then-add-number":
                S += 1
    except Exception as e:   # noqa
        ctx.violation("product:raises-%s" % type(e).__name__, "%s raised %r" % (how, e), w)
        return
    ctx.cat("product-with-symbol:" + how)
    snap = dict(S)
    ok, N = ctx.call("subs", S.subs, {lam: c}, _w=w)
    if not ok:
        return
    if dict(S) != snap:
        ctx.violation("subs:original-mutated", "the symbolic product changed under subs", w)
        return
    want = {k: v * c for k, v in dict(F_).items()}
    if how == "imul-then-add-number":
        want[()] = want.get((), 0) + 1
    a = numeric_terms(N, 1e-9)
    if a is None:
        ctx.violation("subs:symbols-left", "coefficients still symbolic after subs on a product with a symbol: %r" % (dict(N),), w)
        return
    if type(N) is not type(S) or not same_terms(a, {k: float(v) for k, v in want.items() if v}, True, 1e-9):
        ctx.violation("subs:coefficients-differ", "subs of %s gives %r (%s), expected %r" % (how, dict(N), type(N).__name__, want), w)
        return
    if len(terms) >= 2:
        ctx.nontrivial(("product", tn, sorted(terms.items(), key=repr), how, c))


def case(ctx, rng, idx):
    r_ = rng.random()
    if r_ < 0.1:
        return product_case(ctx, rng)
    if r_ < 0.33:
        return reduction_case(ctx, rng)
    import sympy
    kind = rng.choice(["bool", "spin"])
    T = L.PCBO if kind == "bool" else L.PCSO
    ctx.cat("class:" + T.__name__)
    # labels that sympy cannot sympify inside a dict (None) are excluded: `Symbol * dict` makes sympy try to convert
    # the dict before Python falls back to the model's __rmul__ -- a sympy limitation, not a qubovert property
    labs = [x for x in gen.labels(rng, rng.randint(2, 5)) if x is not None] or ["a", "b"]
    exact = rng.random() < 0.7
    if not exact:
        ctx.cat("arbitrary-float-weight")
    steps = []
    syms = {}

    def newsym():
        s = sympy.Symbol("lam%d" % len(syms))
        syms[s] = rng.choice([0.5, 1, 2, 3, 0.25, 2.0 ** 40]) if exact else round(rng.uniform(0.1, 5), 6)
        if syms[s] > 2 ** 30:
            ctx.cat("huge-weight")        # a penalty twelve orders of magnitude above the objective's coefficients
        return s
    if rng.random() < 0.4:
        o = gen.rand_terms(rng, labs, 2, lo=1, hi=3)
        so = newsym() if rng.random() < 0.5 else None
        if rng.random() < 0.35:
            # objective coefficients that are numbers but neither int nor float (weights read from an integer numpy array, exact rationals)
            import numpy as np
            from fractions import Fraction
            ty_ = rng.choice([np.int64, np.float64, lambda v: Fraction(v).limit_denominator(64), np.int32])
            o = {k: ty_(v) if float(v).is_integer() or ty_ not in (np.int64, np.int32) else ty_(2 * v) for k, v in o.items()}
            ctx.cat("typed-number-coefficients")
        steps.append(("objective", o, so, rng.choice(["itemwise", "itemwise", "imul-by-scalar", "rmul-by-scalar"])))
    for _ in range(rng.randint(1, 3)):
        if kind == "bool" and rng.random() < 0.35:
            g = rng.choice(GATES)
            base = g.replace("eq_", "")
            ar = 1 if base in ("NOT", "BUFFER") else rng.randint(2, 4)
            ops = [rng.choice(labs) for _ in range(ar)]
            args = ([rng.choice(labs)] if g.startswith("eq_") else []) + ops
            steps.append(("gate", g, args, newsym()))
        else:
            shape, Pb = C.shape_poly(rng, labs)
            if kind == "spin" and rng.random() < 0.5:
                pp = ref.from_raw("bool", Pb).to_spin()
                P = {tuple(sorted(k, key=repr)): (float(v) if v.denominator != 1 else int(v)) for k, v in pp.d.items()}
            else:
                P = Pb
            R = rng.choice(C.RELS)
            kw = {}
            if R != "eq":
                kw["log_trick"] = rng.random() < 0.5
            if rng.random() < 0.3:
                tab = ref.table(ref.from_raw(kind, P), sorted(ref.from_raw(kind, P).vars(), key=repr))
                kw["bounds"] = (float(tab.min()), float(tab.max()))
            steps.append(("rel", R, P, kw, newsym(), shape))

    if len(labs) >= 3 and rng.random() < 0.3:
        # the documented "symbols inside the constraint polynomial" use: one coefficient (or the constant) of P is itself a
        # symbol, bounds are supplied; shapes that no special form matches for any value (coefficients 2 / -1 / 3)
        x_, y_, z_ = rng.sample(labs, 3)
        R = rng.choice(["eq", "le", "ge", "lt", "gt"])
        sp = sympy.Symbol("p%d" % len(syms))
        if rng.random() < 0.25:
            # the z == x*y special shape with one symbolic weight on both terms: w*z - w*x*y == 0
            R = "eq"
            val = rng.choice([1, 2, 3])
            Pn = {(z_,): val, (x_, y_): -val}
            where = "AND-form"
        elif R == "eq" or rng.random() < 0.4:
            val = rng.choice([2, 3])
            Pn = {(x_,): val, (y_,): -1, ((z_, x_) if rng.random() < 0.5 else (z_,)): 2, (): rng.choice([-1, 0, 1])}
            where = (x_,)
        else:
            val = rng.choice([-3, -2, 2])
            Pn = {(x_,): 2, (y_,): -1, (z_,): rng.choice([2, 3]), (): val}
            where = ()
        syms[sp] = val
        pk = ref.from_raw(kind, Pn)
        tab = ref.table(pk, sorted(pk.vars(), key=repr))
        kw = {"bounds": (float(tab.min()), float(tab.max()))}
        if R != "eq":
            kw["log_trick"] = rng.random() < 0.5
        steps.append(("relsym", R, Pn, kw, newsym(), where, sp))
        ctx.cat("symbol-inside-constraint-polynomial")

    def build(symbolic):
        H = T()
        for st in steps:
            if st[0] == "relsym":
                P_ = dict(st[2])
                if symbolic and st[5] == "AND-form":
                    P_ = {k_: (st[6] if v_ > 0 else -st[6]) for k_, v_ in P_.items()}
                elif symbolic:
                    P_[st[5]] = st[6]
                lam = st[4] if symbolic else syms[st[4]]
                getattr(H, "add_constraint_%s_zero" % st[1])(P_, lam=lam, **st[3])
                continue
            if st[0] == "objective":
                coef = (st[2] if symbolic else syms[st[2]]) if st[2] is not None else 1
                if st[3] != "itemwise" and st[2] is not None:
                    # the weighted objective is written as a product of the weight and a numeric model: lam * F, F *= lam
                    for k, v in st[1].items():
                        H[k] += v
                    if st[3] == "imul-by-scalar":
                        H *= coef
                    else:
                        H = coef * H
                    continue
                for k, v in st[1].items():
                    H[k] += v * coef
            elif st[0] == "gate":
                lam = st[3] if symbolic else syms[st[3]]
                getattr(H, "add_constraint_" + st[1])(*st[2], lam=lam)
            else:
                lam = st[4] if symbolic else syms[st[4]]
                getattr(H, "add_constraint_%s_zero" % st[1])(dict(st[2]), lam=lam, **st[3])
        return H
    desc = [[s[0]] + [repr(x) for x in s[1:]] for s in steps]
    w = {"class": T.__name__, "steps": desc, "values": {str(k): v for k, v in syms.items()}}
    with warnings.catch_warnings():
        warnings.simplefilter("ignore")
        ok, Hs = ctx.call("build-symbolic", build, True, _w=w)
        if not ok:
            return
        ok, Hc = ctx.call("build-numeric", build, False, _w=w)
        if not ok:
            return
    ctx.count("constraint-histories")
    for st in steps:
        if st[0] == "gate":
            ctx.cat("logical-method")
        elif st[0] == "rel" and len(st) == 6:
            ctx.cat("shape:" + st[5])
            ctx.cat("rel:" + st[1])
    if rng.random() < 0.3:
        # the symbolic original has a history of its own: a name and a user enumeration, which subs() of course leaves alone
        vs_ = list(Hs.mapping)
        pm_ = list(range(len(vs_)))
        rng.shuffle(pm_)
        Hs.set_mapping({v_: pm_[i_] for i_, v_ in enumerate(vs_)})
        Hs.name = "symbolic-original"
        ctx.cat("original-with-name-and-user-mapping")
    label_state = (Hs.name, Hs.mapping, Hs.variables, Hs.num_binary_variables)
    snap = dict(Hs)
    snap_cons = Hs.constraints
    nsym = has_symbol(Hs)
    if nsym:
        ctx.count("symbol-really-present")
    subsmap = dict(syms)
    if len(syms) >= 2 and rng.random() < 0.4:
        ctx.cat("partial-substitution")
        first = dict(list(subsmap.items())[:1])
        rest = dict(list(subsmap.items())[1:])
        ok, mid = ctx.call("subs", Hs.subs, first, _w=w)
        if not ok:
            return
        ok, Hn = ctx.call("subs", mid.subs, rest, _w=w)
    else:
        # the argument forms sympy's subs accepts: a dict, a list of (old, new) pairs, or (old, new) for a single symbol
        form = rng.choice(["dict", "pairs", "positional"])
        if form == "positional" and len(subsmap) != 1:
            form = "pairs"
        ctx.cat("subs-form:" + form)
        w["subs_form"] = form
        if rng.random() < 0.3:
            # sympy's subs sympifies what it is given: a symbol may be named by its string
            subsmap = {str(k_): v_ for k_, v_ in subsmap.items()}
            ctx.cat("subs-form:symbol-named-by-string")
            w["subs_form"] = form + " (symbols named by strings)"
        if form == "dict":
            ok, Hn = ctx.call("subs", Hs.subs, subsmap, _w=w)
        elif form == "pairs":
            pairs_ = list(subsmap.items())
            ok, Hn = ctx.call("subs", Hs.subs, pairs_ if rng.random() < 0.5 else tuple(pairs_), _w=w)
        else:
            (k_, v_), = subsmap.items()
            ok, Hn = ctx.call("subs", Hs.subs, k_, v_, _w=w)
    if not ok:
        return
    if dict(Hs) != snap or Hs.constraints != snap_cons:
        ctx.violation("subs:original-mutated", "the symbolic model changed under subs", w)
        return
    if (Hs.name, Hs.mapping, Hs.variables, Hs.num_binary_variables) != label_state:
        ctx.violation("subs:original-mutated:name-or-mapping", "subs changed the original's name / mapping / variables: %r -> %r" % (
            label_state, (Hs.name, Hs.mapping, Hs.variables, Hs.num_binary_variables)), w)
        return
    if ok and Hn is Hs:
        ctx.violation("subs:returns-the-original-object", "subs returned the model itself (later edits of the result change the original)", w)
        return
    if nsym and not has_symbol(Hs):
        ctx.violation("subs:original-lost-symbols", "the symbolic model no longer contains its symbols", w)
        return
    if type(Hn) is not type(Hc):
        ctx.violation("subs:type-changed", "subs returned %s" % type(Hn).__name__, w)
        return
    tol = 1e-9
    left = {k: (v, type(v).__name__, Hc.get(k)) for k, v in Hn.items() if isinstance(v, sympy.Basic) and not v.free_symbols and exact and not (v == Hc.get(k, 0))}
    if left:
        ctx.violation("subs:coefficient-not-equal-to-the-number", "every symbol was substituted, yet coefficients are sympy objects that do not compare equal (==) to the numbers of the numeric build: %r" % (dict(list(left.items())[:3]),), w)
        return
    a, b = numeric_terms(Hn, tol), numeric_terms(Hc, tol)
    if a is None:
        ctx.violation("subs:symbols-left", "coefficients still symbolic after substituting every symbol: %r" % {k: v for k, v in Hn.items() if hasattr(v, "free_symbols") and v.free_symbols}, w)
        return
    if not same_terms(a, b, exact, tol):
        diff = {k: (a.get(k), b.get(k)) for k in set(a) | set(b) if a.get(k) != b.get(k)}
        ctx.violation("subs:coefficients-differ", "substituted symbolic model differs from the numeric build: %r" % (dict(list(diff.items())[:4]),), w)
        return
    # the substituted model is a model like any other: its bookkeeping covers its terms (it is asked for reduced forms, solved, ...)
    tv_ = {x for k_ in Hn for x in k_}
    if not tv_ <= set(Hn.variables) or set(Hn.mapping) != set(Hn.variables) or Hn.num_binary_variables < len(tv_) or \
            (len(Hn) and Hn.degree < max(len(k_) for k_ in Hn)) or sorted(Hn.mapping.values()) != list(range(len(Hn.mapping))):
        ctx.violation("subs:result-bookkeeping-does-not-cover-its-terms", "variables %r, mapping %r, num_binary_variables %r, degree %r for terms over %r of degree %r" % (
            Hn.variables, Hn.mapping, Hn.num_binary_variables, Hn.degree, sorted(map(repr, tv_)), max((len(k_) for k_ in Hn), default=0)), w)
        return
    ca, cb = Hn.constraints, Hc.constraints
    if set(ca) != set(cb) or any(len(ca[k]) != len(cb[k]) for k in ca):
        ctx.violation("subs:constraints-differ", "recorded constraints %r vs %r" % (ca, cb), w)
        return
    for k in ca:
        for pa, pb in zip(ca[k], cb[k]):
            if type(pa) is not type(pb) or not same_terms(numeric_terms(pa, tol), numeric_terms(pb, tol), exact, tol):
                ctx.violation("subs:constraints-differ", "recorded constraint %r vs %r" % (dict(pa), dict(pb)), w)
                return
    # the result must be independent of the original: edit it and look at the original again
    Hn[("__probe__",)] += 1
    lists_ = list((getattr(Hn, "_constraints", None) or {}).values())      # (the record lists themselves, where the library keeps them under this name)
    for v in lists_:
        v.append(type(Hn)())
    ctx.count("independence-probes")
    if dict(Hs) != snap or Hs.constraints != snap_cons or (Hs.name, Hs.mapping, Hs.variables, Hs.num_binary_variables) != label_state:
        ctx.violation("subs:result-aliases-original", "editing the substituted model changed the original (terms, constraints, mapping or variables)", w)
        return
    Hn[("__probe__",)] -= 1
    for v in lists_:
        v.pop()
    if Hn.num_ancillas != Hc.num_ancillas:
        ctx.violation("subs:num_ancillas-differs", "num_ancillas %r vs %r" % (Hn.num_ancillas, Hc.num_ancillas), w)
        return
    if len(labs) >= 2 and rng.random() < 0.45:
        # ---- the history goes on: on the symbolic original (whose first subs is behind it) or on the substituted result, another
        # model with a recorded constraint is merged in with update(), or another constraint with a NEW symbolic weight is added;
        # then subs again.  The numeric build gets the same step with the number.
        target = rng.choice(["original", "result"])
        stepk = rng.choice(["update-with-constrained-model", "add-constraint"])
        s2 = sympy.Symbol("mu")
        v2 = rng.choice([0.5, 2, 3])
        l0_, l1_ = labs[0], labs[1]
        P2 = {(l0_,): 1, (l1_,): 1, (): -1} if kind == "bool" else {(l0_,): 1, (l1_,): 1}
        R2 = rng.choice(["le", "eq"])
        A_, B_ = (Hs if target == "original" else Hn), Hc
        w3 = dict(w, then=[target, stepk, R2])
        try:
            with warnings.catch_warnings():
                warnings.simplefilter("ignore")
                for M_, lam_ in ((A_, s2), (B_, v2)):
                    if stepk == "add-constraint":
                        getattr(M_, "add_constraint_%s_zero" % R2)(dict(P2), lam=lam_)
                    else:
                        K_ = T()
                        getattr(K_, "add_constraint_%s_zero" % R2)(dict(P2), lam=lam_)
                        M_.update(K_)
        except Exception as e:   # noqa
            ctx.violation("second-round:step-raises-%s" % type(e).__name__, "%s on the %s raised %r" % (stepk, target, e), w3)
            return
        allmap = dict(syms)
        allmap[s2] = v2
        ok, H2 = ctx.call("subs", A_.subs, allmap, _w=w3)
        if not ok:
            return
        ctx.cat("second-round:%s:%s" % (target, stepk))
        a2, b2 = numeric_terms(H2, tol), numeric_terms(B_, tol)
        if a2 is None:
            ctx.violation("second-round:symbols-left", "after %s on the %s and a second subs, coefficients are still symbolic: %r" % (
                stepk, target, {k: v for k, v in H2.items() if hasattr(v, "free_symbols") and v.free_symbols}), w3)
            return
        if not same_terms(a2, b2, exact, tol):
            diff = {k: (a2.get(k), b2.get(k)) for k in set(a2) | set(b2) if a2.get(k) != b2.get(k)}
            ctx.violation("second-round:coefficients-differ", "after %s on the %s: %r" % (stepk, target, dict(list(diff.items())[:4])), w3)
            return
        c2, d2_ = H2.constraints, B_.constraints
        if set(c2) != set(d2_) or any(len(c2[k]) != len(d2_[k]) for k in c2) or any(
                not same_terms(numeric_terms(pa, tol), numeric_terms(pb, tol), exact, tol) for k in c2 for pa, pb in zip(c2[k], d2_[k])):
            ctx.violation("second-round:constraints-differ", "after %s on the %s and a second subs the recorded constraints are %r, the numeric build has %r" % (stepk, target, c2, d2_), w3)
            return
        if H2.num_ancillas != B_.num_ancillas:
            ctx.violation("second-round:num_ancillas-differs", "num_ancillas %r vs %r" % (H2.num_ancillas, B_.num_ancillas), w3)
            return
    if nsym >= 2:
        ctx.nontrivial((T.__name__, desc, sorted(w["values"].items())))
    ctx.sample({"class": T.__name__, "steps": desc, "values": w["values"], "symbolic_coefficients": nsym}, limit=3)


def reduction_case(ctx, rng):
    import sympy
    cname = rng.choice(["PUBO", "PUSO", "PCBO", "PCSO"])
    T = getattr(L, cname)
    labs = [x for x in gen.labels(rng, rng.randint(3, 6)) if x is not None]
    if len(labs) < 3:
        labs = ["a", "b", "c"]
    terms = {}
    for _ in range(rng.randint(1, 4)):
        k = tuple(rng.sample(labs, rng.randint(3, min(5, len(labs)))))
        terms[k] = rng.choice(gen.DYADIC)
    terms.update(gen.rand_terms(rng, labs, 2, lo=0, hi=2))
    if rng.random() < 0.2:
        terms = {k: v for k, v in terms.items() if len(k) <= 2} or {(labs[0], labs[1]): 1}
        ctx.cat("reduction:nothing-to-reduce")
    M = gen.model_of(T, terms)
    form = rng.choice(["qubo", "quso", "pubo", "puso"])
    deg = rng.choice([2, 3])
    exact = rng.random() < 0.7
    c = rng.choice([0.5, 1, 2, 4, 16, 2.0 ** 40, 3, 5]) if exact else round(rng.uniform(0.1, 9), 6)
    lam = sympy.Symbol("lam")
    w = {"class": cname, "terms": dict(M), "form": form, "deg": deg, "value": c}
    if rng.random() < 0.3:
        # the model itself carries the symbol (weights number + k*symbol on some terms, of either sign once substituted, never
        # zero) and is reduced with the default penalty or a number: symbolic-then-subs == numeric build
        c = rng.choice([0.5, 1, 2, 4, 5])
        Ms, Mc = T(), T()
        for k, v in terms.items():
            if rng.random() < 0.6:
                a, b = rng.choice([-3, -1, 1, 2, 6, -8]), rng.choice([-2, -1, 1, 2])
                if a + b * c == 0:
                    a += 1
                Ms[k] += a + b * lam
                Mc[k] += a + b * c
            else:
                Ms[k] += v
                Mc[k] += v
        if True:
            # the reduction works on the boolean image; where a coefficient of that image vanishes only for this particular
            # value (contributions of several spin terms cancelling), the numeric build has one term less to reduce than
            # the symbolic one -- a coincidence of the chosen number, not covered by the statement
            with warnings.catch_warnings():
                warnings.simplefilter("ignore")
                full = Ms.to_pubo(deg=10 ** 6) if cname in ("PUSO", "PCSO") else Ms
                fullc = Mc.to_pubo(deg=10 ** 6) if cname in ("PUSO", "PCSO") else Mc
            if any(hasattr(v, "free_symbols") and v.free_symbols and v.subs({lam: c}) == 0 for v in list(full.values()) + list(Ms.values())) \
                    or list(full) != list(fullc):
                # (also when a PARTIAL sum vanishes at this value while the image is accumulated: the numeric image then holds the
                #  same terms in another order, and the greedy reduction, which walks the terms in order, makes other -- equally
                #  valid -- choices)
                ctx.cat("reduction:coincidental-cancellation-skipped")
                return
        plam = rng.choice([None, None, 3])
        w = {"class": cname, "symbolic_terms": {k: str(v) for k, v in Ms.items()}, "form": form, "deg": deg, "value": c, "lam": plam}
        ctx.cat("reduction:symbolic-model-coefficients")
        M = Ms
        with warnings.catch_warnings():
            warnings.simplefilter("ignore")
            ok, Ds = ctx.call("to_%s(symbolic model)" % form, oracles.call_form, Ms, form, deg, plam, None, _w=w)
            if not ok:
                return
            ok, Dc = ctx.call("to_" + form, oracles.call_form, Mc, form, deg, plam, None, _w=w)
            if not ok:
                return
    else:
        ok, Ds = ctx.call("to_%s(lam=Symbol)" % form, oracles.call_form, M, form, deg, lam, None, _w=w)
        if not ok:
            return
        ok, Dc = ctx.call("to_" + form, oracles.call_form, M, form, deg, c, None, _w=w)
        if not ok:
            return
    ctx.count("reductions")
    ctx.cat("reduction:" + form)
    snap = dict(Ds)
    nsym = has_symbol(Ds)
    if nsym:
        ctx.count("symbol-really-present")
    form = rng.choice(["dict", "pairs", "positional"])
    ctx.cat("subs-form:" + form)
    w["subs_form"] = form
    if rng.random() < 0.3:
        lam = str(lam)
        ctx.cat("subs-form:symbol-named-by-string")
    ok, Dn = ctx.call("subs", Ds.subs, {lam: c}, _w=w) if form == "dict" else (
        ctx.call("subs", Ds.subs, [(lam, c)], _w=w) if form == "pairs" else ctx.call("subs", Ds.subs, lam, c, _w=w))
    if not ok:
        return
    if dict(Ds) != snap:
        ctx.violation("subs:original-mutated:reduced-form", "the symbolic form changed under subs", w)
        return
    if Dn is Ds:
        ctx.violation("subs:returns-the-original-object:reduced-form", "subs returned the form itself", w)
        return
    if type(Dn) is not type(Dc):
        ctx.violation("subs:type-changed:reduced-form", "subs returned %s, numeric build %s" % (type(Dn).__name__, type(Dc).__name__), w)
        return
    left = {k: (v, type(v).__name__, Dc.get(k)) for k, v in Dn.items() if isinstance(v, sympy.Basic) and not v.free_symbols and exact and not (v == Dc.get(k, 0))}
    if left:
        ctx.violation("subs:coefficient-not-equal-to-the-number:reduced-form", "the symbol was substituted by the number %r, yet coefficients are sympy objects that do not compare equal (==) to the numbers of the numeric build: %r" % (c, dict(list(left.items())[:3])), w)
        return
    a, b = numeric_terms(Dn, 1e-9), numeric_terms(Dc, 1e-9)
    if a is None:
        ctx.violation("subs:symbols-left:reduced-form", "symbols remain after substitution", w)
        return
    if not same_terms(a, b, exact, 1e-9):
        diff = {k: (a.get(k), b.get(k)) for k in set(a) | set(b) if a.get(k) != b.get(k)}
        ctx.violation("subs:coefficients-differ:reduced-form", "to_%s(lam=Symbol).subs differs from to_%s(lam=c): %r" % (form, form, dict(list(diff.items())[:4])), w)
        return
    if nsym >= 2:
        ctx.nontrivial((cname, sorted(((k, str(v)) for k, v in dict(M).items()), key=repr), form, deg, c))
