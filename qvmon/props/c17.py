"""C17 -- the C annealing kernels are memory-safe on every valid call.

ASan+UBSan build of the working tree's C sources, injected and driven through the
Python API in hostile call histories (one process = one history); per-call attribution
of sanitizer reports; boundary precondition contract on c_anneal_quso/c_anneal_puso;
H2 in-kernel bounds assertions; "later calls unaffected" reference call; valgrind
memcheck subset on the plain build (thorough); canaries prove the pipeline reports."""
import collections
import glob
import json
import os
import shutil
import subprocess
import sys
import time

from .. import boot, gen, ref, sanit
from .. import lib as L
from ..ref import frac
from . import _anneal as A

ID = "C17"
EXT = "asan"
CRASH_IS_VIOLATION = True
RULE = ("call histories (one process per shard, 75-300 calls each) mixing anneal_qubo/quso/pubo/puso on hostile but "
        "documented-valid inputs: single variable, isolated variables / Matrix gaps, fields only, no fields, degree up to "
        "8, raw dicts with repeated and unsorted labels, un-refreshed (stale) models, 2000-spin chain, dense 40-spin graph, "
        "schedules [], zeros, 1e+-300, length 1, strings; num_anneals 1-50; with/without initial_state; both orders; seeds "
        "incl. None; run under clang ASan+UBSan (halt_on_error=0, reports attributed to the call that produced them), a "
        "Python-side precondition contract on every c_anneal_* call, the H2 in-kernel index assertions, and a fixed "
        "reference call repeated at the end of every history. Non-trivial = call that reached the C kernel with >= 2 "
        "spins and >= 1 sweep; distinct = digest of (function, type, terms, kwargs)"
        ' Also: schedules of Fractions / numpy scalars / Decimals / big ints, reference accounting (sys.getrefcount of every argument object and list item before/after each kernel call), an interval-timer signal with a raising handler during long calls, boundary sizes 1..70 / 127..129 / 255..257, a leak probe, libFuzzer on the kernels, valgrind memcheck on a subset.')
RULE += " Rounds 9-10: huge-sparse Matrix models (largest label around 2^15 / 2^16 / 2^17), a second kernel call on the same object after clear() + refill with another top label or cancel - refresh() - grow, a threads probe (4 threads x 36 seeded calls compared with the serial results)."
TIERS = {"quick": {"shards": 8, "cases": 110, "timeout": 1500, "fuzz_jobs": 4, "fuzz_runs": 150000,
                   "valgrind_shards": 3, "valgrind_cases": 25},
         "thorough": {"shards": 16, "cases": 5000, "timeout": 6 * 3600, "valgrind_shards": 8, "valgrind_cases": 40,
                      "fuzz_jobs": 16, "fuzz_runs": 3000000}}
FLOOR_BASE = {"quick": 75, "thorough": 5000}    # case counts the floors below were calibrated for; the launcher scales them
FLOOR_FIXED = {"reference-call-repeats", "leak-probe-calls"}
CLASSES = ["boundary-size", "single-variable", "matrix-gaps", "fields-only", "no-fields", "high-degree", "raw-repeated-labels",
           "stale-model", "chain-2000", "dense-40", "huge-sparse", "generic"]
BIG = ("chain-2000", "dense-40", "huge-sparse")
SCHED = ["empty", "zeros", "extreme", "length-1", "linear", "geometric", "list", "numbers"]


def FLOORS(tier):
    q = tier == "quick"
    f = {"kernel-calls:c_anneal_quso": 120 if q else 20000, "kernel-calls:c_anneal_puso": 120 if q else 20000,
         "boundary-contract-checks": 250 if q else 40000, "hook-index-checks": 10 ** 5, "reference-call-repeats": 8, "leak-probe-calls": 800,
         "sanitizer-log-polls": 300, "refcount-objects-checked": 5000, "threaded-calls": 144,
         "signal-during-call:interrupted": 3}
    for c in CLASSES:
        f["class:" + c] = ((3 if c == "huge-sparse" else 8) if c in BIG else 25) if q else (300 if c == "huge-sparse" else 1500)
    for s in SCHED:
        f["schedule:" + s] = 30 if q else 3000
    return f


def shard_env(tier, shard, tmp):
    logp = os.path.join(tmp, "asan-sh%d" % shard)
    return {"ASAN_OPTIONS": sanit.asan_options(logp), "UBSAN_OPTIONS": sanit.ubsan_options(logp),
            "QV_SAN_LOG": logp, "QV_PROGRESS": os.path.join(tmp, "shard%d.progress" % shard)}


# ---- in-worker ----------------------------------------------------------------------------------------------------
REFCALL = dict(num_anneals=3, anneal_duration=20, seed=11, in_order=False)
_state = {}


def reference_results():
    a = L.sim.anneal_quso({(0, 1): 1, (1, 2): -2, (0,): 0.5, (2, 3): 1.5, (3,): -1}, **REFCALL)
    b = L.sim.anneal_puso({(0, 1, 2): 1, (1, 2): -2, (0,): 0.5, (2, 3, 4): 1.5, (4,): -1}, **REFCALL)
    c = L.sim.anneal_pubo({("a", "b", "c"): 1, ("b",): -2, ("a", "c"): 0.5}, **REFCALL)
    return [[(sorted(r.state.items(), key=repr), r.value) for r in x] for x in (a, b, c)]


def contract_quso(ctx, args):
    h, num_neighbors, neighbors, J, Ts, num_anneals, in_order, init, seed = args
    N = len(h)
    errs = []
    if N < 1:
        errs.append("N < 1")
    if len(num_neighbors) != N:
        errs.append("len(num_neighbors) != N")
    if sum(num_neighbors) != len(neighbors) or len(neighbors) != len(J):
        errs.append("sum(num_neighbors), len(neighbors), len(J) disagree")
    if any((not isinstance(x, int)) or x < 0 or x >= N for x in neighbors):
        errs.append("neighbor index outside [0, N)")
    if len(init) not in (0, N) or any(x not in (1, -1) for x in init):
        errs.append("initial state length/values")
    if num_anneals < 1:
        errs.append("num_anneals < 1")
    if not isinstance(Ts, list) or any(not hasattr(t, "__float__") or float(t) != float(t) for t in Ts):
        errs.append("schedule not a list of numbers")
    if not all(isinstance(x, float) for x in h) or not all(isinstance(x, float) for x in J):
        errs.append("h/J not floats")
    return errs


def contract_puso(ctx, args):
    N, num_couplings, terms, couplings, Ts, num_anneals, in_order, init, seed = args
    errs = []
    if N < 1:
        errs.append("N < 1")
    if len(num_couplings) != len(couplings):
        errs.append("len(num_couplings) != len(couplings)")
    if sum(num_couplings) != len(terms):
        errs.append("sum(num_couplings) != len(terms)")
    if any((not isinstance(x, int)) or x < 0 or x >= N for x in terms):
        errs.append("spin index in terms outside [0, N)")
    if any(c < 1 for c in num_couplings):
        errs.append("empty term passed to the kernel")
    if len(init) not in (0, N) or any(x not in (1, -1) for x in init):
        errs.append("initial state length/values")
    if num_anneals < 1:
        errs.append("num_anneals < 1")
    if not isinstance(Ts, list) or any(not hasattr(t, "__float__") or float(t) != float(t) for t in Ts):
        errs.append("schedule not a list of numbers")
    return errs


def setup(ctx):
    from qubovert.sim import _anneal as mod
    _state["pending"] = []
    for name, contract in (("c_anneal_quso", contract_quso), ("c_anneal_puso", contract_puso)):
        orig = getattr(mod, name)

        def wrapped(*args, _orig=orig, _name=name, _contract=contract):
            ctx.count("kernel-calls:" + _name)
            ctx.count("boundary-contract-checks")
            errs = _contract(ctx, args)
            if errs:
                _state["pending"].append((_name, errs))
                if os.environ.get("QV_C17_SKIP_BAD_KERNEL_CALLS", "1") == "1":
                    # do not execute a call that violates the kernel's precondition: it would corrupt the heap
                    # of this process and mask everything after it; the violation is recorded by the caller
                    n = args[0] if _name == "c_anneal_puso" else len(args[0])
                    na = args[5]
                    return [[1] * max(n, 0) for _ in range(max(na, 0))], [0.0] * max(na, 0)
            _state["last_kernel_args"] = (_name, args[5], (args[0] if _name == "c_anneal_puso" else len(args[0])), len(args[4]))
            # reference accounting at the C boundary: the call may not change the reference count of anything the caller
            # handed in (the argument objects and the items of the argument lists); sanitizers cannot see this
            flat = list(args)
            for a_ in args:
                if isinstance(a_, (list, tuple)):
                    flat.extend(a_[:64])
            before = [sys.getrefcount(o) for o in flat]
            out = _orig(*args)
            after = [sys.getrefcount(o) for o in flat]
            ctx.count("refcount-objects-checked", len(flat))
            # ... and what it hands back owns its references: a list stored in k slots of the result holds >= k references
            try:
                slots = collections.Counter(id(x) for x in out[0]) if isinstance(out, tuple) and out and isinstance(out[0], list) else {}
                seen_ = set()
                for x in (out[0] if slots else []):
                    if id(x) in seen_ or not isinstance(x, list):
                        continue
                    seen_.add(id(x))
                    held = sys.getrefcount(x) - 2          # minus the loop variable and getrefcount's own argument
                    ctx.count("result-reference-checks")
                    if held < slots[id(x)]:
                        _state["pending"].append((_name, ["reference count of a returned state list is too small: stored in %d slots of the result, owns %d references" % (slots[id(x)], held)]))
                        break
                del x
            except Exception:   # noqa
                pass
            bad = [(type(o).__name__, repr(o)[:40], b, a) for o, b, a in zip(flat, before, after) if a != b]
            if bad:
                _state["pending"].append((_name, ["reference count of a caller-owned %s object changed across the call (%s: %d -> %d)" % (
                    bad[0][0], bad[0][1], bad[0][2], bad[0][3])]))
            return out
        setattr(mod, name, wrapped)
    _state["ref"] = reference_results()
    _state["logpos"] = {}
    poll_sanitizer_logs(ctx, None)


def poll_sanitizer_logs(ctx, w):
    """new sanitizer output of this process since the last poll -> violations attributed to the current call"""
    prefix = os.environ.get("QV_SAN_LOG")
    if not prefix:
        return 0
    ctx.count("sanitizer-log-polls")
    n = 0
    for path in glob.glob(prefix + ".%d*" % os.getpid()):
        try:
            size = os.path.getsize(path)
        except OSError:
            continue
        pos = _state["logpos"].get(path, 0)
        if size > pos:
            with open(path, errors="replace") as f:
                f.seek(pos)
                txt = f.read()
            _state["logpos"][path] = size
            for rep in sanit.parse_reports(txt):
                n += 1
                ctx.violation("%s:%s@%s" % (rep["tool"], rep["kind"].split(":")[0][:60], rep["where"] or "?"),
                              "%s report: %s at %s" % (rep["tool"], rep["kind"], rep["where"]),
                              {"call": w, "report_excerpt": txt[:1800]})
    return n


class _Interrupt(Exception):
    pass


def hostile_config(rng):
    cls = rng.choice(CLASSES)
    if os.environ.get("QV_C17_VALGRIND") and cls in BIG:
        cls = "generic"
    if cls == "huge-sparse" and rng.random() < 0.75:
        cls = "generic"          # (kept rare: each such case costs about as much as fifty small ones)
    fn = rng.choice(A.FUNCS)
    spin, d2 = A.is_spin(fn), A.is_deg2(fn)
    kind = "spin" if spin else "bool"
    accept = A.ACCEPT[fn]
    tn = rng.choice(accept)
    maxd = 2 if (d2 or tn in ("QUBO", "QUSO", "QUBOMatrix", "QUSOMatrix")) else 4
    mat = tn.endswith("Matrix")
    coefs = gen.DYADIC + [2.0 ** -10, 2.0 ** 20, -7.25]

    def labels(n):
        return gen.labels(rng, n, matrix=mat or (tn == "dict" and rng.random() < 0.5))
    stale = False
    if cls == "single-variable":
        l = labels(1)[0]
        terms = {(l,): rng.choice(coefs)}
        if rng.random() < 0.3:
            terms[()] = 2
    elif cls == "boundary-size":
        # sizes around the usual small-buffer / power-of-two thresholds, for both kernels
        n = rng.choice([1, 2, 3, 7, 8, 9, 15, 16, 17, 31, 32, 33, 63, 64, 65, 127, 128, 129, 255, 256, 257, rng.randint(1, 70)])
        fn = rng.choice(["anneal_quso", "anneal_qubo", "anneal_puso", "anneal_pubo"])
        spin, d2 = A.is_spin(fn), A.is_deg2(fn)
        kind = "spin" if spin else "bool"
        tn = rng.choice(["dict", {"anneal_quso": "QUSOMatrix", "anneal_qubo": "QUBOMatrix", "anneal_puso": "PUSOMatrix", "anneal_pubo": "PUBOMatrix"}[fn],
                         {"anneal_quso": "QUSO", "anneal_qubo": "QUBO", "anneal_puso": "PUSO", "anneal_pubo": "PUBO"}[fn]])
        mat = tn.endswith("Matrix")
        terms = {(i, i + 1): (1.0 if i % 2 else -2.0) for i in range(n - 1)}
        terms[(n - 1,)] = 0.5
        if not d2 and n >= 3:
            terms[(0, 1, 2)] = 1.5
    elif cls == "matrix-gaps":
        tn = rng.choice([t for t in accept if t.endswith("Matrix")])
        mat = True
        labs = [rng.choice([0, 3, 5]), rng.choice([9, 14, 30]), 40]
        terms = gen.rand_terms(rng, labs, 2 if (d2 or tn in ("QUBOMatrix", "QUSOMatrix")) else 3, coefs=coefs, lo=1, hi=4)
    elif cls == "fields-only":
        terms = {(x,): rng.choice(coefs) for x in labels(rng.randint(1, 6))}
    elif cls == "no-fields":
        labs = labels(rng.randint(2, 6))
        terms = {k: v for k, v in gen.rand_terms(rng, labs, maxd, coefs=coefs, lo=2, hi=8).items() if len(k) >= 2}
        if not terms:
            terms = {tuple(labs[:2]): 1.5}
    elif cls == "high-degree":
        fn = rng.choice(["anneal_pubo", "anneal_puso"])
        spin, d2 = A.is_spin(fn), False
        kind = "spin" if spin else "bool"
        tn = rng.choice([t for t in A.ACCEPT[fn] if t not in ("QUBO", "QUSO", "QUBOMatrix", "QUSOMatrix")])
        mat = tn.endswith("Matrix")
        nl_ = 9 if (rng.random() < 0.7 or fn != "anneal_puso") else 24      # (a boolean term of degree d becomes 2^d spin terms: long terms for the spin function only)
        labs = list(range(nl_)) if (mat or tn == "dict") else ["v%d" % i for i in range(nl_)]
        terms = {}
        for _ in range(rng.randint(1, 5)):
            terms[tuple(rng.sample(labs, rng.randint(3, 8) if nl_ == 9 else rng.randint(14, 22)))] = rng.choice(coefs)
    elif cls == "raw-repeated-labels":
        tn = "dict"
        mat = False
        labs = labels(rng.randint(1, 4))
        terms = {}
        for _ in range(rng.randint(1, 6)):
            k = tuple(rng.choice(labs) for _ in range(rng.randint(1, 2 if d2 else 6)))
            if d2 and len(set(k)) > 2:
                continue
            terms[k] = rng.choice(coefs)
        if not terms:
            terms = {(labs[0], labs[0]): 2.0, (labs[0],): 1}
    elif cls == "stale-model":
        tn = rng.choice([t for t in accept if t != "dict"])
        mat = tn.endswith("Matrix")
        labs = labels(rng.randint(2, 5))
        terms = gen.rand_terms(rng, labs, 2 if (d2 or tn in ("QUBO", "QUSO", "QUBOMatrix", "QUSOMatrix")) else 3, coefs=coefs, lo=2, hi=6)
        stale = True
    elif cls == "chain-2000":
        fn = rng.choice(["anneal_quso", "anneal_qubo", "anneal_puso"])
        spin = A.is_spin(fn)
        kind = "spin" if spin else "bool"
        tn = {"anneal_quso": "QUSOMatrix", "anneal_qubo": "QUBOMatrix", "anneal_puso": "PUSOMatrix"}[fn]
        mat = True
        terms = {(i, i + 1): (-1.0 if i % 3 else 2.0) for i in range(1999)}
    elif cls == "huge-sparse":
        # integer-labelled Matrix models whose largest label lies around 2^15 / 2^16 / 2^17 (N = max_index + 1 spins, nearly all of
        # them isolated): 16-bit counters, N-dependent block sizes and divisions by N-derived quantities live here
        fn = rng.choice(["anneal_quso", "anneal_qubo", "anneal_puso", "anneal_pubo"])
        spin, d2 = A.is_spin(fn), A.is_deg2(fn)
        kind = "spin" if spin else "bool"
        tn = {"anneal_quso": "QUSOMatrix", "anneal_qubo": "QUBOMatrix", "anneal_puso": "PUSOMatrix", "anneal_pubo": "PUBOMatrix"}[fn]
        mat = True
        top = rng.choice([32766, 32767, 32768, 65534, 65535, 65536, 65537, 70000, 131072, 131073])
        terms = {(0, 1): 1.0, (top,): -1.0, (1, top): 0.5}
        if not d2:
            terms[(0, 1, top)] = 2.0
        if rng.random() < 0.4:
            terms.update({(i, i + 1): -1.0 for i in range(top - 40, top)})
    elif cls == "dense-40":
        fn = rng.choice(["anneal_quso", "anneal_qubo"])
        spin = A.is_spin(fn)
        kind = "spin" if spin else "bool"
        tn = rng.choice(["dict", "QUSOMatrix" if spin else "QUBOMatrix"])
        mat = tn.endswith("Matrix")
        terms = {(i, j): rng.choice(coefs) for i in range(40) for j in range(i + 1, 40)}
        terms.update({(i,): rng.choice(coefs) for i in range(40)})
    else:
        cfg = A.make_config(rng, fn=fn)
        cfg["class"] = cls
        cfg["stale"] = False
        finish_kwargs(rng, cfg)
        return cfg
    if tn == "dict":
        m = dict(terms)
    else:
        T = getattr(L, tn)
        m = T()
        for k, v in terms.items():
            m[k] += v
        if stale:
            kill = rng.sample(list(m), rng.randint(1, len(m))) if len(m) else []
            for k in kill:
                if rng.random() < 0.5:
                    m[k] = 0
                else:
                    m[k] -= m[k]
        else:
            m.refresh()
    p = ref.from_raw(kind, dict(m))
    tv = p.vars()
    if mat:
        reported = m.variables if stale else tv
        full = set(range(max(reported) + 1)) if reported else set()
    elif stale:
        full = set(m.variables)
    else:
        full = set(tv)
    cfg = {"fn": fn, "type": tn, "model": m, "terms": dict(m), "kw": {}, "poly": p, "kind": kind, "true_vars": tv,
           "full_keys": full, "own_matrix": tn in A.OWN_MATRIX[fn], "matrix": mat, "class": cls, "stale": stale}
    finish_kwargs(rng, cfg)
    return cfg


def finish_kwargs(rng, cfg):
    spin = A.is_spin(cfg["fn"])
    kw = {}
    s = rng.choice(SCHED)
    big = cfg["class"] in BIG
    if s == "empty":
        kw["schedule"] = []
    elif s == "zeros":
        kw["schedule"] = [0] * rng.randint(1, 4)
    elif s == "extreme":
        kw["schedule"] = [rng.choice([1e300, 1e-300, 5e-324, 1.7e308, 1, 0]) for _ in range(rng.randint(1, 5))]
    elif s == "length-1":
        kw["schedule"] = [rng.choice([0.5, 2, 0])]
    elif s == "numbers":
        # "an iterable of floats" in practice: anything float() accepts -- Fractions, numpy scalars, Decimals, big ints
        from fractions import Fraction
        import decimal
        import numpy as np
        pool = [lambda: Fraction(rng.randint(1, 9), rng.randint(1, 4)), lambda: np.float32(rng.choice([0.5, 2.25])),
                lambda: np.int64(rng.randint(1, 5)), lambda: rng.randint(257, 5000), lambda: decimal.Decimal("1.5"),
                lambda: np.float64(0.75), lambda: float(rng.randint(1, 3))]
        kw["schedule"] = [rng.choice(pool)() for _ in range(rng.randint(1, 6))]
        if rng.random() < 0.3:
            kw["schedule"] = tuple(kw["schedule"])
    elif s in ("linear", "geometric"):
        kw["schedule"] = s
        kw["anneal_duration"] = rng.choice([1, 2, 7] if big else [1, 2, 30, 200])
        if rng.random() < 0.4:
            kw["temperature_range"] = (rng.choice([5, 1, 1e3]), rng.choice([0.5, 1e-3, 1]))
    else:
        kw["schedule"] = [rng.choice([3, 1, 0.2, 0]) for _ in range(rng.randint(1, 8))]
    if rng.random() < 0.5:
        dom = (1, -1) if spin else (0, 1)
        kw["initial_state"] = {x: rng.choice(dom) for x in cfg["full_keys"]}
    kw["in_order"] = rng.random() < 0.5
    kw["seed"] = rng.choice([None, 0, 7, 2 ** 31 - 1])
    kw["num_anneals"] = rng.choice([1, 1, 2, 5, 17, 50] if not big else [1, 2])
    cfg["kw"] = kw
    cfg["schedule_kind"] = s


def case(ctx, rng, idx):
    cfg = hostile_config(rng)
    ctx.cat("class:" + cfg["class"])
    ctx.cat("schedule:" + cfg["schedule_kind"])
    w = A.describe(cfg)
    w["class"] = cfg["class"]
    _state["pending"] = []
    _state.pop("last_kernel_args", None)
    interrupted = False
    if rng.random() < 0.06 and not os.environ.get("QV_C17_VALGRIND") and cfg["class"] not in BIG:
        # a signal whose Python handler raises arrives while the kernel runs (Ctrl-C, an alarm): the call may end with that
        # exception or finish first -- either way the heap stays sound and later calls work
        import signal
        cfg["kw"] = dict(cfg["kw"], num_anneals=rng.choice([40, 150]), schedule="linear", anneal_duration=rng.choice([50, 200]))
        cfg["kw"].pop("temperature_range", None)
        w = A.describe(cfg)
        w["class"] = cfg["class"]
        w["signal"] = "ITIMER_REAL with a raising handler"

        def _raise(signum, frame):
            raise _Interrupt()
        old_h = signal.signal(signal.SIGALRM, _raise)
        delay_ = rng.choice([0.0005, 0.002, 0.006])
        res = None
        try:
            try:
                signal.setitimer(signal.ITIMER_REAL, delay_)      # (inside the try: on a loaded machine it may fire at once)
                res = getattr(L.sim, cfg["fn"])(cfg["model"], **cfg["kw"])
                exc = None
            finally:
                signal.setitimer(signal.ITIMER_REAL, 0)
        except _Interrupt:
            res, exc, interrupted = None, None, True
        except Exception as e:   # noqa
            res, exc = None, e
        finally:
            signal.setitimer(signal.ITIMER_REAL, 0)
            signal.signal(signal.SIGALRM, old_h)
        ctx.cat("signal-during-call:" + ("interrupted" if interrupted else "finished-first"))
    else:
        try:
            res = getattr(L.sim, cfg["fn"])(cfg["model"], **cfg["kw"])
            exc = None
        except Exception as e:   # noqa
            res, exc = None, e
    for name, errs in _state["pending"]:
        if errs[0].startswith("reference count of a returned"):
            ctx.violation("refcount:%s:returned-list-shared-without-owning-references" % name, "%s: %s" % (name, errs[0]), w)
            continue
        if errs[0].startswith("reference count"):
            ctx.violation("refcount:%s:caller-owned-object-changed" % name, "%s: %s" % (name, errs[0]), w)
            continue
        ctx.violation("kernel-precondition:%s:%s" % (name, errs[0].split(" (")[0]),
                      "%s called with arguments violating the kernel's precondition: %s" % (name, "; ".join(errs)), w)
    polled = poll_sanitizer_logs(ctx, w)
    c = A.counters()
    if c is not None:
        ctx.count("hook-index-checks", c[0])
        if c[2]:
            ctx.violation("kernel-hook:index-out-of-bounds", "H2 hook counted %d out-of-range indices" % c[2], w)
        if c[1]:
            ctx.violation("kernel-hook:dE-mismatch", "H2 hook counted %d dE mismatches" % c[1], w)
    if _state["pending"] or polled or interrupted:
        return
    if exc is not None:
        # an ordinary Python exception is not a memory-safety event (whether the call should have been accepted is C11's
        # subject); SystemError / MemoryError / ValueError("... NULL ...") come from the C boundary and are
        ctx.exc["%s@%s" % (type(exc).__name__, cfg["fn"])] += 1
        ctx.cat("python-exception:" + type(exc).__name__)
        if isinstance(exc, (SystemError, MemoryError)):
            ctx.violation("c-boundary-exception:%s@%s" % (type(exc).__name__, cfg["fn"]), "%s raised %r" % (cfg["fn"], exc), w)
        return
    # results must still be well formed (memory corruption often shows up as garbage states/values)
    if cfg["stale"] or cfg["class"] == "raw-repeated-labels" or (cfg["type"] == "dict" and cfg["class"] != "generic"):
        # (raw keys whose terms cancel leave the labelled model built from them with stale variables as well)
        dom = (1, -1) if A.is_spin(cfg["fn"]) else (0, 1)
        for r in res:
            if not set(cfg["true_vars"]) <= set(r.state) or any(v not in dom for v in r.state.values()) or \
                    frac(r.value) != cfg["poly"].value({x: r.state[x] for x in cfg["true_vars"]}):
                ctx.violation("stale-model:malformed-result", "state %r value %r" % (r.state, r.value), w)
                return
    elif not A.check_results(ctx, cfg, res, tag="result:"):
        return
    if cfg["type"] != "dict" and cfg["class"] not in BIG and not cfg["stale"] and rng.random() < 0.25:
        if not reuse_after_clear(ctx, rng, cfg, w):
            return
    lk = _state.get("last_kernel_args")
    if lk and lk[2] >= 2 and lk[3] >= 1:
        ctx.nontrivial((cfg["fn"], cfg["type"], sorted(cfg["terms"].items(), key=repr)[:40], sorted(cfg["kw"].items(), key=repr)))
    if cfg["class"] not in BIG:
        ctx.sample({"class": cfg["class"], "call": w}, limit=3)


def reuse_after_clear(ctx, rng, cfg, w):
    """the same model object lives on.  Matrix types: clear(), refilled with as many variables as before but a larger top label
    (or fewer variables and a smaller one), annealed again -- N = max_index + 1 has to follow.  Labelled types: a variable
    cancels, refresh(), a new variable arrives, annealed again -- the enumeration has to stay 0..n-1."""
    m = cfg["model"]
    try:
        if cfg["matrix"]:
            old = sorted(cfg["true_vars"])
            nv = max(len(old), 2)
            top0 = max(old) if old else 1
            how = rng.choice(["same-count-larger-top", "same-count-larger-top", "fewer-smaller-top", "refresh-instead-of-clear"])
            if how == "fewer-smaller-top":
                labs = list(range(max(nv - 1, 2)))
            else:
                labs = list(range(nv - 1)) + [top0 + rng.choice([1, 7, 40])]
            if how == "refresh-instead-of-clear":
                for k in list(m):
                    m[k] = 0
                m.refresh()
            else:
                m.clear()
            for a_, b_ in zip(labs, labs[1:]):
                m[(a_, b_)] += rng.choice([1.0, -2.0, 0.5])
            m[(labs[-1],)] += 1.5
            note = "then %s and refilled over labels %r" % (how, labs)
        else:
            tv = sorted(cfg["true_vars"], key=repr)
            if len(tv) < 2:
                return True
            how = rng.choice(["cancel-refresh-grow", "cancel-refresh-grow", "clear-and-rebuild-with-other-labels"])
            new_ = "nv_after_refresh" if isinstance(tv[0], str) else (("nv", 9) if isinstance(tv[0], tuple) else 9000)
            if how == "cancel-refresh-grow":
                gone = rng.choice(tv[:-1] if rng.random() < 0.7 else tv)
                for k in [k for k in m if gone in k]:
                    m[k] -= m[k]
                m.refresh()
                m[(new_,)] += 2.0
                note = "then every term of %r cancelled, refresh(), a term over the new variable %r" % (gone, new_)
            else:
                m.clear()
                m[(new_,)] += 2.0
                m[(tv[-1],)] += -1.0
                note = "then clear() and a new model over %r, %r" % (new_, tv[-1])
    except Exception as e:   # noqa
        ctx.cat("reuse-after-clear:refill-raised-" + type(e).__name__)
        return True
    kind = cfg["kind"]
    p2 = ref.from_raw(kind, dict(m))
    tv2 = p2.vars()
    kw2 = {"num_anneals": rng.choice([1, 3]), "anneal_duration": rng.choice([2, 20]), "seed": rng.choice([0, None]), "in_order": rng.random() < 0.5}
    full2 = (set(range(max(tv2) + 1)) if tv2 else set()) if cfg["matrix"] else set(tv2)
    cfg2 = dict(cfg, model=m, terms=dict(m), poly=p2, true_vars=tv2, full_keys=full2, kw=kw2)
    w2 = dict(A.describe(cfg2), history=[w, note])
    ctx.cat("reuse-after-clear:" + how)
    _state["pending"] = []
    try:
        res2 = getattr(L.sim, cfg["fn"])(m, **kw2)
    except Exception as e:   # noqa
        ctx.cat("python-exception:" + type(e).__name__)
        if isinstance(e, (SystemError, MemoryError)):
            ctx.violation("c-boundary-exception:%s@%s" % (type(e).__name__, cfg["fn"]), "%s raised %r" % (cfg["fn"], e), w2)
            return False
        res2 = None
    for name, errs in _state["pending"]:
        ctx.violation("kernel-precondition:%s:%s" % (name, errs[0].split(" (")[0]), "%s called with arguments violating the kernel's precondition: %s" % (name, "; ".join(errs)), w2)
    bad = bool(_state["pending"]) or poll_sanitizer_logs(ctx, w2)
    c = A.counters()
    if c is not None:
        ctx.count("hook-index-checks", c[0])
        if c[2] or c[1]:
            ctx.violation("kernel-hook:" + ("index-out-of-bounds" if c[2] else "dE-mismatch"), "H2 hook: mismatches=%d bounds=%d on the refilled object" % (c[1], c[2]), w2)
            bad = True
    if bad:
        return False
    if res2 is not None and not A.check_results(ctx, cfg2, res2, tag="reuse-after-clear:result:"):
        return False
    return True


def threads_probe(ctx):
    """'any sequence of calls in one process' includes calls made from several threads: every thread owns its arguments (nothing is
    shared between them at the Python level) and makes seeded calls on models of different sizes; each result must equal the
    one the same call gives when nothing else runs.  (With the interpreter lock held through the kernels this is a serial
    history in disguise; a kernel that gives the lock up must not keep anything between calls that another call can see.)"""
    import threading

    def jobs(t):
        n = 6 + 9 * t
        out = []
        for rep in range(12):
            out.append(("anneal_quso", {(i, i + 1): (1.0 if (i + t) % 3 else -2.0) for i in range(n + rep % 3)}, dict(num_anneals=3, anneal_duration=30, seed=11 + t)))
            out.append(("anneal_qubo", {(i, (i + 2) % (n + 1)): (1.5 if i % 2 else -1.0) for i in range(n)}, dict(num_anneals=2, anneal_duration=20, seed=5 + t, in_order=False)))
            out.append(("anneal_puso", {(i, i + 1, i + 2): (1.0 if i % 2 else -0.5) for i in range(n - 2)}, dict(num_anneals=2, anneal_duration=15, seed=3 + t)))
        return out

    def run(job):
        fn, model, kw = job
        r = getattr(L.sim, fn)(dict(model), **dict(kw))
        return [(sorted(x.state.items()), x.value) for x in r]
    NT = 4
    serial = [[run(j) for j in jobs(t)] for t in range(NT)]
    got = [None] * NT
    errs = []

    def worker(t):
        try:
            got[t] = [run(j) for j in jobs(t)]
        except BaseException as e:   # noqa
            errs.append(repr(e))
    import sys
    old_sw = sys.getswitchinterval()
    sys.setswitchinterval(1e-5)
    try:
        ths = [threading.Thread(target=worker, args=(t,)) for t in range(NT)]
        for th in ths:
            th.start()
        for th in ths:
            th.join()
    finally:
        sys.setswitchinterval(old_sw)
    ctx.count("threaded-calls", NT * 36)
    A.counters()           # (the hook's counters are process-wide: whatever it saw belongs to no single call; discard)
    _state["pending"] = []
    if errs:
        ctx.violation("threads:call-raised", "a call made from a thread raised %s" % errs[0], {"threads": NT})
    elif got != serial:
        t_ = next(i for i in range(NT) if got[i] != serial[i])
        j_ = next(i for i in range(len(serial[t_])) if got[t_][i] != serial[t_][i])
        ctx.violation("threads:seeded-result-differs-from-serial", "thread %d, call %d (%s, seed %r): %r while the same call alone gives %r" % (
            t_, j_, jobs(t_)[j_][0], jobs(t_)[j_][2]["seed"], got[t_][j_][:1], serial[t_][j_][:1]), {"threads": NT})
    poll_sanitizer_logs(ctx, {"phase": "threads-probe"})


def leak_probe(ctx):
    """'later calls unaffected': objects that stay alive per call (an unbounded leak ends in an OOM kill of a long history).
    Counts gc-tracked objects around two batches of identical calls; growth proportional to the calls is a leak."""
    import gc
    M = {(i, i + 1): 1.0 for i in range(12)}
    P = {(i, i + 1, i + 2): 1.0 for i in range(10)}

    def batch():
        for _ in range(15):
            L.sim.anneal_quso(M, num_anneals=40, anneal_duration=2, seed=1)
            L.sim.anneal_puso(P, num_anneals=40, anneal_duration=2, seed=1)
            L.sim.anneal_qubo(M, num_anneals=40, anneal_duration=2, seed=1)

    def live():
        gc.collect()
        return len(gc.get_objects())
    batch()
    a = live()
    batch()
    b = live()
    batch()
    c = live()
    ctx.count("leak-probe-calls", 135)
    ctx.extra["leak_probe_growth"] = [b - a, c - b]
    if b - a > 200 and c - b > 200:
        ctx.violation("leak:objects-kept-alive-per-call", "%d and %d gc-tracked objects stay alive after two batches of 45 calls "
                      "(about %.0f per call)" % (b - a, c - b, (c - a) / 90.0), {"growth": [b - a, c - b]})


def finish(ctx):
    ctx.idx = -1
    leak_probe(ctx)
    if not os.environ.get("QV_C17_VALGRIND"):
        threads_probe(ctx)
    again = reference_results()
    ctx.count("reference-call-repeats")
    if again != _state["ref"]:
        ctx.violation("later-calls-affected", "the fixed reference calls return different results after the history",
                      {"before": _state["ref"], "after": again})
    poll_sanitizer_logs(ctx, {"phase": "finish"})
    ctx.idx = None


def crash_violation(shard, r, seed, tier):
    reps = r.get("sanitizer_reports") or []
    tag = "process-died:rc=%s" % r["rc"]
    if reps:
        tag = "process-died:%s:%s@%s" % (reps[0]["tool"], reps[0]["kind"].split(":")[0][:40], reps[0]["where"] or "?")
    return {"property": ID, "tag": tag, "what": "shard %s died (rc=%s) during call #%s; sanitizer: %s; log: %s" % (
        shard, r["rc"], r.get("progress"), reps[:2], r["log"][-400:].replace("\n", " | ")), "seed": seed, "tier": tier, "shard": shard,
        "nshards": TIERS[tier]["shards"], "idx": r.get("progress"), "witness": {"log_tail": r["log"][-3000:], "sanitizer_reports": reps[:4]}}


# ---- launcher side ---------------------------------------------------------------------------------------------------
def custom_run(env):
    from .. import launch
    mod = sys.modules[__name__]
    tier, seed, tmp, conf = env["tier"], env["seed"], env["tmp"], env["conf"]
    extra_inc, extra_viol, cov = [], [], {}
    ok, info = sanit.asan_canary(tmp)
    cov["canary_asan_ubsan_detected"] = ok
    cov["canary_asan_kinds"] = info["kinds"]
    if not ok:
        extra_inc.append("ASan/UBSan canary not detected: %r" % (info,))
    only = only_shard = None
    nshards, cases = conf["shards"], conf["cases"]
    if env["replay"]:
        with open(env["replay"]) as f:
            rp = json.load(f)
        if (rp.get("witness") or {}).get("fuzz_input_hex") is not None:
            fz = run_fuzzer(env, conf, seed, tmp, only_input=rp["witness"]["fuzz_input_hex"])
            return launch.conclude(mod, tier, seed, {}, env["t0"], replay=env["replay"], tmp=tmp,
                                   extra_violations=fz["violations"], extra_inconclusive=fz["inconclusive"])
        seed, tier = rp["seed"], rp["tier"]
        conf = dict(TIERS[tier])
        nshards, cases = rp.get("nshards", conf["shards"]), conf["cases"]
        only, only_shard = rp["idx"], rp["shard"]
        if only is None or only < 0:
            only = None           # crash without attribution / finish phase: replay the whole shard
    results = launch.spawn_shards(mod, tier, seed, nshards, cases, tmp, env["ext_path"], "asan",
                                  only=only, only_shard=only_shard, timeout=conf.get("timeout", 3600))
    for s, r in results.items():
        pf = os.path.join(tmp, "shard%d.progress" % s)
        if os.path.isfile(pf):
            try:
                r["progress"] = int(open(pf).read().strip() or -1)
            except ValueError:
                r["progress"] = None
        if r["res"] is None:
            r["sanitizer_reports"] = sanit.parse_reports(glob.glob(os.path.join(tmp, "asan-sh%d.*" % s)))
        # UBSan / ASan text that went to stderr instead of the log files
        for rep in sanit.parse_reports(r["log"]):
            extra_viol.append({"property": ID, "tag": "%s:%s@%s" % (rep["tool"], rep["kind"].split(":")[0][:60], rep["where"] or "?"),
                               "what": "%s report on stderr of shard %s: %s" % (rep["tool"], s, rep["kind"]), "seed": seed,
                               "tier": tier, "shard": s, "nshards": nshards, "idx": r.get("progress"), "witness": {"log_tail": r["log"][-2000:]}})
        if "QVVERIF" in r["log"]:
            cov.setdefault("hook_stderr_lines", []).extend([l for l in r["log"].splitlines() if "QVVERIF" in l][:5])
    leftover = sanit.parse_reports(glob.glob(os.path.join(tmp, "asan-sh*")))
    cov["sanitizer_reports_in_logs"] = len(leftover)
    cov["sanitizer_report_kinds"] = sorted({"%s:%s@%s" % (x["tool"], x["kind"].split(":")[0][:60], x["where"]) for x in leftover})
    if not env["replay"]:
        fz = run_fuzzer(env, conf, seed, tmp)
        cov.update(fz["cov"])
        extra_viol.extend(fz["violations"])
        extra_inc.extend(fz["inconclusive"])
    # ---- valgrind memcheck subset on the plain build (small in quick, larger in thorough) ---------------------------------------------
    if not env["replay"]:
        vg = run_valgrind(env, conf, seed, tmp)
        cov.update(vg["cov"])
        extra_viol.extend(vg["violations"])
        extra_inc.extend(vg["inconclusive"])
    return launch.conclude(mod, tier, seed, results, env["t0"], replay=env["replay"], tmp=tmp, extra_cov=cov,
                           extra_violations=extra_viol, extra_inconclusive=extra_inc)


def run_fuzzer(env, conf, seed, tmp, only_input=None):
    """libFuzzer + ASan + UBSan on the kernels themselves (qvmon/fuzz/kernel_fuzz.c): coverage-guided inputs that satisfy
    the kernels' precondition, with in-harness oracles (value == energy, spins +-1, T=0 reference sweep, reproducibility)
    and the H2 invariants.  Deterministic: -runs / -seed, no time limit decides a verdict."""
    import re
    out = {"cov": {}, "violations": [], "inconclusive": []}
    src = os.path.join(boot.repo_root(), "qubovert", "sim", "src")
    exe = os.path.join(tmp, "kernel_fuzz")
    cmd = ["clang", "-g", "-O1", "-fsanitize=fuzzer,address,undefined", "-fno-sanitize-recover=undefined",
           "-D%s=1" % boot.GUARD, "-I", src, os.path.join(env["here"], "qvmon", "fuzz", "kernel_fuzz.c")] + \
          [os.path.join(src, f) for f in ("anneal_quso.c", "anneal_puso.c", "random.c", "pcg_basic.c")] + ["-lm", "-o", exe]
    p = subprocess.run(cmd, capture_output=True, text=True)
    if p.returncode:
        out["inconclusive"].append("fuzz harness build failed: " + p.stderr[-600:])
        return out
    e = dict(os.environ, ASAN_OPTIONS="detect_leaks=1:abort_on_error=0", UBSAN_OPTIONS="print_stacktrace=1")
    if only_input is not None:
        f = os.path.join(tmp, "replay-input")
        with open(f, "wb") as fh:
            fh.write(bytes.fromhex(only_input))
        r = subprocess.run([exe, f], capture_output=True, text=True, env=e, timeout=600)
        if r.returncode:
            out["violations"].append(fuzz_violation(r.stderr, only_input, seed, "replay"))
        return out
    jobs, runs = conf.get("fuzz_jobs", 2), conf.get("fuzz_runs", 100000)
    procs = []
    for j in range(jobs):
        art = os.path.join(tmp, "fuzz-artifact-%d-" % j)
        corpus = os.path.join(tmp, "corpus%d" % j)
        os.makedirs(corpus, exist_ok=True)
        c = [exe, "-runs=%d" % runs, "-seed=%d" % (1000 * seed + j + 1), "-max_len=96", "-artifact_prefix=" + art, "-print_final_stats=1", corpus]
        procs.append((j, art, subprocess.Popen(c, stdout=subprocess.DEVNULL, stderr=subprocess.PIPE, text=True, env=e)))
    total = 0
    covs = []
    for j, art, pr in procs:
        try:
            _, err = pr.communicate(timeout=conf.get("fuzz_timeout", 3600))
        except subprocess.TimeoutExpired:
            pr.kill()
            out["inconclusive"].append("fuzz job %d timed out" % j)
            continue
        m = re.search(r"stat::number_of_executed_units:\s*(\d+)", err)
        total += int(m.group(1)) if m else 0
        cv = re.findall(r"cov: (\d+) ft: (\d+)", err)
        if cv:
            covs.append([int(cv[-1][0]), int(cv[-1][1])])
        if pr.returncode:
            arts = glob.glob(art + "*")
            hx = open(arts[0], "rb").read().hex() if arts else ""
            out["violations"].append(fuzz_violation(err, hx, seed, "job%d" % j))
    out["cov"]["fuzz_kernel_executions"] = total
    out["cov"]["fuzz_edge_coverage(cov,features)"] = covs
    out["cov"]["fuzz_crashes"] = len(out["violations"])
    if total < jobs * runs // 2 and not out["violations"]:
        out["inconclusive"].append("fuzzer executed only %d inputs" % total)
    return out


def fuzz_violation(err, hexinput, seed, where):
    import re
    kind = "crash"
    m = re.search(r"QVFUZZ oracle failure: (.*)", err)
    if m:
        kind = "oracle:" + m.group(1).strip()[:70]
    else:
        reps = sanit.parse_reports(err)
        if reps:
            kind = "%s:%s@%s" % (reps[0]["tool"], reps[0]["kind"].split(":")[0][:50], reps[0]["where"])
    return {"property": ID, "tag": "fuzz:" + kind, "what": "libFuzzer kernel harness (%s): %s" % (where, kind), "seed": seed,
            "tier": "thorough", "shard": "fuzz", "nshards": 0, "idx": None,
            "witness": {"fuzz_input_hex": hexinput, "stderr_tail": err[-2500:],
                        "how_to_replay": "./check C17 --replay <this file>  (rebuilds qvmon/fuzz/kernel_fuzz.c and runs it on the input)"}}


def run_valgrind(env, conf, seed, tmp):
    out = {"cov": {}, "violations": [], "inconclusive": []}
    ok, info = sanit.valgrind_canary(tmp)
    out["cov"]["canary_valgrind_detected"] = ok
    if not ok:
        out["inconclusive"].append("valgrind canary not detected: %r" % (info,))
        return out
    plain = boot.build_ext("plain", tmp)
    n, cases = conf.get("valgrind_shards", 4), conf.get("valgrind_cases", 30)
    procs = []
    for s in range(n):
        log = os.path.join(tmp, "vg%d.log" % s)
        res = os.path.join(tmp, "vg%d.json" % s)
        e = boot.child_env(None, plain, {"PYTHONMALLOC": "malloc", "QV_C17_VALGRIND": "1"})
        cmd = sanit.valgrind_cmd(log) + [sys.executable, "-m", "qvmon.worker", "--prop", ID, "--tier", "thorough", "--seed", str(seed),
                                         "--shard", str(1000 + s), "--nshards", str(n), "--cases", str(cases), "--out", res]
        procs.append((s, log, res, subprocess.Popen(cmd, env=e, cwd=env["here"], stdout=subprocess.DEVNULL, stderr=subprocess.DEVNULL)))
    calls = 0
    for s, log, res, p in procs:
        try:
            p.wait(timeout=3 * 3600)
        except subprocess.TimeoutExpired:
            p.kill()
            out["inconclusive"].append("valgrind shard %d timed out" % s)
            continue
        if os.path.isfile(res):
            r = json.load(open(res))
            calls += r.get("evaluations", 0)
            if r.get("harness_errors"):
                out["inconclusive"].append("valgrind shard %d harness error: %s" % (s, r["harness_errors"][0]["trace"][-400:]))
        else:
            out["inconclusive"].append("valgrind shard %d produced no result (rc=%s)" % (s, p.returncode))
        try:
            txt = open(log, errors="replace").read()
        except OSError:
            txt = ""
        for rep in sanit.parse_valgrind(txt):
            out["violations"].append({"property": ID, "tag": "valgrind:%s@%s" % (rep["kind"], rep["where"]),
                                      "what": "valgrind memcheck: %s in %s" % (rep["kind"], rep["where"]), "seed": seed,
                                      "tier": "thorough", "shard": 1000 + s, "nshards": n, "idx": None,
                                      "witness": {"log_excerpt": txt[:3000]}})
    out["cov"]["valgrind_calls"] = calls
    out["cov"]["valgrind_reports"] = len(out["violations"])
    if calls < n * cases // 2:
        out["inconclusive"].append("valgrind subset ran only %d calls" % calls)
    return out
