"""C18 -- substitution and scaling utilities preserve the represented function."""
from fractions import Fraction as F

from .. import core, gen, ref
from .. import lib as L
from ..ref import Poly, frac

ID = "C18"
RULE = ("subvalue / subgraph / normalize (functions and methods) on plain dicts, DictArithmetic and the ten model "
        "types, labels from 6 pools, degree <= 4; partial, empty and complete assignments with numeric values (also "
        "values outside the variable's domain, e.g. 2 or 0.5) or sympy symbols; node sets and connection maps of any "
        "size; normalize values {1, 2, .5, -3}. Oracle: exact substitution in the reference polynomial (sympy results "
        "compared after numeric substitution of the symbols at three points). Non-trivial = model with >= 2 terms and "
        "a non-empty assignment / node set; distinct = digest of (function, type, terms, arguments)"
        ' Also: values / connections given as defaultdict, Counter, OrderedDict, MappingProxyType, ChainMap, UserDict (and their immutability), sympy-number and narrow numpy (int8 / uint8 / float32) coefficients, plain-polynomial dicts with repeated labels, removal of the largest term with a dict mutator followed by the same normalisation, second call after result edits.')
RULE += " Rounds 9-10: named variable objects edited in place, models in very small units (exact power-of-two scaling), second call on the same object after a term was swapped / changed / removed in place."
TIERS = {"quick": {"shards": 8, "cases": 4000}, "thorough": {"shards": 16, "cases": 40000}}
FLOOR_BASE = {"quick": 400, "thorough": 10000}    # case counts the floors below were calibrated for; the launcher scales them
ALLT = ["dict", "DictArithmetic", "QUBO", "PUBO", "PCBO", "QUBOMatrix", "PUBOMatrix", "QUSO", "PUSO", "PCSO", "QUSOMatrix", "PUSOMatrix"]


def FLOORS(tier):
    q = tier == "quick"
    f = {"symbolic-values": 100 if q else 5000, "normalize-method": 300, "subvalue-method": 300, "subgraph-method": 300,
         "complete-assignment": 100, "empty-assignment": 60, "plain-polynomial:subvalue": 60,
         "plain-polynomial:subgraph": 60, "values-container:defaultdict": 150, "values-container:Counter": 150,
         "sympy-number-coefficients": 200, "narrow-numpy-coefficients": 200, "values-container:MappingProxyType": 80,
         "values-container:ChainMap": 80, "normalize-method:again-after-raw-removal": 40, "subgraph:refused-call-first": 100, "normalize-method:refused-call-first": 50}
    for fn in ("subvalue", "subgraph", "normalize"):
        for t in ALLT:
            f["%s:%s" % (fn, t)] = 40 if q else 1500
    return f

_FLOORS_BEFORE_ROUND9 = FLOORS


def FLOORS(tier):      # noqa: F811 -- floors of the input classes added in round 9 (a quarter of what seed 0 observes in the quick tier)
    f = _FLOORS_BEFORE_ROUND9(tier)
    f.update({'named-variable-edited-in-place': 66, 'second-look:model-edited-in-place:change-coefficient': 95, 'second-look:model-edited-in-place:remove-a-term': 62, 'second-look:model-edited-in-place:swap-a-term': 97})
    return f


def NTOL():
    """comparison tolerance of the normalize checks: float32 inputs keep float32 precision (numpy's rule, not the library's)"""
    return F(1, 10 ** 5) if build.narrow else F(1, 10 ** 12)


def kind_of_name(tn, rng):
    if tn in ("dict", "DictArithmetic"):
        return rng.choice(["bool", "spin"])
    return L.kind_of(getattr(L, tn))


def build(rng, tn, kind):
    mat = tn.endswith("Matrix")
    labs = gen.labels(rng, rng.randint(1, 5), matrix=mat)
    deg2 = tn in ("QUBO", "QUSO", "QUBOMatrix", "QUSOMatrix")
    terms = {}
    for _ in range(rng.randint(1, 6)):
        k = tuple(gen.sort_labels(rng.sample(labs, rng.randint(0, min(len(labs), 2 if deg2 else 4)))))
        terms[k] = terms.get(k, 0) + rng.choice(gen.DYADIC)
    terms = {k: v for k, v in terms.items() if v}
    if rng.random() < 0.1 and terms:
        # coefficients taken from a compact numpy weight array (int8 / uint8 / float32), near the limits of their type: the
        # arithmetic of the utilities is that of ordinary numbers, whatever the storage type of the input
        import numpy as np
        ty, pool = rng.choice([(np.int8, [100, -90, 7, 120, -120]), (np.uint8, [200, 7, 250, 1]), (np.float32, [16777216.0, 1.0, 3.0, -16777216.0])])
        terms = {k: ty(rng.choice(pool)) for k in terms}
        build.narrow = True
    elif not mat and rng.random() < 0.15:
        # coefficients that are sympy numbers (what is left when the symbols of a symbolic model cancel or are simplified)
        import sympy
        terms = {k: (sympy.Rational(str(F(v))) if rng.random() < 0.7 else v) for k, v in terms.items()}
        build.sympy_numbers = True
    build.named = False
    build.tiny = False
    if not build.narrow and not build.sympy_numbers and rng.random() < 0.1:
        # the same model in very small units (an exact power-of-two rescaling): a coefficient of 1e-12 or 1e-120 is a coefficient,
        # not rounding residue
        sc_ = rng.choice([2.0 ** -34, 2.0 ** -60, 2.0 ** -400])
        terms = {k: v * sc_ for k, v in terms.items()}
        build.tiny = True
    if tn == "dict":
        m = dict(terms)
    elif tn == "DictArithmetic":
        m = L.utils.DictArithmetic(terms)
    elif not mat and rng.random() < 0.1 and not build.narrow and not build.sympy_numbers and not build.tiny:
        # a variable object (create_var / boolean_var / spin_var: a one-term model that carries its name) edited IN PLACE -- it
        # keeps the name while it stops being "just the variable": rescaled, and possibly grown by further terms
        T = getattr(L, tn)
        x0 = labs[0]
        if tn in ("PCBO", "PCSO") and rng.random() < 0.5:
            m = (L.boolean_var if tn == "PCBO" else L.spin_var)(x0)
        else:
            m = T.create_var(x0)
        how = rng.choice(["scaled", "set-item", "grown", "scaled-and-grown", "bare"])
        if how in ("scaled", "scaled-and-grown"):
            m *= rng.choice([3, -2, 0.5])
        elif how == "set-item":
            m[(x0,)] = rng.choice([-7, 4, 0.25])
        if how in ("grown", "scaled-and-grown"):
            for k, v in terms.items():
                m[k] += v
        build.named = True
    else:
        m = getattr(L, tn)(terms)
    return m, labs


def plain_case(ctx, rng):
    """plain dict / DictArithmetic do not squash keys: a key is a multiset of labels and the model an ordinary polynomial
    (x*x stays x*x).  subvalue / subgraph must multiply a substituted label in once per occurrence."""
    from collections import Counter
    tn = rng.choice(["dict", "DictArithmetic"])
    labs = gen.labels(rng, rng.randint(1, 4))
    terms = {}
    for _ in range(rng.randint(1, 5)):
        k = tuple(rng.choice(labs) for _ in range(rng.randint(0, 4)))      # repeats allowed
        terms[k] = terms.get(k, 0) + rng.choice(gen.DYADIC)
    terms = {k: v for k, v in terms.items() if v}
    if not terms:
        return
    m = dict(terms) if tn == "dict" else L.utils.DictArithmetic(terms)
    snap = dict(m)
    fn = rng.choice(["subvalue", "subgraph"])
    ctx.cat("plain-polynomial:" + fn)
    vals = {x: rng.choice([0, 1, -1, 2, 0.5]) for x in rng.sample(labs, rng.randint(0, len(labs)))}
    w = {"function": fn, "type": tn, "terms": snap, "values": vals, "class": "plain-polynomial (repeated labels)"}

    def canon(d):
        out = Counter()
        for k, v in d.items():
            out[tuple(sorted(k, key=repr))] += frac(v)
        return {k: v for k, v in out.items() if v}
    if fn == "subvalue":
        ok, r = ctx.call("subvalue", L.utils.subvalue, vals, m, _w=w) if rng.random() < 0.5 or tn == "dict" else \
            ctx.call("subvalue", m.subvalue, vals, _w=w)
        exp = Counter()
        for k, v in snap.items():
            c = frac(v)
            rest = []
            for x in k:
                if x in vals:
                    c *= frac(vals[x])
                else:
                    rest.append(x)
            exp[tuple(sorted(rest, key=repr))] += c
    else:
        nodes = set(rng.sample(labs, rng.randint(0, len(labs))))
        w["nodes"] = nodes
        ok, r = ctx.call("subgraph", L.utils.subgraph, m, nodes, vals, _w=w)
        exp = Counter()
        for k, v in snap.items():
            if not k:
                continue
            c = frac(v)
            rest = []
            for x in k:
                if x in nodes:
                    rest.append(x)
                else:
                    c *= frac(vals.get(x, 0))
            exp[tuple(sorted(rest, key=repr))] += c
    if not ok:
        return
    if dict(m) != snap:
        ctx.violation(fn + ":argument-mutated", "argument changed", w)
        return
    if type(r) is not type(m):
        ctx.violation(fn + ":result-type", "%s in -> %s out" % (type(m).__name__, type(r).__name__), w)
        return
    exp = {k: v for k, v in exp.items() if v}
    if canon(r) != exp:
        ctx.violation(fn + ":function-changed:plain-polynomial", "got %r expected %r" % (dict(r), {k: float(v) for k, v in exp.items()}), w)
        return
    if len(snap) >= 2 and vals:
        ctx.nontrivial(("plain", fn, tn, sorted(snap.items(), key=repr), sorted(vals.items(), key=repr)))


def case(ctx, rng, idx):
    import sympy
    if rng.random() < 0.12:
        return plain_case(ctx, rng)
    tn = rng.choice(ALLT)
    kind = kind_of_name(tn, rng)
    build.sympy_numbers = False
    build.narrow = False
    m, labs = build(rng, tn, kind)
    if not m:
        return
    if build.sympy_numbers:
        ctx.cat("sympy-number-coefficients")
    if build.narrow:
        ctx.cat("narrow-numpy-coefficients")
    if getattr(build, "named", False):
        ctx.cat("named-variable-edited-in-place")
    if getattr(build, "tiny", False):
        ctx.cat("tiny-scale")
    # plain dicts / DictArithmetic have no squashing: keys are sets of distinct labels, 'kind' only names the algebra
    p = ref.from_raw("bool", dict(m)) if tn in ("dict", "DictArithmetic") else ref.from_raw(kind, dict(m))
    fn = rng.choice(["subvalue", "subgraph", "normalize"])
    ctx.cat("%s:%s" % (fn, tn))
    snap = dict(m)
    w = {"function": fn, "type": tn, "terms": snap}
    method = tn != "dict" and rng.random() < 0.5
    if fn == "subvalue":
        k = rng.choice([0, 1, 2, len(labs), len(labs)])
        chosen = rng.sample(labs, min(k, len(labs)))
        symbolic = rng.random() < 0.3 and not tn.endswith("Matrix") and not build.narrow and not build.tiny
        syms = {}
        if symbolic:
            ctx.cat("symbolic-values")
            vals = {}
            for x in chosen:
                s = sympy.Symbol("s%d" % len(syms))
                syms[s] = None
                vals[x] = s if rng.random() < 0.7 else rng.choice([0, 1, -1])
        else:
            vals = {x: rng.choice([0, 1, -1, 2, 0.5]) for x in chosen}
        if not chosen:
            ctx.cat("empty-assignment")
        if chosen and set(chosen) >= p.vars():
            ctx.cat("complete-assignment")
        w["values"] = vals
        vals, vsnap = container(ctx, rng, vals, w)
        if method:
            ctx.cat("subvalue-method")
            ok, r = ctx.call("subvalue", m.subvalue, vals, _w=w)
        else:
            ok, r = ctx.call("subvalue", L.utils.subvalue, vals, m, _w=w)
        if not ok:
            return
        if not check_common(ctx, fn, m, snap, r, w):
            return
        if dict(vals) != vsnap:
            ctx.violation("subvalue:values-argument-mutated", "the values mapping changed from %r to %r" % (vsnap, dict(vals)), w)
            return
        vals = vsnap
        if not compare(ctx, fn, kind if tn not in ("dict", "DictArithmetic") else "bool", r, p, vals, syms, rng, w):
            return
        if len(p.d) >= 2 and chosen:
            ctx.nontrivial((fn, tn, sorted(snap.items(), key=repr), sorted(vals.items(), key=repr)))
    elif fn == "subgraph":
        nodes = set(rng.sample(labs, rng.randint(0, len(labs))))
        if rng.random() < 0.2:
            nodes = list(nodes)
        conn = None
        if rng.random() < 0.7:
            conn = {x: rng.choice([0, 1, -1, 2]) for x in rng.sample(labs, rng.randint(0, len(labs)))}
        w["nodes"], w["connections"] = nodes, conn
        if rng.random() < 0.12:
            # a call that must be refused (a connection value that is no number, nodes that are no container) comes first;
            # whatever it raises, G is still G and the valid call below still answers for G
            badkw = rng.choice([("connections", {x: None for x in labs}), ("connections", {x: "high" for x in labs}), ("nodes", 5)])
            ctx.cat("subgraph:refused-call-first")
            try:
                if badkw[0] == "nodes":
                    L.utils.subgraph(m, badkw[1], conn)
                else:
                    L.utils.subgraph(m, set(), badkw[1])
            except Exception:   # noqa
                pass
            if dict(m) != snap or list(m.items()) != list(snap.items()):
                ctx.violation("subgraph:argument-mutated-by-a-refused-call", "a refused call changed G from %r to %r" % (snap, dict(m)), w)
                return
        csnap = None
        if conn is not None:
            conn, csnap = container(ctx, rng, conn, w)
            w["connections"] = conn
        if method:
            ctx.cat("subgraph-method")
            ok, r = ctx.call("subgraph", m.subgraph, nodes, conn, _w=w)
        else:
            ok, r = ctx.call("subgraph", L.utils.subgraph, m, nodes, conn, _w=w)
        if not ok:
            return
        if not check_common(ctx, fn, m, snap, r, w):
            return
        if csnap is not None and dict(conn) != csnap:
            ctx.violation("subgraph:connections-argument-mutated", "the connections mapping changed from %r to %r" % (csnap, dict(conn)), w)
            return
        conn = csnap
        w["connections"] = csnap
        full = {x: (conn or {}).get(x, 0) for x in p.vars() if x not in nodes}
        base = p - Poly(p.kind, {(): p.offset()})
        if not compare(ctx, fn, p.kind, r, base, full, {}, rng, w):
            return
        if len(p.d) >= 2 and nodes:
            ctx.nontrivial((fn, tn, sorted(snap.items(), key=repr), sorted(map(repr, nodes)), repr(conn)))
    else:
        val = rng.choice([1, 2, 0.5, -3])
        w["value"] = val
        mx = max(abs(frac(v)) for v in snap.values())
        exp = {k: frac(v) * frac(val) / mx for k, v in snap.items()}
        if method:
            ctx.cat("normalize-method")
            c = m.copy()
            if rng.random() < 0.25:
                # a call that must be refused (a value that is no number) comes first; the model must come out of it as it went in
                bad_ = rng.choice([None, "2", [2], {}])
                before_ = list(c.items())
                try:
                    c.normalize(bad_)
                    refused_ = False
                except Exception:   # noqa
                    refused_ = True
                ctx.cat("normalize-method:refused-call-first")
                if refused_ and list(c.items()) != before_:
                    ctx.violation("normalize-method:model-changed-by-a-refused-call", "normalize(%r) raised, and left the model as %r (was %r)" % (bad_, dict(c), dict(before_)), w)
                    return
                if not refused_:
                    c = m.copy()
            ok, r = ctx.call("normalize-method", c.normalize, val, _w=w)
            if not ok:
                return
            if r is not None:
                ctx.violation("normalize-method:returns-value", "method returned %r (documented in place)" % (r,), w)
                return
            if len(c) >= 2 and rng.random() < 0.3:
                # the largest term is removed with a plain dict mutator (del / pop), then the same normalisation is asked again
                kmax = max(c, key=lambda k_: abs(frac(c[k_])))
                if rng.random() < 0.5:
                    del c[kmax]
                else:
                    c.pop(kmax)
                ctx.cat("normalize-method:again-after-raw-removal")
                w["then"] = ["removed %r with a dict mutator" % (kmax,), "normalize(%r) again" % (val,)]
                ok, _ = ctx.call("normalize-method", c.normalize, val, _w=w)
                if not ok:
                    return
                if c:
                    gm = max(abs(frac(v)) for v in c.values())
                    if abs(gm - abs(frac(val))) > NTOL():
                        ctx.violation("normalize:max-magnitude-wrong:second-call", "after removing the largest term and normalising again the largest magnitude is %r, requested %r" % (float(gm), val), w)
                return
            r = c
        else:
            ok, r = ctx.call("normalize", L.utils.normalize, m, val, _w=w)
            if not ok:
                return
            if r is m:
                ctx.violation("normalize:returns-argument", "function returned its argument", w)
                return
        if not check_common(ctx, fn, m, snap, r, w):
            return
        if set(r) != set(exp):
            ctx.violation("normalize:terms-changed", "keys %r -> %r" % (sorted(map(repr, exp)), sorted(map(repr, r))), w)
            return
        scale = float(mx)
        for k in exp:
            if abs(frac(r[k]) - exp[k]) > NTOL() * max(1, abs(exp[k])):
                ctx.violation("normalize:not-one-common-factor", "coefficient %r: got %r expected %r" % (k, r[k], float(exp[k])), w)
                return
        got_max = max(abs(frac(v)) for v in r.values())
        if abs(got_max - abs(frac(val))) > NTOL():
            ctx.violation("normalize:max-magnitude-wrong", "largest magnitude %r, requested %r" % (float(got_max), val), w)
            return
        if len(snap) >= 2:
            ctx.nontrivial((fn, tn, sorted(snap.items(), key=repr), val, method))
    ctx.sample({"function": fn, "type": tn, "terms": snap, "args": {k: v for k, v in w.items() if k not in ("function", "type", "terms")},
                "result": dict(r)}, limit=3)
    if fn in ("subvalue", "subgraph") and tn != "dict" and not build.narrow and not build.sympy_numbers and not build.tiny and rng.random() < 0.3:
        # second look: the same model object is edited in place (one term removed, another one entered: the number of terms
        # stays, the terms do not; or a coefficient changed) and asked the same question again
        deg_ = 2 if tn in ("QUBO", "QUSO", "QUBOMatrix", "QUSOMatrix") else 4
        k_old = rng.choice(list(m))
        cand = [tuple(gen.sort_labels(rng.sample(labs, rng.randint(1, min(len(labs), deg_))))) for _ in range(6)]
        cand = [k for k in cand if k not in m]
        how2 = rng.choice(["swap-a-term", "swap-a-term", "change-coefficient", "remove-a-term"])
        if how2 == "swap-a-term" and not cand:
            how2 = "change-coefficient"
        if how2 == "swap-a-term":
            m[k_old] = 0
            m[cand[0]] = 7
        elif how2 == "change-coefficient":
            m[k_old] = m[k_old] * 2 + 3
        else:
            m[k_old] -= m[k_old]
        ctx.cat("second-look:model-edited-in-place:" + how2)
        snap2 = dict(m)
        w2 = dict(w, terms=snap2, first_terms=snap, edit=how2)
        p2 = ref.from_raw("bool", snap2) if tn == "DictArithmetic" else ref.from_raw(kind, snap2)
        if fn == "subvalue":
            ok, r2 = (ctx.call("subvalue", m.subvalue, w["values"], _w=w2) if method else ctx.call("subvalue", L.utils.subvalue, w["values"], m, _w=w2))
            if not ok:
                return
            if not compare(ctx, "subvalue", p2.kind, r2, p2, w["values"] if isinstance(w["values"], dict) else dict(w["values"]), syms, rng, w2):
                return
        else:
            ok, r2 = (ctx.call("subgraph", m.subgraph, w["nodes"], w["connections"], _w=w2) if method else ctx.call("subgraph", L.utils.subgraph, m, w["nodes"], w["connections"], _w=w2))
            if not ok:
                return
            full2 = {x: (w["connections"] or {}).get(x, 0) for x in p2.vars() if x not in w["nodes"]}
            if not compare(ctx, "subgraph", p2.kind, r2, p2 - Poly(p2.kind, {(): p2.offset()}), full2, {}, rng, w2):
                return
        return
    if fn in ("subvalue", "subgraph") and not method and rng.random() < 0.3:
        first = dict(r)
        core.scribble(r)
        if fn == "subvalue":
            ok, r2 = ctx.call("subvalue", L.utils.subvalue, w["values"], m, _w=w)
        else:
            ok, r2 = ctx.call("subgraph", L.utils.subgraph, m, w["nodes"], w["connections"], _w=w)
        ctx.count("second-call-after-result-edited")
        if ok and (r2 is r or {k: repr(v) for k, v in r2.items()} != {k: repr(v) for k, v in first.items()}):
            ctx.violation(fn + ":second-call-differs", "after the first result was edited, the same call gives %r (first: %r)" % (dict(r2), first), w)


def container(ctx, rng, vals, w):
    """the mapping of substituted values as a dict, or as a dict subclass whose lookup never raises (defaultdict, Counter):
    which variables are substituted is decided by membership, and the caller's mapping is not to be filled"""
    import collections
    snap = dict(vals)
    how = rng.choice(["dict", "dict", "defaultdict", "Counter", "OrderedDict", "MappingProxyType", "ChainMap", "UserDict"])
    w["values_container"] = how
    ctx.cat("values-container:" + how)
    if how == "defaultdict":
        return collections.defaultdict(int, vals), snap
    if how == "Counter":
        c = collections.Counter()
        for k, v in vals.items():
            c[k] = v
        return c, snap
    if how == "OrderedDict":
        return collections.OrderedDict(vals), snap
    if how == "MappingProxyType":          # any Mapping will do, not only dict subclasses
        import types
        return types.MappingProxyType(dict(vals)), snap
    if how == "ChainMap":
        items = list(vals.items())
        return collections.ChainMap(dict(items[:1]), dict(items[1:])), snap
    if how == "UserDict":
        return collections.UserDict(vals), snap
    return vals, snap


def check_common(ctx, fn, m, snap, r, w):
    if dict(m) != snap:
        ctx.violation(fn + ":argument-mutated", "model changed from %r to %r" % (snap, dict(m)), w)
        return False
    if type(r) is not type(m):
        ctx.violation(fn + ":result-type", "%s in -> %s out" % (type(m).__name__, type(r).__name__), w)
        return False
    if any(not v for v in r.values()):
        ctx.violation(fn + ":zero-coefficient-stored", "result stores a zero coefficient: %r" % (dict(r),), w)
        return False
    return True


def _exact(vv):
    """a sympy number as a Fraction"""
    import sympy
    if getattr(vv, "is_Rational", False):
        return F(int(vv.p), int(vv.q))
    try:
        return F(str(sympy.nsimplify(vv)))
    except ValueError:
        return F(float(vv))


def compare(ctx, fn, kind, r, p, vals, syms, rng, w):
    """r (library result) versus p.substitute(vals); symbols evaluated numerically at three points"""
    import sympy
    if not syms:
        exp = p.substitute(vals)
        got = ref.from_raw(kind, dict(r))
        if got != exp:
            ctx.violation(fn + ":function-changed", "got %r expected %r" % (got.show(), exp.show()), w)
            return False
        return True
    for t in range(3):
        point = {s: rng.choice([0, 1, -1, 2, 3]) for s in syms}
        nvals = {x: (point[v] if isinstance(v, sympy.Symbol) else v) for x, v in vals.items()}
        exp = p.substitute(nvals)
        got = Poly(kind)
        for k, v in r.items():
            vv = v.subs(point) if hasattr(v, "subs") else v
            got.add(k, _exact(vv) if hasattr(vv, "is_number") else vv)
        if got != exp:
            ctx.violation(fn + ":function-changed:symbolic", "at %r got %r expected %r" % (point, got.show(), exp.show()), w)
            return False
    return True
