"""C19 -- models survive copy and info round trips and never alias their inputs.

(a) info round trip, (b) aliasing of everything copy()/properties/get_info hand out,
(c) a generic deep-snapshot argument-immutability monitor attached to the public API
while the workloads of the other properties run underneath it."""
import collections
import functools
import importlib

import numpy as np

from .. import core, gen, ref
from .. import lib as L

ID = "C19"
EXT = "plain"
RULE = ("(a) create_from_info(get_info(M)) for DictArithmetic and the ten model types with names, constraints, permuted "
        "set_mapping and stale mappings; (b) mutate every object handed out by copy(), copy-constructors, mapping, "
        "reverse_mapping, variables, constraints (and the polynomials inside) and get_info, and mutate the model after "
        "taking them, comparing deep snapshots; (c) a deep-snapshot monitor on ~120 public entry points (conversion, value, "
        "solver, extrema, subgraph/subvalue/normalize, info, annealers, sat gates, problem constructors and methods, model "
        "methods incl. all add_constraint_* and operators) evaluated at the outermost call while the generated workloads of "
        "C02-C11, C14-C16 and C18 run underneath. Non-trivial = round trip / aliasing case on a model with >= 2 terms, or a "
        "monitored call that received at least one container argument; distinct = digest of the case"
        ' Also: falsy names, a new label added to the rebuilt model, recorded constraints compared with their polynomial types and by is_solution_valid agreement on random assignments, copy.deepcopy compared in full, no-op normalisation must still return a new object, retained-argument probes (the polynomial / operand / info dict a model was built from is edited afterwards), plain dicts with explicit zero entries handed to every dict-taking entry point (item order compared).')
RULE += " Rounds 9-10: classmethods (remove_ancilla_from_solution) under the immutability monitor, zero-entry dicts through anneal_temperature_range and default-schedule anneals."
TIERS = {"quick": {"shards": 8, "cases": 350}, "thorough": {"shards": 16, "cases": 12000}}
FLOOR_BASE = {"quick": 220, "thorough": 6000}    # case counts the floors below were calibrated for; the launcher scales them
FLOOR_FIXED = {"monitored-entry-points-hit"}
UNDER = ["c02", "c03", "c04", "c05", "c06", "c07", "c08", "c09", "c10", "c11", "c14", "c15", "c16", "c18"]
TYPES = ["DictArithmetic", "QUBO", "PUBO", "PCBO", "QUSO", "PUSO", "PCSO", "QUBOMatrix", "PUBOMatrix", "QUSOMatrix", "PUSOMatrix"]


def FLOORS(tier):
    q = tier == "quick"
    f = {"immutability-checks": 20000 if q else 10 ** 6, "monitored-entry-points-hit": 70, "round-trips": 300 if q else 10000, "round-trip:validity-agreement-checks": 80 if q else 2500,
         "aliasing-probes": 2500 if q else 10 ** 5, "round-trip:with-constraints": 40, "round-trip:permuted-mapping": 40,
         "round-trip:stale-mapping": 40, "round-trip:named": 60, "round-trip:falsy-name": 25, "round-trip:info-without-optional-entries": 60, "retained:operand-with-constraints": 4,
         "zero-entry-dict-calls": 100, "retained:add_constraint_eq_zero": 30, "retained-arg:PUBO": 15, "retained-arg:dict": 15}
    for u in UNDER:
        f["under:" + u] = 30 if q else 1000
    for t in TYPES:
        f["round-trip:" + t] = 15 if q else 600
    return f


_MISSING = object()


# ---- deep snapshots -----------------------------------------------------------------------------------------------------
def snap(o, depth=0):
    if depth > 6:
        return ("deep",)
    if isinstance(o, dict):
        items = tuple(sorted(((repr(k), snap(v, depth + 1)) for k, v in o.items())))
        if type(o) is dict:
            return ("dict", items)
        extra = [type(o).__name__, getattr(o, "name", None)]
        # bookkeeping is part of the model's observable state (variables, degree, count, mapping, recorded constraints).  Read through
        # the private names when they exist (no copies, no monitored calls), through the public accessors otherwise: a refactoring
        # that renames or drops a private attribute must not look like a violation
        def _get(priv, pub):
            v = o.__dict__.get(priv, _MISSING) if hasattr(o, "__dict__") else _MISSING
            if v is _MISSING:
                try:
                    v = getattr(o, pub)
                except Exception:   # noqa
                    v = None
            return v
        if hasattr(o, "variables") and hasattr(o, "num_binary_variables"):
            vs_ = _get("_variables", "variables")
            extra.append((tuple(sorted(map(repr, vs_ or ()))), repr(_get("_degree", "degree")), _get("_num_binary_variables", "num_binary_variables")))
        if hasattr(o, "mapping"):
            mp_ = _get("_mapping", "mapping")
            extra.append(tuple(sorted((repr(k), v) for k, v in (mp_ or {}).items())))
        if hasattr(o, "constraints") and hasattr(o, "num_ancillas"):
            cs_ = _get("_constraints", "constraints")
            extra.append(tuple(sorted((k, tuple(snap(p, depth + 1) for p in v)) for k, v in (cs_ or {}).items())))
            extra.append(_get("_ancilla", "num_ancillas"))
        return ("model", tuple(map(repr, extra)), items)
    if isinstance(o, (list, tuple)):
        return (type(o).__name__, tuple(snap(x, depth + 1) for x in o))
    if isinstance(o, (set, frozenset)):
        return ("set", tuple(sorted(repr(snap(x, depth + 1)) for x in o)))
    if isinstance(o, np.ndarray):
        return ("ndarray", o.shape, o.tobytes())
    if hasattr(o, "state") and hasattr(o, "value") and hasattr(o, "spin"):
        return ("AnnealResult", snap(o.state, depth + 1), repr(o.value), o.spin)
    return ("atom", repr(o)) if isinstance(o, (int, float, str, bool, type(None))) else ("obj", id(o))


def is_container(o):
    return isinstance(o, (dict, list, set, np.ndarray)) or (isinstance(o, tuple) and any(is_container(x) for x in o))


_mon = {"depth": 0, "ctx": None, "hits": collections.Counter(), "installed": False}


def monitored(qualname, fn, self_immutable):
    @functools.wraps(fn)
    def wrapper(*a, **k):
        if _mon["depth"] or _mon["ctx"] is None:
            return fn(*a, **k)
        ctx = _mon["ctx"]
        _mon["depth"] += 1
        try:
            watch = []
            for i, x in enumerate(a):
                if not self_immutable and (i == 0 or x is a[0]):
                    continue          # the object being edited in place (also when passed again: a *= a)
                if is_container(x):
                    watch.append(("arg%d" % i, x, snap(x)))
            for kk, x in k.items():
                if is_container(x):
                    watch.append((kk, x, snap(x)))
            try:
                return fn(*a, **k)
            finally:
                _mon["hits"][qualname] += 1
                if watch:
                    ctx.count("immutability-checks", len(watch))
                    ctx.count("calls-with-container-arguments")
                    for name, x, before in watch:
                        if snap(x) != before:
                            who = "self" if (name == "arg0" and self_immutable and hasattr(x, "items") and type(x) is not dict and "." in qualname) else name
                            ctx.violation("argument-mutated:%s:%s" % (qualname, who),
                                          "%s changed its argument %s from %r to %r" % (qualname, name, str(before)[:300], str(snap(x))[:300]),
                                          {"entry_point": qualname, "argument": name})
        finally:
            _mon["depth"] -= 1
    wrapper._qv_monitored = True
    return wrapper


NONMUT_METHODS = ["to_qubo", "to_quso", "to_pubo", "to_puso", "to_enumerated", "value", "solve_bruteforce", "is_solution_valid",
                  "convert_solution", "subs", "copy", "subgraph", "subvalue", "pretty_str", "__add__", "__radd__", "__sub__",
                  "__rsub__", "__mul__", "__rmul__", "__neg__", "__pos__", "__pow__", "__truediv__", "__round__",
                  "remove_ancilla_from_solution"]
MUT_METHODS = ["update", "__iadd__", "__isub__", "__imul__", "set_mapping", "set_reverse_mapping"]


def install(ctx):
    _mon["ctx"] = ctx
    if _mon["installed"]:
        return
    _mon["installed"] = True
    import qubovert as qv
    mods = {"utils": ["pubo_to_puso", "puso_to_pubo", "qubo_to_quso", "quso_to_qubo", "pubo_value", "qubo_value", "puso_value",
                      "quso_value", "solve_pubo_bruteforce", "solve_qubo_bruteforce", "solve_puso_bruteforce",
                      "solve_quso_bruteforce", "approximate_pubo_extrema", "approximate_qubo_extrema", "approximate_puso_extrema",
                      "approximate_quso_extrema", "subgraph", "subvalue", "normalize", "get_info", "create_from_info",
                      "matrix_to_qubo", "qubo_to_matrix", "boolean_to_spin", "spin_to_boolean", "is_solution_spin"],
            "sim": ["anneal_qubo", "anneal_quso", "anneal_pubo", "anneal_puso", "anneal_temperature_range"],
            "sat": ["BUFFER", "NOT", "AND", "NAND", "OR", "NOR", "XOR", "XNOR"]}
    for mn, names in mods.items():
        m = getattr(qv, mn)
        for n in names:
            setattr(m, n, monitored("%s.%s" % (mn, n), getattr(m, n), True))
    classes = [qv.utils.DictArithmetic, qv.utils.PUBOMatrix, qv.utils.PUSOMatrix, qv.utils.QUBOMatrix, qv.utils.QUSOMatrix,
               qv.utils.BO, qv.QUBO, qv.QUSO, qv.PUBO, qv.PUSO, qv.PCBO, qv.PCSO, qv.utils.Conversions]
    for cls in classes:
        for n, v in list(vars(cls).items()):
            if isinstance(v, (staticmethod, classmethod)) and n in NONMUT_METHODS:
                # (remove_ancilla_from_solution is a classmethod: its solution argument is the caller's)
                setattr(cls, n, type(v)(monitored("%s.%s" % (cls.__name__, n), v.__func__, True)))
                continue
            if isinstance(v, (staticmethod, classmethod, property)) or not callable(v):
                continue
            if n in NONMUT_METHODS:
                setattr(cls, n, monitored("%s.%s" % (cls.__name__, n), v, True))
            elif n in MUT_METHODS or n.startswith("add_constraint_"):
                setattr(cls, n, monitored("%s.%s" % (cls.__name__, n), v, False))
    for cn in ["SetCover", "VertexCover", "BILP", "JobSequencing", "GraphPartitioning", "NumberPartitioning", "AlternatingSectorsChain"]:
        cls = getattr(qv.problems, cn)
        for n, v in list(vars(cls).items()):
            if n in ("__init__", "to_qubo", "to_quso", "convert_solution", "is_solution_valid", "solve_bruteforce") and callable(v):
                setattr(cls, n, monitored("%s.%s" % (cn, n), v, False))


def setup(ctx):
    install(ctx)
    _mon["mods"] = {u: importlib.import_module("qvmon.props." + u) for u in UNDER}


def finish(ctx):
    ctx.count("monitored-entry-points-hit", len(_mon["hits"]))
    ctx.extra["entry_points_hit"] = dict(_mon["hits"].most_common(200))


# ---- cases ----------------------------------------------------------------------------------------------------------------
def case(ctx, rng, idx):
    r = rng.random()
    if r < 0.27:
        round_trip(ctx, rng)
    elif r < 0.47:
        aliasing(ctx, rng)
    elif r < 0.55:
        retained_arguments(ctx, rng)
    elif r < 0.63:
        zero_entry_dicts(ctx, rng)
    else:
        u = rng.choice(UNDER)
        ctx.cat("under:" + u)
        sub = core.Ctx(u.upper(), ctx.tier, ctx.seed, ctx.shard, ctx.nshards)
        sub.idx = idx
        try:
            _mon["mods"][u].case(sub, rng, idx)
        except core.Expected:
            pass
        ctx.count("underlying-monitored-calls", sum(sub.mon.values()) and 1)
        if sub.digests:
            ctx.nontrivial(("under", u, sorted(sub.digests)[0]))


def rand_model(rng):
    tn = rng.choice(TYPES)
    T = getattr(L, tn) if tn != "DictArithmetic" else L.utils.DictArithmetic
    mat = tn.endswith("Matrix")
    labs = gen.labels(rng, rng.randint(1, 5), matrix=mat)
    deg2 = tn in ("QUBO", "QUSO", "QUBOMatrix", "QUSOMatrix")
    terms = gen.rand_terms(rng, labs, 2 if deg2 else 3, lo=0, hi=5)
    if tn == "DictArithmetic":
        terms = {tuple(gen.sort_labels(set(k))): v for k, v in terms.items()}
    m = T()
    for k, v in terms.items():
        m[k] += v
    feats = []
    if rng.random() < 0.4:
        m.name = rng.choice(["obj", 7, ("n", 1), 0, "", False, 0.0])      # boolean_var(0) is named 0
        feats.append("named")
        if not m.name:
            feats.append("falsy-name")
    if tn in ("PCBO", "PCSO") and rng.random() < 0.7:
        for _ in range(rng.randint(1, 3)):
            P = {(rng.choice(labs),): rng.choice([1, 2]), (): rng.choice([-1, 0, 1])}
            R = rng.choice(["eq", "ne", "lt", "le", "gt", "ge"])
            import warnings
            with warnings.catch_warnings():
                warnings.simplefilter("ignore")
                getattr(m, "add_constraint_%s_zero" % R)(P, lam=rng.choice([1, 2]))
        feats.append("with-constraints")
    if hasattr(m, "set_mapping") and m.num_binary_variables and rng.random() < 0.3:
        vs = list(m.mapping)
        perm = list(range(len(vs)))
        rng.shuffle(perm)
        m.set_mapping({v: perm[i] for i, v in enumerate(vs)})
        feats.append("permuted-mapping")
    elif hasattr(m, "mapping") and len(m) and rng.random() < 0.3:
        k = rng.choice(list(m))
        m[k] = 0
        feats.append("stale-mapping")
    return tn, m, feats


def public_state(m):
    s = {"type": type(m).__name__, "terms": dict(m), "name": m.name}
    for a in ("mapping", "reverse_mapping", "num_ancillas", "constraints", "variables", "degree", "num_binary_variables"):
        if hasattr(m, a):
            v = getattr(m, a)
            # a recorded constraint is a polynomial of the model's kind (it judges assignments as such): its type is part of it
            s[a] = {k: [(type(p).__name__, dict(p)) for p in ps] for k, ps in v.items()} if a == "constraints" else v
    return s


def round_trip(ctx, rng):
    tn, m, feats = rand_model(rng)
    ctx.count("round-trips")
    ctx.cat("round-trip:" + tn)
    for f in feats:
        ctx.cat("round-trip:" + f)
    w = {"type": tn, "terms": dict(m), "features": feats}
    before = public_state(m)
    ok, info = ctx.call("get_info", L.utils.get_info, m, _w=w)
    if not ok:
        return
    ok, c = ctx.call("create_from_info", L.utils.create_from_info, info, _w=w)
    if not ok:
        return
    if public_state(m) != before:
        ctx.violation("get_info:model-mutated", "get_info/create_from_info changed the model", w)
        return
    if type(c) is not type(m):
        ctx.violation("round-trip:type", "round trip of %s gave %s" % (tn, type(c).__name__), w)
        return
    for attr in ("terms", "name", "mapping", "num_ancillas", "constraints"):
        a, b = before.get(attr), public_state(c).get(attr)
        if a != b:
            ctx.violation("round-trip:%s-differs" % attr, "%s: original %r, copy %r" % (attr, a, b), w)
            return
    if before.get("constraints") and "stale-mapping" not in feats:
        # the reproduced constraints judge assignments like the recorded ones
        vs_ = sorted(m.variables, key=repr)
        dom_ = (0, 1) if tn in ("PCBO",) else (1, -1)
        for _ in range(4):
            sol = {x: rng.choice(dom_) for x in vs_}
            try:
                a_ = m.is_solution_valid(sol)
            except Exception:
                break
            ok, b_ = ctx.call("is_solution_valid", c.is_solution_valid, dict(sol), _w=w)
            if not ok:
                return
            ctx.count("round-trip:validity-agreement-checks")
            if a_ != b_:
                ctx.violation("round-trip:copy-judges-differently", "is_solution_valid(%r): original %r, copy %r" % (sol, a_, b_), w)
                return
    ok, info2 = ctx.call("get_info", L.utils.get_info, c, _w=w)
    if not ok:
        return
    if info2 != info:
        ctx.violation("round-trip:get_info-differs", "get_info(copy) != get_info(original)", w)
        return
    if hasattr(c, "mapping") and tn != "DictArithmetic" and "stale-mapping" not in feats and rng.random() < 0.5:
        # the rebuilt model is a working model: it grows like the original would
        ok, c2 = ctx.call("create_from_info", L.utils.create_from_info, info, _w=w)
        if not ok:
            return
        n0 = len(c2.mapping)
        try:
            c2[("fresh_label_after_round_trip",)] += 2
        except KeyError:
            n0 = None
        if n0 is not None:
            ctx.count("aliasing-probes")
            mp_ = c2.mapping
            if set(mp_.values()) != set(range(len(mp_))) or len(mp_) != n0 + 1 or {v: k for k, v in mp_.items()} != c2.reverse_mapping:
                ctx.violation("round-trip:copy-does-not-grow-consistently", "after adding a new label to the rebuilt model: mapping %r, reverse_mapping %r" % (mp_, c2.reverse_mapping), w)
                return
    if rng.random() < 0.3:
        # a hand-written / deserialised info may leave optional entries out; create_from_info reads it, no more (the deep-snapshot
        # monitor on utils.create_from_info compares the dict before and after)
        slim = {k_: v_ for k_, v_ in info.items() if k_ not in (("name",) if info.get("name") is None else ()) + (("num_ancillas",) if not info.get("num_ancillas") else ())}
        slim0 = snap(slim)
        keys0 = list(slim)
        ok, c3 = ctx.call("create_from_info", L.utils.create_from_info, slim, _w=w)
        ctx.cat("round-trip:info-without-optional-entries")
        if ok and (snap(slim) != slim0 or list(slim) != keys0):
            ctx.violation("argument-mutated:create_from_info:info", "create_from_info changed the info dict it was given: keys %r -> %r" % (keys0, list(slim)), w)
            return
    # the info dict must not alias the model
    info["terms"][("zz",) if not tn.endswith("Matrix") else (99,)] = 5
    if "mapping" in info and isinstance(info["mapping"], dict):
        info["mapping"]["zz"] = 99
    for k, v in (info.get("constraints") or {}).items():
        for p in v:
            p[()] = 123456
        v.append("junk")
    ctx.count("aliasing-probes", 3)
    if public_state(m) != before:
        ctx.violation("get_info:aliases-model", "mutating the info dict changed the model", w)
        return
    # ... nor may the model made from it keep pieces of it
    ps = public_state(c)
    if any(ps.get(a) != before.get(a) for a in ("terms", "name", "num_ancillas", "constraints", "mapping", "reverse_mapping")):
        ctx.violation("create_from_info:aliases-info", "mutating the info dict afterwards changed the model created from it", w)
        return
    if len(m) >= 2:
        ctx.nontrivial(("rt", tn, sorted(dict(m).items(), key=repr), feats))
    ctx.sample({"round_trip": tn, "terms": dict(m), "features": feats}, limit=2)


def retained_arguments(ctx, rng):
    """what a model is given stays the caller's: polynomial objects handed to add_constraint_*, operands of in-place
    arithmetic, constructor arguments and mapping dicts are edited afterwards; the model must not follow"""
    import warnings
    kind = rng.choice(["bool", "spin"])
    H = (L.PCBO if kind == "bool" else L.PCSO)()
    labs = [x for x in gen.labels(rng, rng.randint(2, 4))]
    for k, v in gen.rand_terms(rng, labs, 2, lo=0, hi=3).items():
        H[k] += v
    argT = rng.choice(["dict", "PUBO", "PCBO", "QUBO"] if kind == "bool" else ["dict", "PUSO", "PCSO", "QUSO", "PUBO"])
    terms = {k: v for k, v in gen.rand_terms(rng, labs, 1, coefs=[-2, -1, 1, 2, 3], lo=1, hi=3).items()}
    terms[()] = terms.get((), 0) + rng.choice([-1, 1])
    P = dict(terms) if argT == "dict" else gen.model_of(getattr(L, argT), terms)
    how = rng.choice(["add_constraint_eq_zero", "add_constraint_eq_zero", "add_constraint_le_zero", "add_constraint_ne_zero", "iadd", "imul", "ctor", "update"])
    w = {"class": type(H).__name__, "argument_type": argT, "argument": dict(P), "operation": how}
    ctx.cat("retained:" + how)
    ctx.cat("retained-arg:" + argT)
    P_state = None
    with warnings.catch_warnings():
        warnings.simplefilter("ignore")
        if argT in ("PCBO", "PCSO") and how in ("iadd", "update"):
            # the operand is a constrained model itself: what it records stays its own
            P.add_constraint_eq_zero({(labs[0],): 1, (): (0 if kind == "bool" else 1)}, lam=0)
            P.add_constraint_le_zero({(labs[-1],): 1, (): -1}, lam=0)
            P_state = public_state(P)
            ctx.cat("retained:operand-with-constraints")
        try:
            if how.startswith("add_constraint"):
                getattr(H, how)(P, lam=rng.choice([1, 2]))
            elif how == "iadd":
                H += P
            elif how == "imul":
                H *= P
            elif how == "update":
                H.update(P)
            else:
                H = type(H)(P)
        except Exception as e:   # noqa
            ctx.violation("retained:%s:raises-%s" % (how, type(e).__name__), "%r" % (e,), w)
            return
    if P_state is not None:
        with warnings.catch_warnings():
            warnings.simplefilter("ignore")
            H.add_constraint_eq_zero({(labs[-1],): 1, (): (-1 if kind == "bool" else 1)}, lam=0)
            H.add_constraint_le_zero({(labs[0],): 1, (): -2}, lam=0)
            H.add_constraint_ne_zero({(labs[0],): 1, (): -3}, lam=0)
        ctx.count("aliasing-probes")
        if public_state(P) != P_state:
            ctx.violation("%s:operand-follows-the-receiver" % how, "constraints recorded on the receiver afterwards show up in the operand model: %r -> %r" % (
                P_state.get("constraints"), public_state(P).get("constraints")), w)
            return
    before = public_state(H)
    info = L.utils.get_info(H)
    info_snap = snap(info)
    # the caller goes on using its polynomial
    core.scribble(P)
    P[()] = 777
    for k in list(P)[:2]:
        P[k] = -9
    ctx.count("aliasing-probes", 2)
    if public_state(H) != before:
        ctx.violation("%s:model-keeps-the-callers-object" % how, "editing the %s handed to %s changed the model: %r -> %r" % (
            argT, how, {k: before[k] for k in ("terms", "constraints") if k in before}, {k: public_state(H).get(k) for k in ("terms", "constraints")}), w)
        return
    if snap(info) != info_snap:
        ctx.violation("%s:info-keeps-the-callers-object" % how, "editing the %s handed to %s changed an info dict taken earlier" % (argT, how), w)
        return
    if len(before["terms"]) >= 2:
        ctx.nontrivial(("retained", how, argT, sorted(before["terms"].items(), key=repr)))


def zero_entry_dicts(ctx, rng):
    """plain dicts may carry explicit zero coefficients (also a zero constant); no entry point may drop or add entries.
    The deep-snapshot monitor on the entry points does the comparison."""
    kind = rng.choice(["bool", "spin"])
    d2 = rng.random() < 0.5
    labs = gen.labels(rng, rng.randint(1, 4), matrix=rng.random() < 0.5)
    D = {tuple(gen.sort_labels(k)): v for k, v in gen.rand_terms(rng, labs, 2 if d2 else 3, lo=1, hi=4).items()}
    if rng.random() < 0.7:
        D[()] = 0
    for x in labs[:2]:
        if rng.random() < 0.5:
            D.setdefault((x,), 0)
    if not any(v == 0 for v in D.values()):
        D[()] = 0
    snap0 = dict(D)
    items0 = list(D.items())
    n = {("bool", True): "qubo", ("bool", False): "pubo", ("spin", True): "quso", ("spin", False): "puso"}[(kind, d2)]
    other = {"qubo": "quso", "quso": "qubo", "pubo": "puso", "puso": "pubo"}[n]
    sol = {x: (rng.choice((0, 1)) if kind == "bool" else rng.choice((1, -1))) for x in labs}
    U, S = L.utils, L.sim
    calls = {"solve_%s_bruteforce" % n: lambda: getattr(U, "solve_%s_bruteforce" % n)(D),
             "solve_%s_bruteforce(all_solutions)" % n: lambda: getattr(U, "solve_%s_bruteforce" % n)(D, all_solutions=True),
             "%s_value" % n: lambda: getattr(U, "%s_value" % n)(sol, D),
             "%s_to_%s" % (n, other): lambda: getattr(U, "%s_to_%s" % (n, other))(D),
             "approximate_%s_extrema" % n: lambda: getattr(U, "approximate_%s_extrema" % n)(D),
             "anneal_%s" % n: lambda: getattr(S, "anneal_%s" % n)(D, num_anneals=2, anneal_duration=5, seed=1, temperature_range=(2, 1)),
             "anneal_%s(default-schedule)" % n: lambda: getattr(S, "anneal_%s" % n)(D, num_anneals=1, anneal_duration=4, seed=1),
             "anneal_temperature_range": lambda: S.anneal_temperature_range(D, spin=(kind == "spin")),
             "subvalue": lambda: U.subvalue({labs[0]: 1}, D),
             "subgraph": lambda: U.subgraph(D, set(labs[:1])),
             "normalize": lambda: U.normalize(D),
             "ctor": lambda: getattr(L, n.upper())(D)}
    name = rng.choice(sorted(calls))
    w = {"entry_point": name, "dict": snap0}
    ctx.cat("zero-entry-dict:" + name.split("(")[0].replace(n, "X").replace(other, "Y"))
    try:
        calls[name]()
    except Exception as e:   # noqa
        ctx.exc["%s@%s" % (type(e).__name__, name)] += 1      # (what the call answers is other properties' business)
    ctx.count("zero-entry-dict-calls")
    if list(D.items()) != items0:
        ctx.violation("argument-mutated:%s:zero-entries" % name.replace(n, "X").replace(other, "Y"), "the caller's dict changed from %r to %r" % (snap0, D), w)
        return
    if len(snap0) >= 2:
        ctx.nontrivial(("zero-dict", name, sorted(snap0.items(), key=repr)))


def aliasing(ctx, rng):
    tn, m, feats = rand_model(rng)
    if tn == "DictArithmetic":
        return
    w = {"type": tn, "terms": dict(m), "features": feats}
    before = public_state(m)
    T = type(m)
    junk_key = (97,) if tn.endswith("Matrix") else ("junk",)
    # ---- objects handed out must be independent of the model -------------------------------------------------
    import copy as _copy
    handed = {"copy": m.copy(), "ctor": T(m), "variables": m.variables, "subs": m.subs({}), "round": round(m, 6),
              "deepcopy": _copy.deepcopy(m)}        # (copy.copy is shallow by definition: its sharing is Python's, not the library's)
    if tn in ("QUBO", "PUBO", "PCBO", "QUBOMatrix", "PUBOMatrix"):
        # one-operand gates hand out a model of their own, never the operand
        for g_ in ("BUFFER", "OR", "XOR", "AND"):
            handed["sat." + g_] = getattr(L.sat, g_)(m)
    if len(m):
        # a normalisation that has nothing to do (the largest magnitude already is the requested value) still hands out a new object
        mx_ = max(abs(v) for v in m.values())
        handed["normalize"] = L.utils.normalize(m, mx_)
    # operators that change nothing still hand out a new object
    handed["arith.power-one"] = m ** 1
    handed["arith.times-one"] = m * 1
    for a in ("mapping", "reverse_mapping", "constraints"):
        if hasattr(m, a):
            handed[a] = getattr(m, a)
    for name, obj in handed.items():
        ctx.count("aliasing-probes")
        if name == "deepcopy":
            # the copy module's replicas are exact: name and (user / un-refreshed) mapping included
            if public_state(obj) != before:
                ctx.violation("%s:differs-from-original" % name, "%s(): %r vs %r" % (name, public_state(obj), before), w)
                return
        if name in ("copy", "ctor", "subs", "round", "deepcopy", "normalize") or name.startswith("sat.") or name.startswith("arith."):
            if obj is m:
                ctx.violation("%s:returns-the-same-object" % name, "%s returned the model itself" % name, w)
                return
            # (name and an un-refreshed mapping are not part of what a copy must reproduce)
            ps = public_state(obj)
            if name != "normalize" and not name.startswith("sat.") and not name.startswith("arith.") and any(ps.get(a) != before.get(a) for a in ("type", "terms", "constraints", "num_ancillas")):
                ctx.violation("%s:differs-from-original" % name, "%s(): %r vs %r" % (name, ps, before), w)
                return
            obj[junk_key] = 3
            for k in list(obj):
                obj[k] = 0
                break
            if hasattr(obj, "_constraints"):
                for v in obj._constraints.values():
                    for p in v:
                        p[()] = 98765
            if hasattr(obj, "set_mapping") and obj.num_binary_variables:
                obj.set_mapping({v: i + 50 for i, v in enumerate(obj.mapping)})
        elif name == "variables":
            obj.add("junk")
        elif name == "constraints":
            for v in obj.values():
                for p in v:
                    p[()] = 98765
                v.append({(): 1})
            obj["zz"] = []
        else:
            obj["junk"] = 77
            for k in list(obj)[:1]:
                obj[k] = "changed"
        if public_state(m) != before:
            ctx.violation("%s:aliases-model" % name, "mutating the object returned by %s changed the model" % name, w)
            return
    # ---- and vice versa: mutating the model leaves earlier copies alone ------------------------------------------
    c1, c2 = m.copy(), T(m)
    s1, s2 = public_state(c1), public_state(c2)
    mp = m.mapping if hasattr(m, "mapping") else None
    cons = m.constraints if hasattr(m, "constraints") else None
    cons_snap = snap(cons)
    m[junk_key] = 4
    for k in list(m)[:2]:
        m[k] *= 2
    if hasattr(m, "add_constraint_eq_zero"):
        m.add_constraint_eq_zero({junk_key: 1}, lam=2)
    ctx.count("aliasing-probes", 4)
    if public_state(c1) != s1 or public_state(c2) != s2:
        ctx.violation("copy:aliases-model", "mutating the model changed an earlier copy", w)
        return
    if mp is not None and junk_key[0] in mp:
        ctx.violation("mapping:aliases-model", "an earlier mapping dict sees later edits", w)
        return
    if cons is not None and snap(cons) != cons_snap:
        ctx.violation("constraints:aliases-model", "an earlier constraints dict sees later edits", w)
        return
    if len(before["terms"]) >= 2:
        ctx.nontrivial(("alias", tn, sorted(before["terms"].items(), key=repr), feats))
