"""Reference model: exact multilinear polynomials over boolean ({0,1}, x*x = x) or
spin ({1,-1}, z*z = 1) variables, truth tables, Moebius transform.

Independent of qubovert.  Two models denote the same function iff their canonical
coefficient maps are equal (multilinear representation is unique), so functional
equality is decided exactly for any number of variables without enumeration.
"""
from fractions import Fraction as F
import itertools
import numbers
import random

import numpy as np


def frac(v):
    """Exact lift of a number (int, float, numpy scalar, Fraction) to Fraction."""
    if isinstance(v, F):
        return v
    if isinstance(v, bool):
        return F(int(v))
    if isinstance(v, numbers.Integral):
        return F(int(v))
    if hasattr(v, "p") and hasattr(v, "q") and getattr(v, "is_Rational", False):      # sympy Integer / Rational
        return F(int(v.p), int(v.q))
    return F(float(v))


class Poly:
    __slots__ = ("kind", "d")

    def __init__(self, kind, terms=None):
        assert kind in ("bool", "spin")
        self.kind = kind
        self.d = {}
        if terms:
            for k, v in (terms.items() if isinstance(terms, dict) else terms):
                self.add(k, v)

    # -- construction -------------------------------------------------------
    def canon(self, key):
        if self.kind == "bool":
            return frozenset(key)
        c = {}
        for x in key:
            c[x] = c.get(x, 0) + 1
        return frozenset(x for x, n in c.items() if n % 2)

    def add(self, key, v):
        k = self.canon(key)
        nv = self.d.get(k, 0) + frac(v)
        if nv:
            self.d[k] = nv
        else:
            self.d.pop(k, None)

    def copy(self):
        p = Poly(self.kind)
        p.d = dict(self.d)
        return p

    @classmethod
    def const(cls, kind, c):
        return cls(kind, {(): c})

    @classmethod
    def var(cls, kind, x):
        return cls(kind, {(x,): 1})

    # -- arithmetic ---------------------------------------------------------
    def _coerce(self, o):
        if isinstance(o, Poly):
            assert o.kind == self.kind
            return o
        return Poly.const(self.kind, o)

    def __add__(self, o):
        o = self._coerce(o)
        p = self.copy()
        for k, v in o.d.items():
            p.add(tuple(k), v)
        return p

    __radd__ = __add__

    def scale(self, c):
        c = frac(c)
        p = Poly(self.kind)
        if c:
            p.d = {k: v * c for k, v in self.d.items()}
        return p

    def __neg__(self):
        return self.scale(-1)

    def __sub__(self, o):
        return self + self._coerce(o).scale(-1)

    def __rsub__(self, o):
        return self._coerce(o) - self

    def __mul__(self, o):
        if not isinstance(o, Poly):
            return self.scale(o)
        p = Poly(self.kind)
        for k, v in self.d.items():
            for k2, v2 in o.d.items():
                p.add(tuple(k) + tuple(k2), v * v2)
        return p

    __rmul__ = __mul__

    def __pow__(self, n):
        assert isinstance(n, int) and n >= 1
        p = self.copy()
        for _ in range(n - 1):
            p = p * self
        return p

    def __eq__(self, o):
        return isinstance(o, Poly) and self.kind == o.kind and self.d == o.d

    def __ne__(self, o):
        return not self == o

    def __hash__(self):
        return hash((self.kind, frozenset(self.d.items())))

    def __repr__(self):
        return "Poly(%s, %s)" % (self.kind, self.show())

    def show(self):
        def kk(k):
            return tuple(sorted(k, key=lambda x: (str(type(x)), str(x))))
        return {kk(k): (int(v) if v.denominator == 1 else float(v))
                for k, v in sorted(self.d.items(), key=lambda kv: (len(kv[0]), str(kk(kv[0]))))}

    # -- queries ------------------------------------------------------------
    def vars(self):
        return set(x for k in self.d for x in k)

    def degree(self):
        return max((len(k) for k in self.d), default=0)

    def offset(self):
        return self.d.get(frozenset(), F(0))

    def value(self, x):
        t = F(0)
        for k, v in self.d.items():
            m = 1
            for i in k:
                m *= x[i]
            t += v * m
        return t

    def substitute(self, values):
        """Fix the variables in `values` (label -> number); others stay."""
        q = Poly(self.kind)
        for k, v in self.d.items():
            c = v
            rest = []
            for x in k:
                if x in values:
                    c *= frac(values[x])
                else:
                    rest.append(x)
            q.add(tuple(rest), c)
        return q

    def relabel(self, mapping):
        q = Poly(self.kind)
        for k, v in self.d.items():
            q.add(tuple(mapping[x] for x in k), v)
        return q

    def to_spin(self):
        """boolean polynomial -> spin polynomial under x = (1 - z)/2."""
        assert self.kind == "bool"
        q = Poly("spin")
        half = F(1, 2)
        for k, v in self.d.items():
            t = Poly.const("spin", v)
            for x in k:
                t = t * Poly("spin", {(): half, (x,): -half})
            q = q + t
        return q

    def to_bool(self):
        """spin polynomial -> boolean polynomial under z = 1 - 2x."""
        assert self.kind == "spin"
        q = Poly("bool")
        for k, v in self.d.items():
            t = Poly.const("bool", v)
            for x in k:
                t = t * Poly("bool", {(): 1, (x,): -2})
            q = q + t
        return q

    def maxabs(self):
        return max((abs(v) for v in self.d.values()), default=F(0))

    def sumabs(self):
        return sum((abs(v) for v in self.d.values()), F(0))

    def close_to(self, o, tol):
        """tolerance comparison for real-coefficient workloads"""
        keys = set(self.d) | set(o.d)
        return all(abs(self.d.get(k, 0) - o.d.get(k, 0)) <= tol for k in keys)


def from_raw(kind, m):
    """Interpret a raw dict (keys = tuples, possibly unsorted / repeated labels)
    as a polynomial of the given kind."""
    p = Poly(kind)
    for k, v in m.items():
        if not isinstance(k, tuple):
            k = (k,)
        p.add(k, v)
    return p


def table(p, order, spin=None):
    """Truth table of Poly or raw dict `p` over the labels in `order`.
    Row index i assigns bit j of i to order[j]; boolean b, or spin 1-2b.
    Returns float64 (object Fractions are avoided: generators use dyadics so
    float64 arithmetic is exact well within 2**53)."""
    if isinstance(p, Poly):
        items = [(tuple(k), float(v)) for k, v in p.d.items()]
        if spin is None:
            spin = p.kind == "spin"
    else:
        items = [((k if isinstance(k, tuple) else (k,)), float(v)) for k, v in p.items()]
        assert spin is not None
    n = len(order)
    pos = {x: j for j, x in enumerate(order)}
    N = 1 << n
    idx = np.arange(N, dtype=np.int64)
    cols = {}
    out = np.zeros(N, dtype=np.float64)
    for k, v in items:
        t = None
        for x in k:
            j = pos[x]
            c = cols.get(j)
            if c is None:
                b = (idx >> j) & 1
                c = (1 - 2 * b) if spin else b
                c = c.astype(np.float64)
                cols[j] = c
            t = c.copy() if t is None else t * c
        if t is None:
            out += v
        else:
            out += v * t
    return out


def assignment(i, order, spin):
    """The assignment (dict) that row i of table(., order) stands for."""
    return {x: ((1 - 2 * ((i >> j) & 1)) if spin else ((i >> j) & 1))
            for j, x in enumerate(order)}


def moebius_bool(tab, order):
    """Unique multilinear boolean polynomial with the given truth table."""
    a = np.array(tab, dtype=object)
    a = [frac(v) for v in a]
    n = len(order)
    for j in range(n):
        bit = 1 << j
        for i in range(1 << n):
            if i & bit:
                a[i] = a[i] - a[i ^ bit]
    p = Poly("bool")
    for i, v in enumerate(a):
        if v:
            p.add(tuple(order[j] for j in range(n) if (i >> j) & 1), v)
    return p


def selftest(n=400, seed=12345):
    """Poly arithmetic versus direct evaluation on all assignments, basis changes,
    substitution, Moebius transform.  Raises AssertionError on disagreement."""
    rnd = random.Random(seed)
    labs = ["a", "b", 0, 1, (1, "x")]
    checked = 0
    for _ in range(n):
        kind = rnd.choice(["bool", "spin"])

        def rp():
            p = Poly(kind)
            for _ in range(rnd.randint(0, 4)):
                k = tuple(rnd.choice(labs) for _ in range(rnd.randint(0, 4)))
                p.add(k, rnd.choice([-3, -1, F(1, 2), 2, 5]))
            return p
        a, b = rp(), rp()
        vals = (0, 1) if kind == "bool" else (1, -1)
        e = rnd.randint(1, 3)
        sub = {rnd.choice(labs): rnd.choice(vals)}
        for xs in itertools.product(vals, repeat=len(labs)):
            x = dict(zip(labs, xs))
            av, bv = a.value(x), b.value(x)
            assert (a + b).value(x) == av + bv
            assert (a - b).value(x) == av - bv
            assert (a * b).value(x) == av * bv
            assert (a ** e).value(x) == av ** e
            assert a.scale(F(3, 2)).value(x) == av * F(3, 2)
            if all(x[k] == v for k, v in sub.items()):
                assert a.substitute(sub).value(x) == av
            if kind == "bool":
                z = {k: 1 - 2 * v for k, v in x.items()}
                assert a.to_spin().value(z) == av
            else:
                xb = {k: (1 - v) // 2 for k, v in x.items()}
                assert a.to_bool().value(xb) == av
            checked += 1
        t = table(a, labs)
        for i in (0, 1, 7, 13, 31):
            assert t[i] == float(a.value(assignment(i, labs, kind == "spin")))
        if kind == "bool":
            assert moebius_bool(t, labs) == a
            assert a.to_spin().to_bool() == a
        else:
            assert a.to_bool().to_spin() == a
    return checked
