"""Sanitizer / valgrind plumbing for C17 (and the ASan flavour used elsewhere):
option strings, report parsers, and canaries that prove the pipeline reports what
it claims to report (a deliberately broken 30-line extension built with the same
flags must be flagged by the same parsers, else the run is inconclusive)."""
import glob
import os
import re
import subprocess
import sys
import sysconfig

from . import boot

CANARY_C = r'''
#include "Python.h"
#include <stdlib.h>
#include <limits.h>
static PyObject* heap_overflow(PyObject* s, PyObject* a) {
    int n = 8; if(!PyArg_ParseTuple(a, "|i", &n)) return NULL;
    int *p = (int*)malloc(n * sizeof(int));
    for(int i=0; i<=n; i++) p[i] = i;           /* writes p[n] */
    long r = p[n/2]; free(p); return PyLong_FromLong(r);
}
static PyObject* use_after_free(PyObject* s, PyObject* a) {
    volatile int *p = (int*)malloc(4 * sizeof(int)); p[1] = 3; free((void*)p);
    return PyLong_FromLong(p[1]);
}
static PyObject* signed_overflow(PyObject* s, PyObject* a) {
    int x = INT_MAX; int k = 1; if(!PyArg_ParseTuple(a, "|i", &k)) return NULL;
    x += k; return PyLong_FromLong(x);
}
static PyObject* uninit_branch(PyObject* s, PyObject* a) {
    int *p = (int*)malloc(64 * sizeof(int)); long r = 0;
    if(p[17] > 3) r = 1;                        /* conditional jump on uninitialised value */
    free(p); return PyLong_FromLong(r);
}
static PyObject* fine(PyObject* s, PyObject* a) { return PyLong_FromLong(7); }
static PyMethodDef M[] = {
 {"heap_overflow", heap_overflow, METH_VARARGS, ""}, {"use_after_free", use_after_free, METH_VARARGS, ""},
 {"signed_overflow", signed_overflow, METH_VARARGS, ""}, {"uninit_branch", uninit_branch, METH_VARARGS, ""},
 {"fine", fine, METH_VARARGS, ""}, {NULL, NULL, 0, NULL}};
static struct PyModuleDef D = {PyModuleDef_HEAD_INIT, "_qvcanary", "", -1, M};
PyMODINIT_FUNC PyInit__qvcanary(void) { return PyModule_Create(&D); }
'''


def asan_options(log_prefix, gate=False):
    if gate:
        return "detect_leaks=0:halt_on_error=1:abort_on_error=1:log_path=%s" % log_prefix
    return "detect_leaks=0:halt_on_error=0:log_path=%s" % log_prefix


def ubsan_options(log_prefix, gate=False):
    return "print_stacktrace=1:halt_on_error=%d:log_path=%s" % (1 if gate else 0, log_prefix)


def build_canary(tmp, flags):
    src = os.path.join(tmp, "_qvcanary.c")
    with open(src, "w") as f:
        f.write(CANARY_C)
    so = os.path.join(tmp, "_qvcanary" + sysconfig.get_config_var("EXT_SUFFIX"))
    cmd = ["clang", "-shared", "-fPIC", "-Wno-everything", "-I", sysconfig.get_paths()["include"]] + flags + [src, "-o", so]
    p = subprocess.run(cmd, capture_output=True, text=True)
    if p.returncode:
        raise boot.Inconclusive("canary build failed: " + p.stderr[-800:])
    return so


ASAN_RE = re.compile(r"ERROR: AddressSanitizer: ([\w-]+)")
UBSAN_RE = re.compile(r"runtime error: (.*)")
FRAME_RE = re.compile(r"#\d+ 0x[0-9a-f]+ in (\S+) (\S+)")


def parse_reports(paths_or_text):
    """Returns a list of {'tool','kind','where'} from sanitizer logs."""
    texts = []
    if isinstance(paths_or_text, str):
        texts = [paths_or_text]
    else:
        for p in paths_or_text:
            try:
                with open(p, errors="replace") as f:
                    texts.append(f.read())
            except OSError:
                pass
    out = []
    for t in texts:
        lines = t.splitlines()
        for i, ln in enumerate(lines):
            m = ASAN_RE.search(ln)
            if m:
                where = ""
                for l2 in lines[i + 1:i + 14]:
                    fm = FRAME_RE.search(l2)
                    if fm and ("anneal" in fm.group(2) or "canneal" in fm.group(2) or "qvcanary" in fm.group(2)
                               or "random.c" in fm.group(2) or "pcg" in fm.group(2)):
                        where = "%s %s" % (fm.group(1), os.path.basename(fm.group(2)))
                        break
                kind = {"attempting": "bad-free", "requested": "allocation-size-too-big"}.get(m.group(1), m.group(1))
                out.append({"tool": "asan", "kind": kind, "where": where})
            m = UBSAN_RE.search(ln)
            if m:
                loc = ln.split(": runtime error")[0].strip()
                kind_ = re.sub(r"0x[0-9a-fA-F]+", "0x..", m.group(1))          # no run-specific addresses in mechanism tags
                out.append({"tool": "ubsan", "kind": kind_[:80], "where": os.path.basename(loc)})
    return out


VG_ERR_RE = re.compile(r"==\d+== (Invalid (?:read|write) of size \d+|Conditional jump or move depends on uninitialised value|"
                       r"Use of uninitialised value of size \d+|Invalid free|Mismatched free|Syscall param .* uninitialised|"
                       r"Source and destination overlap)")


def parse_valgrind(text, needle=("anneal", "canneal", "qvcanary", "pcg_", "rand_")):
    """valgrind memcheck error blocks whose stack mentions the extension."""
    out = []
    blocks = re.split(r"\n==\d+== \n", text)
    for b in blocks:
        m = VG_ERR_RE.search(b)
        if m and any(n in b for n in needle):
            fm = re.search(r"(?:at|by) 0x[0-9A-F]+: (\S+) \(([^)]*)\)", b)
            loc = os.path.basename(fm.group(2).split()[-1]) if fm else ""      # no temporary directory names in mechanism tags
            out.append({"tool": "valgrind", "kind": m.group(1), "where": "%s %s" % (fm.group(1), loc) if fm else ""})
    return out


def run_py(code, env, timeout=600, prefix=None):
    cmd = (prefix or []) + [sys.executable, "-c", code]
    return subprocess.run(cmd, env=env, capture_output=True, text=True, timeout=timeout,
                          cwd=os.path.dirname(os.path.dirname(os.path.abspath(__file__))))


def asan_canary(tmp):
    """True iff the ASan+UBSan pipeline reports a heap overflow, a use-after-free and a signed overflow."""
    so = build_canary(tmp, boot.FLAVOURS["asan"])
    logp = os.path.join(tmp, "canary-asan")
    env = boot.child_env("asan", None, {"ASAN_OPTIONS": asan_options(logp), "UBSAN_OPTIONS": ubsan_options(logp)})
    env.pop("QV_EXT_PATH", None)
    code = ("import importlib.machinery as m, importlib.util as u\n"
            "l=m.ExtensionFileLoader('_qvcanary', %r); s=u.spec_from_file_location('_qvcanary', %r, loader=l)\n"
            "c=u.module_from_spec(s); l.exec_module(c)\n"
            "c.fine(); c.heap_overflow(8); c.use_after_free(); c.signed_overflow(1); print('canary-ran')\n" % (so, so))
    p = run_py(code, env)
    reps = parse_reports(glob.glob(logp + "*")) + parse_reports(p.stderr)
    kinds = {r["kind"] for r in reps}
    ok = ("heap-buffer-overflow" in kinds and "heap-use-after-free" in kinds and
          any("signed integer overflow" in k for k in kinds))
    return ok, {"ran": "canary-ran" in p.stdout, "kinds": sorted(kinds), "stderr_tail": p.stderr[-300:]}


def valgrind_cmd(logfile):
    return ["valgrind", "--tool=memcheck", "--error-exitcode=0", "--log-file=" + logfile,
            "--undef-value-errors=yes", "--track-origins=no", "--leak-check=no", "--num-callers=12", "-q"]


def valgrind_canary(tmp):
    so = build_canary(tmp, ["-O0", "-g"])
    log = os.path.join(tmp, "canary-vg.log")
    env = boot.child_env(None, None, {"PYTHONMALLOC": "malloc"})
    env.pop("QV_EXT_PATH", None)
    code = ("import importlib.machinery as m, importlib.util as u\n"
            "l=m.ExtensionFileLoader('_qvcanary', %r); s=u.spec_from_file_location('_qvcanary', %r, loader=l)\n"
            "c=u.module_from_spec(s); l.exec_module(c)\n"
            "c.fine(); c.uninit_branch(); c.heap_overflow(8); print('canary-ran')\n" % (so, so))
    p = run_py(code, env, timeout=900, prefix=valgrind_cmd(log))
    try:
        with open(log, errors="replace") as f:
            reps = parse_valgrind(f.read())
    except OSError:
        reps = []
    kinds = {r["kind"] for r in reps}
    ok = any(k.startswith("Conditional jump") for k in kinds) and any(k.startswith("Invalid write") for k in kinds)
    return ok, {"ran": "canary-ran" in p.stdout, "kinds": sorted(kinds), "stderr_tail": p.stderr[-300:]}


def canaries(tmp, with_valgrind=True):
    ok, info = asan_canary(tmp)
    print("asan/ubsan canary:", "detected" if ok else "NOT DETECTED", info)
    if not ok:
        print("INCONCLUSIVE selftest reason=ASan/UBSan canary not detected")
        return 2
    if with_valgrind:
        ok, info = valgrind_canary(tmp)
        print("valgrind canary:", "detected" if ok else "NOT DETECTED", info)
        if not ok:
            print("INCONCLUSIVE selftest reason=valgrind canary not detected")
            return 2
    return 0
