"""pytest plugin: run the repository's own tests with monitors attached.

    QV_SUITE_OUT=<prefix> pytest -p qvmon.suite_plugin -n 16   (from /repo, PYTHONPATH=/verif)

Every monitor reports under the property it belongs to (C04, C05, C09, C11, C13, C14, C15, C19).  A contract
that fires here is either too strict or a defect the tests do not assert -- the witness names the test."""
import functools
import inspect
import json
import os
import warnings

import numpy as np

from . import boot, core, ref
from .ref import frac

_S = {"ctx": {}, "test": None, "depth": 0}
PROPS = ["C04", "C05", "C09", "C11", "C13", "C14", "C15", "C19"]


def ctx(pid):
    return _S["ctx"][pid]


def numeric(m):
    return all(isinstance(v, (int, float, np.integer, np.floating)) and not isinstance(v, bool) for v in m.values())


def where():
    return {"test": _S["test"]}


def outermost(fn):
    """evaluate the contract only for calls made by the test itself, not by the library"""
    @functools.wraps(fn)
    def w(*a, **k):
        if _S["depth"]:
            return fn.__wrapped_orig__(*a, **k)
        _S["depth"] += 1
        try:
            return fn(*a, **k)
        finally:
            _S["depth"] -= 1
    return w


def attach(owner, name, contract):
    orig = getattr(owner, name)

    def wrapper(*a, **k):
        if _S["depth"]:
            return orig(*a, **k)
        _S["depth"] += 1
        try:
            return contract(orig, *a, **k)
        finally:
            _S["depth"] -= 1
    functools.update_wrapper(wrapper, orig)
    setattr(owner, name, wrapper)


def kind_of_model(m, default):
    n = type(m).__name__
    if n in ("QUSO", "PUSO", "PCSO", "QUSOMatrix", "PUSOMatrix"):
        return "spin"
    if n in ("QUBO", "PUBO", "PCBO", "QUBOMatrix", "PUBOMatrix"):
        return "bool"
    return default


# ---- C04 -------------------------------------------------------------------------------------------------------------
def conv_contract(name, src_kind):
    def c(orig, model, *a, **k):
        r = orig(model, *a, **k)
        cx = ctx("C04")
        try:
            if isinstance(model, dict) and numeric(model) and all(isinstance(key, tuple) for key in model):
                cx.count("suite:conversion-contracts")
                src = ref.from_raw(src_kind, dict(model))
                exp = src.to_spin() if src_kind == "bool" else src.to_bool()
                got = ref.from_raw(exp.kind, dict(r))
                if not got.close_to(exp, 1e-9 * float(max(exp.sumabs(), 1))):
                    cx.violation("suite:%s:function-changed" % name, "%s(%r) = %r" % (name, dict(model), dict(r)), where())
        except Exception as e:   # noqa  -- symbolic / exotic inputs of the tests are out of scope
            cx.exc["contract-skipped:%s" % type(e).__name__] += 1
        return r
    return c


# ---- C05 -------------------------------------------------------------------------------------------------------------
def value_contract(name, kind):
    def c(orig, x, model, *a, **k):
        r = orig(x, model, *a, **k)
        cx = ctx("C05")
        try:
            if isinstance(model, dict) and numeric(model) and all(isinstance(key, tuple) for key in model):
                p = ref.from_raw(kind, dict(model))
                xs = x if isinstance(x, dict) else dict(enumerate(x))
                if all(v in xs for v in p.vars()):
                    cx.count("suite:value-contracts")
                    want = float(p.value({v: xs[v] for v in p.vars()}))
                    if abs(float(r) - want) > 1e-9 * float(max(p.sumabs(), 1)):
                        cx.violation("suite:%s:wrong-value" % name, "%s(%r, %r) = %r, expected %r" % (name, x, dict(model), r, want), where())
        except Exception as e:   # noqa
            cx.exc["contract-skipped:%s" % type(e).__name__] += 1
        return r
    return c


def arith_contract(clsname, name):
    import operator
    OPS = {"__add__": operator.add, "__radd__": lambda a, b: b + a, "__sub__": operator.sub, "__rsub__": lambda a, b: b - a,
           "__mul__": operator.mul, "__rmul__": lambda a, b: b * a, "__neg__": None, "__pow__": operator.pow, "__truediv__": None}

    def c(orig, self, *a, **k):
        kind = kind_of_model(self, None)
        before = dict(self) if kind else None
        r = orig(self, *a, **k)
        cx = ctx("C05")
        try:
            if kind is None or r is NotImplemented or not numeric(before) or not isinstance(r, dict) or not numeric(r):
                return r
            ps = ref.from_raw(kind, before)
            if name == "__neg__":
                exp = ps.scale(-1)
            else:
                o = a[0]
                if isinstance(o, dict):
                    if not numeric(o) or not all(isinstance(key, tuple) for key in o):
                        return r
                    po = ref.from_raw(kind_of_model(o, kind), dict(o))
                    if po.kind != kind:
                        return r
                elif isinstance(o, (int, float, np.integer, np.floating)) and not isinstance(o, bool):
                    po = o
                else:
                    return r
                if name == "__truediv__":
                    if isinstance(po, ref.Poly) or not po:
                        return r
                    exp = ps.scale(1 / ref.frac(po))
                elif name == "__pow__":
                    if isinstance(po, ref.Poly) or po != int(po) or not 1 <= po <= 6:
                        return r
                    exp = ps ** int(po)
                else:
                    exp = OPS[name](ps, po)
            cx.count("suite:arithmetic-contracts")
            got = ref.from_raw(kind, dict(r))
            if not got.close_to(exp, 1e-9 * float(max(exp.sumabs(), 1))):
                cx.violation("suite:%s:wrong-result" % name, "%s.%s: %r with %r gave %r" % (clsname, name, before, a[:1], dict(r)), where())
        except Exception as e:   # noqa
            cx.exc["contract-skipped:%s" % type(e).__name__] += 1
        return r
    return c


# ---- C09 -------------------------------------------------------------------------------------------------------------
def bf_contract(name, kind):
    import itertools

    def c(orig, model, all_solutions=False, valid=None, *a, **k):
        snap = dict(model)
        args = (model, all_solutions) + ((valid,) if valid is not None else ())
        res = orig(*args, *a, **k)
        cx = ctx("C09")
        try:
            if not numeric(snap):
                return res
            p = ref.from_raw(kind, snap)
            tv = sorted(p.vars(), key=repr)
            if dict(model) != snap:
                cx.violation("suite:%s:model-mutated" % name, "model changed", where())
            if len(tv) > 12 or not isinstance(res, tuple):
                return res
            cx.count("suite:bruteforce-contracts")
            vals = (1, -1) if kind == "spin" else (0, 1)
            pred = valid or (lambda x: True)
            cands = [dict(zip(tv, t)) for t in itertools.product(vals, repeat=len(tv))]
            okc = [x for x in cands if pred(x)]
            obj, sol = res
            if not tv:
                return res
            if not okc:
                if obj is not None:
                    cx.violation("suite:%s:objective-not-None" % name, "nothing valid but objective %r" % (obj,), where())
                return res
            best = min(p.value(x) for x in okc)
            if obj is None or abs(float(obj) - float(best)) > 1e-9 * max(1.0, abs(float(best))):
                cx.violation("suite:%s:wrong-objective" % name, "objective %r, minimum %r for %r" % (obj, float(best), snap), where())
            sols = sol if all_solutions else [sol]
            for s in sols:
                if abs(float(p.value({v: s[v] for v in tv})) - float(best)) > 1e-9 * max(1.0, abs(float(best))):
                    cx.violation("suite:%s:solution-not-a-minimiser" % name, "solution %r for %r" % (s, snap), where())
        except Exception as e:   # noqa
            cx.exc["contract-skipped:%s" % type(e).__name__] += 1
        return res
    return c


# ---- C11 / C13 --------------------------------------------------------------------------------------------------------
def best_invariant(res, what):
    cx = ctx("C13")
    cx.count("suite:best-invariant-checks")
    if len(res) == 0:
        if res.best is not None:
            cx.violation("suite:best-not-none-on-empty", "%s: best %r on empty" % (what, res.best), where())
    else:
        mn = min(r.value for r in res)
        if res.best is None or res.best.value != mn or not any(res.best is r or res.best == r for r in res):
            cx.violation("suite:best-not-minimum", "%s: best %r, minimum %r" % (what, res.best, mn), where())


def anneal_contract(name, kind):
    def c(orig, model, *a, **k):
        snap = dict(model)
        res = orig(model, *a, **k)
        cx = ctx("C11")
        try:
            best_invariant(res, name)
            if not numeric(snap):
                return res
            ba = inspect.signature(orig).bind(model, *a, **k)
            na = ba.arguments.get("num_anneals", 1)
            cx.count("suite:anneal-contracts")
            if len(res) != max(na, 0):
                cx.violation("suite:%s:wrong-number-of-results" % name, "num_anneals=%r gave %d" % (na, len(res)), where())
            p = ref.from_raw(kind, snap)
            tv = p.vars()
            dom = (1, -1) if kind == "spin" else (0, 1)
            scale = float(max(p.sumabs(), 1))
            for r in res[:50]:
                if not tv <= set(r.state) or any(v not in dom for v in r.state.values()) or r.spin is not (kind == "spin"):
                    cx.violation("suite:%s:malformed-state" % name, "state %r (spin=%r) for model variables %r" % (r.state, r.spin, sorted(map(repr, tv))), where())
                    break
                if abs(float(p.value({x: r.state[x] for x in tv})) - r.value) > 1e-9 * scale:
                    cx.violation("suite:%s:value-does-not-match-state" % name, "value %r, model at state %r" % (r.value, float(p.value({x: r.state[x] for x in tv}))), where())
                    break
            if dict(model) != snap:
                ctx("C19").violation("suite:argument-mutated:%s" % name, "model argument changed", where())
        except Exception as e:   # noqa
            cx.exc["contract-skipped:%s" % type(e).__name__] += 1
        return res
    return c


# ---- C15 -------------------------------------------------------------------------------------------------------------
def extrema_contract(name, kind):
    def c(orig, model, *a, **k):
        res = orig(model, *a, **k)
        cx = ctx("C15")
        try:
            if isinstance(model, dict) and numeric(model) and all(isinstance(key, tuple) for key in model):
                p = ref.from_raw(kind, dict(model))
                order = sorted(p.vars(), key=repr)
                if len(order) <= 16:
                    cx.count("suite:extrema-contracts")
                    tab = ref.table(p, order)
                    tol = 1e-9 * float(max(p.sumabs(), 1))
                    if res[0] > tab.min() + tol or res[1] < tab.max() - tol:
                        cx.violation("suite:%s:does-not-enclose" % name, "%r for true range (%r, %r)" % (res, float(tab.min()), float(tab.max())), where())
        except Exception as e:   # noqa
            cx.exc["contract-skipped:%s" % type(e).__name__] += 1
        return res
    return c


# ---- C14 (boundary invariant after every edit made by a test) -----------------------------------------------------------
def edit_contract(clsname, name):
    def c(orig, self, *a, **k):
        if name in ("set_mapping", "set_reverse_mapping"):
            try:
                self._qv_user_mapping = True
            except Exception:   # noqa
                pass
        r = orig(self, *a, **k)
        cx = ctx("C14")
        try:
            if getattr(self, "_qv_user_mapping", False) or not hasattr(self, "variables"):
                return r
            cx.count("suite:edit-invariant-checks")
            tv = {x for key in self for x in key}
            errs = []
            # (public accessors only: private attribute names are the library's business)
            vs_ = self.variables
            if not tv <= vs_:
                errs.append("variables-not-superset")
            if self.num_binary_variables != len(vs_):
                errs.append("nbv!=len(variables)")
            if max((len(key) for key in self), default=float("-inf")) > self.degree:
                errs.append("degree-below-true")
            if hasattr(self, "mapping"):
                mp_, rm_ = self.mapping, self.reverse_mapping
                if set(mp_) != vs_:
                    errs.append("mapping-keys!=variables")
                if set(mp_.values()) != set(range(len(mp_))):
                    errs.append("mapping-values!=range")
                if {v: kk for kk, v in mp_.items()} != rm_:
                    errs.append("reverse_mapping-not-inverse")
            # (no num_ancillas invariant here: the tests write keys named '__a0' by hand into fresh models to build
            #  their expected values -- user labels with the reserved prefix are outside the property)
            if errs:
                cx.violation("suite:%s:%s" % (name, errs[0]), "%s.%s left %s; terms %r" % (clsname, name, errs, dict(self)), where())
        except Exception as e:   # noqa
            cx.exc["contract-skipped:%s" % type(e).__name__] += 1
        return r
    return c


def install():
    import qubovert as qv
    u = qv.utils
    seed = int(os.environ.get("VERIF_SEED", "0") or 0)
    wid = os.environ.get("PYTEST_XDIST_WORKER", "main")
    for pid in PROPS:
        _S["ctx"][pid] = core.Ctx(pid, "thorough", seed, "suite-" + wid, 0)
        _S["ctx"][pid].max_violations = 30
    for n, k in (("pubo_to_puso", "bool"), ("puso_to_pubo", "spin"), ("qubo_to_quso", "bool"), ("quso_to_qubo", "spin")):
        attach(u, n, conv_contract(n, k))
    for n, k in (("pubo_value", "bool"), ("qubo_value", "bool"), ("puso_value", "spin"), ("quso_value", "spin")):
        attach(u, n, value_contract(n, k))
    for n in ("__add__", "__radd__", "__sub__", "__rsub__", "__mul__", "__rmul__", "__neg__", "__pow__", "__truediv__"):
        if n in vars(u.DictArithmetic):
            attach(u.DictArithmetic, n, arith_contract("DictArithmetic", n))
    for n, k in (("solve_pubo_bruteforce", "bool"), ("solve_qubo_bruteforce", "bool"), ("solve_puso_bruteforce", "spin"), ("solve_quso_bruteforce", "spin")):
        attach(u, n, bf_contract(n, k))
    for n, k in (("approximate_pubo_extrema", "bool"), ("approximate_qubo_extrema", "bool"), ("approximate_puso_extrema", "spin"), ("approximate_quso_extrema", "spin")):
        attach(u, n, extrema_contract(n, k))
    for n, k in (("anneal_pubo", "bool"), ("anneal_qubo", "bool"), ("anneal_puso", "spin"), ("anneal_quso", "spin")):
        attach(qv.sim, n, anneal_contract(n, k))
    for cls in (u.DictArithmetic, u.PUBOMatrix, u.PUSOMatrix, u.QUBOMatrix, u.QUSOMatrix, u.BO, qv.QUBO, qv.QUSO, qv.PUBO, qv.PUSO, qv.PCBO, qv.PCSO):
        for n, v in list(vars(cls).items()):
            if callable(v) and not isinstance(v, (staticmethod, classmethod, property)) and (
                    n in ("__setitem__", "__iadd__", "__isub__", "__imul__", "__itruediv__", "__ipow__", "update", "clear", "refresh",
                          "set_mapping", "set_reverse_mapping", "normalize") or n.startswith("add_constraint_")):
                attach(cls, n, edit_contract(cls.__name__, n))
    # C19: the deep-snapshot immutability monitor of qvmon.props.c19, evaluated for calls made by the tests
    from .props import c19
    c19.install(ctx("C19"))


# ---- pytest hooks ---------------------------------------------------------------------------------------------------------
def pytest_configure(config):
    if not os.environ.get("QV_SUITE_OUT"):
        return
    boot.boot()
    warnings.simplefilter("ignore")
    install()


def pytest_runtest_setup(item):
    _S["test"] = item.nodeid
    for c in _S["ctx"].values():
        c.idx = None


def pytest_sessionfinish(session, exitstatus):
    out = os.environ.get("QV_SUITE_OUT")
    if not out or not _S["ctx"]:
        return
    wid = os.environ.get("PYTEST_XDIST_WORKER", "main")
    res = {pid: c.result() for pid, c in _S["ctx"].items()}
    with open("%s.%s.json" % (out, wid), "w") as f:
        json.dump(res, f)
