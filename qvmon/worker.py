"""One shard of one property check, run as a subprocess by qvmon.launch."""
import argparse
import importlib
import json
import os
import sys
import warnings


def main():
    ap = argparse.ArgumentParser()
    ap.add_argument("--prop", required=True)
    ap.add_argument("--tier", default="quick")
    ap.add_argument("--seed", type=int, default=0)
    ap.add_argument("--shard", type=int, default=0)
    ap.add_argument("--nshards", type=int, default=1)
    ap.add_argument("--cases", type=int, default=100)
    ap.add_argument("--only", type=int, default=None)
    ap.add_argument("--budget", type=float, default=None)
    ap.add_argument("--out", required=True)
    a = ap.parse_args()
    from qvmon import boot, core
    res = None
    try:
        boot.boot()
        warnings.simplefilter("ignore")
        mod = importlib.import_module("qvmon.props." + a.prop.lower())
        res = core.run_shard(mod, a.tier, a.seed, a.shard, a.nshards, a.cases,
                             only=a.only, budget_s=a.budget)
    except boot.Inconclusive as e:
        res = {"prop": a.prop, "shard": a.shard, "inconclusive": str(e)}
    with open(a.out + ".tmp", "w") as f:
        json.dump(res, f)
    os.replace(a.out + ".tmp", a.out)


if __name__ == "__main__":
    main()
