#!/usr/bin/env python3
"""Systematic mutation campaign over the anchored Python sources (complements the sub-agent seeded changes).

For a seeded random sample of single-node AST mutations (comparison flips, boundary shifts of integer constants, and/or swap,
dropped `not`, +/- swap, condition forced true/false, statement replaced by `pass`, swapped call arguments, slice bound
shifts) in the files the properties are anchored in:
  1. apply the mutation to a scratch copy of /repo (under /var/tmp, removed afterwards),
  2. run the repository's own tests there (-x); a mutant the suite kills is uninformative and dropped,
  3. run the quick checks of the properties anchored in that file against the copy (QV_REPO),
  4. append one JSON line to the results file: site, mutation, suite verdict, which checks fired (tags).
Survivors of both (suite passes, no check fires) are the interesting output: each is either an equivalent mutant or a hole.

  tools/automut.py --n 200 --seed 1 [--files qubovert/_pcbo.py ...] [--jobs 4] [--out /var/tmp/automut.jsonl] [--all-checks]
"""
import argparse, ast, json, os, random, shutil, subprocess, sys, tempfile, hashlib
from concurrent.futures import ThreadPoolExecutor
HERE = os.path.dirname(os.path.dirname(os.path.abspath(__file__)))
REPO = os.environ.get("AUTOMUT_REPO", "/repo")
ap = argparse.ArgumentParser()
ap.add_argument("--n", type=int, default=100); ap.add_argument("--seed", type=int, default=1)
ap.add_argument("--files", nargs="*"); ap.add_argument("--jobs", type=int, default=4)
ap.add_argument("--out", default="/var/tmp/automut.jsonl"); ap.add_argument("--all-checks", action="store_true")
ap.add_argument("--c", action="store_true", help="mutate the C sources instead of the Python ones")
ap.add_argument("--list", action="store_true"); ap.add_argument("--tier", default="quick")
a = ap.parse_args()

anch = {}
for l in open(os.path.join(HERE, "properties.jsonl")):
    d = json.loads(l)
    for f in d["anchors"]["files"]:
        anch.setdefault(f, []).append(d["id"])
files = a.files or sorted(f for f in anch if f.endswith((".c", ".h") if a.c else ".py"))

CMP = {ast.Lt: ast.LtE, ast.LtE: ast.Lt, ast.Gt: ast.GtE, ast.GtE: ast.Gt, ast.Eq: ast.NotEq, ast.NotEq: ast.Eq,
       ast.Is: ast.IsNot, ast.IsNot: ast.Is, ast.In: ast.NotIn, ast.NotIn: ast.In}
BIN = {ast.Add: ast.Sub, ast.Sub: ast.Add, ast.Mult: ast.Add, ast.FloorDiv: ast.Div, ast.Div: ast.Mult}


def seg(node):
    return (node.lineno, node.col_offset, node.end_lineno, node.end_col_offset)


def candidates(src):
    """yield (kind, (l0,c0,l1,c1), replacement_text)"""
    tree = ast.parse(src)
    doc_ids = set()
    for n in ast.walk(tree):
        if isinstance(n, (ast.FunctionDef, ast.ClassDef, ast.Module)) and n.body and isinstance(n.body[0], ast.Expr) \
                and isinstance(getattr(n.body[0], "value", None), ast.Constant) and isinstance(n.body[0].value.value, str):
            doc_ids.add(id(n.body[0]))
    import copy
    for n in ast.walk(tree):
        if isinstance(n, ast.Compare) and len(n.ops) == 1 and type(n.ops[0]) in CMP:
            m = copy.deepcopy(n); m.ops = [CMP[type(n.ops[0])]()]
            yield "cmp", seg(n), ast.unparse(m)
        elif isinstance(n, ast.BoolOp):
            m = copy.deepcopy(n); m.op = ast.Or() if isinstance(n.op, ast.And) else ast.And()
            yield "boolop", seg(n), ast.unparse(m)
            m = copy.deepcopy(n); m.values = m.values[:-1]
            yield "boolop-drop-last", seg(n), ast.unparse(m if len(m.values) > 1 else m.values[0])
        elif isinstance(n, ast.UnaryOp) and isinstance(n.op, ast.Not):
            yield "not-dropped", seg(n), "(" + ast.unparse(n.operand) + ")"
        elif isinstance(n, ast.UnaryOp) and isinstance(n.op, ast.USub) and not isinstance(n.operand, ast.Constant):
            yield "neg-dropped", seg(n), "(" + ast.unparse(n.operand) + ")"
        elif isinstance(n, ast.BinOp) and type(n.op) in BIN:
            if isinstance(n.left, ast.Constant) and isinstance(n.left.value, str):
                continue
            m = copy.deepcopy(n); m.op = BIN[type(n.op)]()
            yield "binop", seg(n), "(" + ast.unparse(m) + ")"
        elif isinstance(n, ast.Constant) and type(n.value) is int and abs(n.value) <= 64:
            yield "int+1", seg(n), repr(n.value + 1)
            yield "int-1", seg(n), "(" + repr(n.value - 1) + ")"
        elif isinstance(n, ast.Constant) and type(n.value) is bool:
            yield "bool-flip", seg(n), repr(not n.value)
        elif isinstance(n, (ast.If, ast.While, ast.IfExp)):
            yield "cond-true", seg(n.test), "True"
            if not isinstance(n, ast.While):
                yield "cond-false", seg(n.test), "False"
        elif isinstance(n, (ast.Expr, ast.Assign, ast.AugAssign)) and id(n) not in doc_ids:
            if isinstance(n, ast.Expr) and isinstance(n.value, ast.Constant):
                continue
            yield "stmt-deleted", seg(n), "pass"
            if isinstance(n, ast.AugAssign):
                m = ast.Assign(targets=[n.target], value=n.value, lineno=0, col_offset=0)
                yield "augassign-to-assign", seg(n), ast.unparse(ast.fix_missing_locations(m))
        elif isinstance(n, ast.Call) and len(n.args) >= 2 and not any(isinstance(x, ast.Starred) for x in n.args):
            m = copy.deepcopy(n); m.args[0], m.args[1] = m.args[1], m.args[0]
            yield "args-swapped", seg(n), ast.unparse(m)
        elif isinstance(n, ast.Return) and n.value is not None and isinstance(n.value, ast.Tuple) and len(n.value.elts) == 2:
            m = copy.deepcopy(n); m.value.elts = m.value.elts[::-1]
            yield "return-pair-swapped", seg(n), ast.unparse(m)
        elif isinstance(n, ast.Slice):
            for side in ("lower", "upper"):
                v = getattr(n, side)
                if v is not None:
                    m = copy.deepcopy(n); setattr(m, side, ast.BinOp(left=getattr(m, side), op=ast.Add(), right=ast.Constant(1)))
                    yield "slice-%s+1" % side, seg(n), ast.unparse(ast.fix_missing_locations(m))
        elif isinstance(n, ast.Break):
            yield "break-to-continue", seg(n), "continue"
        elif isinstance(n, ast.Continue):
            yield "continue-to-break", seg(n), "break"


def apply(src, where, text):
    l0, c0, l1, c1 = where
    lines = src.split("\n")
    # col offsets are utf8 byte offsets; sources are ascii apart from a few docstrings -- convert via encode
    def cut(line, col):
        return line.encode()[:col].decode(), line.encode()[col:].decode()
    pre, _ = cut(lines[l0 - 1], c0); _, post = cut(lines[l1 - 1], c1)
    new = lines[:l0 - 1] + [pre + text + post] + lines[l1:]
    return "\n".join(new)


import re
C_OPS = [(r"<=", "<"), (r"(?<![<-])<(?![<=])", "<="), (r">=", ">"), (r"(?<![>-])>(?![>=])", ">="), (r"==", "!="), (r"!=", "=="),
         (r"\+\+", "--"), (r"\+=", "-="), (r"-=", "+="), (r"&&", "||"), (r"\|\|", "&&"), (r"\b1\b", "0"), (r"\b0\b", "1"), (r"\b2\b", "1"),
         (r"\+ 1\b", ""), (r"- 1\b", ""), (r"\*", "+"), (r"(?<![+])\+(?![+=])", "-"), (r"(?<![->])-(?![-=>])", "+"), (r"\bi\b", "j"), (r"\bj\b", "i")]


def c_candidates(src):
    """token-level operators on code lines outside the verification-hook blocks, comments, preprocessor lines and strings"""
    depth = 0; hook = []; incomment = False
    for ln, line in enumerate(src.split("\n"), 1):
        st = line.strip()
        if st.startswith("#if"):
            hook.append("JTIOSUE_QUBOVERT_VERIF" in st or (hook and hook[-1]))
        elif st.startswith("#endif"):
            if hook: hook.pop()
        if "/*" in st and "*/" not in st: incomment = True
        if "*/" in st: incomment = False; continue
        if incomment or st.startswith(("#", "//", "/*", "*")) or (hook and hook[-1]) or '"' in st or not st:
            continue
        code = line.split("//")[0]
        for pat, rep in C_OPS:
            for mm in re.finditer(pat, code):
                yield "c:%s->%s" % (mm.group(0), rep or "(none)"), (ln, mm.start(), ln, mm.end()), rep
        if st.endswith(";") and not st.startswith(("return", "int ", "double ", "long ", "char ", "const ", "static ", "PyObject", "unsigned", "size_t", "}", "{", "break", "continue", "uint", "pcg")) and "=" in st:
            ind = len(line) - len(line.lstrip())
            yield "c:stmt-deleted", (ln, ind, ln, len(line)), ";"


sites = []
for f in files:
    src = open(os.path.join(REPO, f)).read()
    if f.endswith((".c", ".h")):
        for kind, where, text in c_candidates(src):
            sites.append((f, kind, where, text))
        continue
    for kind, where, text in candidates(src):
        try:
            new = apply(src, where, text); ast.parse(new)
        except SyntaxError:
            continue
        if new != src:
            sites.append((f, kind, where, text))
print("%d mutation sites in %d files" % (len(sites), len(files)), flush=True)
if a.list:
    import collections
    print(collections.Counter(s[1] for s in sites)); sys.exit(0)
rng = random.Random(a.seed)
done = set()
if os.path.isfile(a.out):
    for l in open(a.out):
        done.add(json.loads(l)["id"])
sample = rng.sample(sites, min(a.n, len(sites)))


def mid(s):
    return hashlib.sha1(repr(s).encode()).hexdigest()[:12]


def one(s):
    f, kind, where, text = s
    rec = {"id": mid(s), "file": f, "kind": kind, "line": where[0], "to": text[:120]}
    if rec["id"] in done:
        return None
    work = tempfile.mkdtemp(prefix="qv-amut-", dir="/var/tmp"); copy = os.path.join(work, "repo")
    try:
        subprocess.run(["rsync", "-a", "--exclude", ".git", "--exclude", "__pycache__", "--exclude", "docs", "--exclude", "notebook_examples", REPO + "/", copy + "/"], check=True)
        p = os.path.join(copy, f); src = open(p).read()
        rec["from"] = "\n".join(src.split("\n")[where[0] - 1:where[2]])[:200]
        open(p, "w").write(apply(src, where, text))
        if f.endswith((".c", ".h")):
            r = subprocess.run(["/venv/bin/python", "setup.py", "-q", "build_ext", "--inplace"], cwd=copy, capture_output=True, text=True)
            if r.returncode:
                rec["suite"] = "does-not-compile"
                return rec
        env = dict(os.environ); env.pop("JTIOSUE_QUBOVERT_VERIF", None); env["PYTHONPATH"] = copy
        try:
            r = subprocess.run(["/venv/bin/python", "-m", "pytest", "-q", "-p", "no:cacheprovider", "-n", "4", "-x", "--timeout=300",
                                "--deselect", "tests/utils/test_subgraph.py::test_subgraph", "--deselect", "tests/utils/test_subgraph.py::test_subvalue"],
                               cwd=copy, env=env, capture_output=True, text=True, timeout=900)
            tail = (r.stdout.strip().splitlines() or ["?"])[-1]
            rec["suite"] = "pass" if (r.returncode == 0 and " passed" in tail) else "killed"
        except subprocess.TimeoutExpired:
            rec["suite"] = "killed-timeout"
        if rec["suite"] == "pass":
            checks = sorted(anch.get(f, [])) if not a.all_checks else ["C%02d" % i for i in range(1, 20)]
            rec["checks"] = {}
            for c in checks:
                e = dict(os.environ); e.update(QV_REPO=copy, QV_OUT=os.path.join(work, "out"), VERIF_SEED="0", QV_JOBS="6")
                try:
                    r = subprocess.run([os.path.join(HERE, "check"), c, "--tier", a.tier], env=e, capture_output=True, text=True, timeout=1800)
                    tags = sorted({l.split("tag=")[1].split(" ::")[0] for l in r.stdout.splitlines() if l.startswith("VIOLATION") and "tag=" in l})
                    rec["checks"][c] = {"exit": r.returncode, "tags": tags[:3]}
                except subprocess.TimeoutExpired:
                    rec["checks"][c] = {"exit": "timeout", "tags": []}
            rec["caught"] = any(v["exit"] == 1 for v in rec["checks"].values())
    finally:
        shutil.rmtree(work, ignore_errors=True)
    return rec


with ThreadPoolExecutor(a.jobs) as ex, open(a.out, "a") as out:
    for rec in ex.map(one, sample):
        if rec is None:
            continue
        out.write(json.dumps(rec) + "\n"); out.flush()
        print("%s %s:%d %-18s suite=%s %s" % (rec["id"], rec["file"], rec["line"], rec["kind"], rec["suite"],
              ("CAUGHT " + ",".join(c for c, v in rec["checks"].items() if v["exit"] == 1)) if rec.get("caught") else ("SURVIVED" if rec["suite"] == "pass" else "")), flush=True)
