#!/usr/bin/env python3
"""Run every check (quick by default) for a few seeds into a scratch QV_OUT and list observation floors whose margin
(observed / needed) is below a threshold: floors that could flip a clean run to 'inconclusive' on another seed.
  tools/floor_margins.py [--tier quick] [--seeds 0,1,2] [--below 2.0] [C01 C02 ...]"""
import argparse, json, os, subprocess, sys, tempfile, shutil, collections
HERE = os.path.dirname(os.path.dirname(os.path.abspath(__file__)))
ap = argparse.ArgumentParser(); ap.add_argument("--tier", default="quick"); ap.add_argument("--seeds", default="0,1,2"); ap.add_argument("--below", type=float, default=2.0)
ap.add_argument("props", nargs="*")
a = ap.parse_args()
props = a.props or [c["property_id"] for c in json.load(open(os.path.join(HERE, "MANIFEST.json")))["checks"]]
out = tempfile.mkdtemp(prefix="qv-floors-", dir="/var/tmp")
worst = collections.defaultdict(lambda: 1e9)
try:
    for p in props:
        for s in a.seeds.split(","):
            e = dict(os.environ, QV_OUT=out, VERIF_SEED=s)
            subprocess.run([os.path.join(HERE, "check"), p, "--tier", a.tier], env=e, capture_output=True, text=True)
            cov = json.load(open(os.path.join(out, "evidence", p + ".json")))["coverage"]
            fl = cov["floors"]; have = dict(cov["categories_observed"]); have.update(cov["monitor_evaluations"])
            for k, need in fl.items():
                r = have.get(k, 0) / need if need else 1e9
                worst[(p, k)] = min(worst[(p, k)], r)
    for (p, k), r in sorted(worst.items(), key=lambda kv: kv[1]):
        if r < a.below:
            print("%s %-55s x%.2f" % (p, k, r))
finally:
    shutil.rmtree(out, ignore_errors=True)
