#!/usr/bin/env python3
"""Confirm a seeded change (patch.diff + demo.py from a sub-agent) in a scratch copy and keep it under seeded/<name>/.

  tools/keep_seed.py <PROP> <seed_dir> <name> [--checks C05 C14] [--tier quick] [--needs "..."]
Steps (all in /var/tmp scratch copies, removed afterwards): demo passes on the unchanged tree; patch applies; repository
tests still pass with it; demo fails with it; then the named checks are run against the patched copy (QV_REPO)."""
import argparse, json, os, shutil, subprocess, sys, tempfile, time
HERE = os.path.dirname(os.path.dirname(os.path.abspath(__file__)))
ap = argparse.ArgumentParser()
ap.add_argument("prop"); ap.add_argument("seed_dir"); ap.add_argument("name")
ap.add_argument("--checks", nargs="*"); ap.add_argument("--tier", default="quick"); ap.add_argument("--needs", default="")
ap.add_argument("--seeds", default="0")
a = ap.parse_args()
checks = a.checks or [a.prop]
work = tempfile.mkdtemp(prefix="qv-seedchk-", dir="/var/tmp")
copy = os.path.join(work, "repo")
log = {}
def run(cmd, **kw):
    return subprocess.run(cmd, capture_output=True, text=True, **kw)
try:
    run(["rsync", "-a", "--exclude", ".git", "--exclude", "__pycache__", "--exclude", "docs", "--exclude", "notebook_examples", "/repo/", copy + "/"])
    env = dict(os.environ); env.pop("JTIOSUE_QUBOVERT_VERIF", None); env["PYTHONPATH"] = copy
    # same layout as in the sub-agent's worktree: <checkout>/_seedX/demo.py (some demos locate the checkout from __file__)
    local = os.path.join(copy, os.path.basename(os.path.normpath(a.seed_dir)) if os.path.basename(os.path.normpath(a.seed_dir)).startswith("_seed") else "_seed")
    shutil.copytree(a.seed_dir, local, dirs_exist_ok=True)
    demo = os.path.join(local, "demo.py"); patch = os.path.join(a.seed_dir, "patch.diff")
    r = run(["/venv/bin/python", demo], cwd=copy, env=env); log["demo_unchanged_rc"] = r.returncode
    r = run(["patch", "-p1", "-d", copy, "-i", patch]); log["patch_applies"] = r.returncode == 0
    if r.returncode: print("PATCH FAILED", r.stdout, r.stderr); sys.exit(3)
    if any(l.startswith("+++") and (".c" in l or ".h" in l) for l in open(patch)):
        run(["/venv/bin/python", "setup.py", "-q", "build_ext", "--inplace"], cwd=copy)
    r = run(["/venv/bin/python", "-m", "pytest", "-q", "-p", "no:cacheprovider", "-n", "16", "--deselect", "tests/utils/test_subgraph.py::test_subgraph",
             "--deselect", "tests/utils/test_subgraph.py::test_subvalue"], cwd=copy, env=env)
    log["repo_tests_with_change"] = (r.stdout.strip().splitlines() or ["?"])[-1]
    r = run(["/venv/bin/python", demo], cwd=copy, env=env); log["demo_with_change_rc"] = r.returncode
    log["demo_with_change_tail"] = (r.stdout + r.stderr)[-300:]
    print(json.dumps(log, indent=1))
    ok = log["demo_unchanged_rc"] == 0 and log["demo_with_change_rc"] != 0 and " passed" in log["repo_tests_with_change"] and "failed" not in log["repo_tests_with_change"]
    log["confirmed"] = ok
    res = {}
    for c in checks:
        for seed in a.seeds.split(","):
            e = dict(os.environ); e["QV_REPO"] = copy; e["QV_OUT"] = os.path.join(work, "out"); e["VERIF_SEED"] = seed
            t0 = time.time()
            r = run([os.path.join(HERE, "check"), c, "--tier", a.tier], env=e)
            lines = r.stdout.strip().splitlines()
            tags = sorted({l.split("tag=")[1].split(" ::")[0] for l in lines if l.startswith("VIOLATION") and "tag=" in l})
            res["%s@seed%s" % (c, seed)] = {"exit": r.returncode, "tags": tags[:8], "wall_s": round(time.time() - t0, 1)}
            print(c, "seed", seed, "exit", r.returncode, tags[:5], (lines[-1][:150] if lines else r.stderr[-200:]))
    dest = os.path.join(HERE, "seeded", a.name)
    if ok:
        os.makedirs(dest, exist_ok=True)
        shutil.copy(patch, os.path.join(dest, "patch.diff")); shutil.copy(os.path.join(a.seed_dir, "demo.py"), os.path.join(dest, "demo.py"))
        if os.path.isfile(os.path.join(a.seed_dir, "notes.md")): shutil.copy(os.path.join(a.seed_dir, "notes.md"), os.path.join(dest, "notes.md"))
        meta = {"property": a.prop, "needs_to_manifest": a.needs, "source": "independent sub-agent given only the property text and a scratch worktree",
                "confirmed": log, "checks_run": res, "tier": a.tier,
                "caught_by": sorted({k.split("@")[0] for k, v in res.items() if v["exit"] == 1}),
                "how_to_rerun": "tools/keep_seed.py %s seeded/%s %s --checks %s" % (a.prop, a.name, a.name, " ".join(checks))}
        json.dump(meta, open(os.path.join(dest, "meta.json"), "w"), indent=1)
        print("kept in", dest, "caught_by", meta["caught_by"])
    else:
        print("NOT CONFIRMED -- not kept")
finally:
    shutil.rmtree(work, ignore_errors=True)
