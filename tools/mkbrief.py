#!/usr/bin/env python3
"""Prepare the scratch area for one sub-agent of a seeding round: a detached git worktree of /repo (with the C extension
built in place) and a BRIEF.md that holds ONLY the text of one property, the working rules and the one-line descriptions of the
mechanisms earlier sub-agents already used for that property (so that the new changes differ). Nothing from /verif's
machinery goes into it.

  tools/mkbrief.py <round-dir under /tmp> <PROP> [--style adversarial|ordinary|twosite] [--n 3]
"""
import argparse, glob, json, os, subprocess, sys
HERE = os.path.dirname(os.path.dirname(os.path.abspath(__file__)))
ap = argparse.ArgumentParser()
ap.add_argument("root"); ap.add_argument("prop"); ap.add_argument("--style", default="adversarial"); ap.add_argument("--n", type=int, default=3)
a = ap.parse_args()
prop = None
for l in open(os.path.join(HERE, "properties.jsonl")):
    d = json.loads(l)
    if d["id"] == a.prop:
        prop = d
assert prop, a.prop
base = os.path.join(a.root, a.prop); wt = os.path.join(base, "wt")
os.makedirs(base, exist_ok=True)
if not os.path.isdir(wt):
    subprocess.run(["git", "-C", "/repo", "worktree", "add", "--detach", wt, "HEAD"], check=True, capture_output=True)
    subprocess.run(["/venv/bin/python", "setup.py", "-q", "build_ext", "--inplace"], cwd=wt, check=True, capture_output=True)
taken = []
for f in sorted(glob.glob(os.path.join(HERE, "seeded", a.prop + "-*", "meta.json"))):
    m = json.load(open(f)); name = os.path.basename(os.path.dirname(f))
    taken.append("- %s: %s" % (name.split("-", 1)[1], m.get("needs_to_manifest", "")))
STYLE = {
 "adversarial": """Changes that ORDINARY use would expose at once are worthless here. Each change must need something specific to
manifest: a multi-step sequence of operations on one object (history), two cooperating sites that each look fine alone, an
unusual but documented and valid input (label type, coefficient type, argument spelling, boundary size, rarely used keyword),
state carried across calls, an error path followed by a valid call, a numeric coincidence (ties, cancellation, exact bounds),
identity/aliasing of arguments and results, or (for C code) a particular size / schedule / sequence of kernel calls.""",
 "ordinary": """Write the kind of regression a maintainer could plausibly introduce while refactoring, optimising or "cleaning up" the
anchored code (a fast path, a cache, a changed default, a reordered statement, a simplified condition, an off-by-one in a bound,
a different numeric type or summation order, a helper re-used where it does not quite fit). It must still need a specific
(not exotic, but not the most common) situation to manifest, otherwise the existing tests would catch it.""",
 "twosite": """Each change must consist of TWO edits at different sites (different functions, preferably different files) that each look
harmless and keep the property when applied alone, but break it together; or of one edit whose effect only shows after a
specific sequence of at least three public operations on the same object(s) (e.g. build, edit in place, copy/convert, edit
again, observe). Say in notes.md why each half is harmless alone.""",
}
brief = """# Task: seed property-breaking changes into a scratch copy of jtiosue/qubovert

You work ONLY inside `%(wt)s` (a scratch git worktree of the library; python is `/venv/bin/python`, run things with
`cd %(wt)s && PYTHONPATH=%(wt)s /venv/bin/python ...`; the C extension is built in place -- after editing a `.c`/`.h` file run
`/venv/bin/python setup.py -q build_ext --inplace` there). Do not touch `/repo` or `/verif`, do not read `/verif`. No network.

## The property (this text is all you get)

**%(id)s -- %(title)s**

Statement: %(statement)s

Quantified over: %(quant)s

Why the existing tests cannot settle it: %(why)s

Code anchors: %(anchors)s

## What to produce

Produce %(n)d DIFFERENT changes to the library (not to its tests), each of which

1. breaks the property above (for some input / history / call sequence the statement covers, the library now behaves in a way
   the statement forbids) -- a real semantic violation, not a crash on import, not a changed error message;
2. still compiles/imports and still passes the whole existing test suite:
   `cd %(wt)s && PYTHONPATH=%(wt)s /venv/bin/python -m pytest -q -p no:cacheprovider -n 4 --deselect tests/utils/test_subgraph.py::test_subgraph --deselect tests/utils/test_subgraph.py::test_subvalue`
   must report `398 passed` (the two deselected tests fail on the unchanged tree already);
3. comes with `demo.py`, a small stand-alone program (only the library, numpy, stdlib) that exits 0 on the UNCHANGED library
   and exits non-zero (failed assert with a telling message) with your change. The demo must use only valid, documented inputs
   that the statement covers, and must judge by the statement (e.g. compare with brute force / exact arithmetic), not by
   comparing with hard-coded library output. Locate the library through PYTHONPATH, never by absolute path.

%(style)s

Stay inside what the unchanged library supports: the demo must pass on the unchanged tree. Do not rely on: labels that are
equal across types inside ONE model (1 / True / 1.0), user labels starting with `__a`, labels Python cannot order within one
key, NaN coefficients, user mappings that are not bijections onto 0..n-1 over exactly the model's variables.

Mechanisms ALREADY USED by earlier rounds for this property -- do something genuinely different from every one of them
(a different code site or a different trigger, not a variation):

%(taken)s

## Deliverables

For change k = 1..%(n)d create the directory `%(base)s/_seed<k>/` containing
- `patch.diff` -- `git diff` of the library for THIS change alone against the worktree's HEAD (apply with `patch -p1`);
- `demo.py` -- as above;
- `notes.md` -- 5-15 lines: which clause of the statement is broken, exactly what is needed for it to manifest (the trigger),
  why the existing tests do not notice, and the name you suggest (short-kebab-case).
Work on one change at a time: make the edit, run the suite, run the demo, write `git diff > patch.diff`, then
`git checkout -- .` (and rebuild the extension if you touched C) BEFORE starting the next change, so that every patch is
independent. Verify for each: demo exits 0 without the patch, non-zero with it, suite passes with it.
Finish with a short list: name, files touched, trigger, verified (yes/no).
""" % dict(wt=wt, base=base, id=prop["id"], title=prop["title"], statement=prop["statement"],
           quant=prop["quantifier"]["text"] + " (over: " + ", ".join(prop["quantifier"]["over"]) + ")",
           why=prop["why_tests_cant"], anchors=json.dumps(prop["anchors"]), n=a.n, style=STYLE[a.style], taken="\n".join(taken))
open(os.path.join(base, "BRIEF.md"), "w").write(brief)
print(os.path.join(base, "BRIEF.md"), len(brief), "bytes;", len(taken), "earlier mechanisms listed")
