#!/usr/bin/env python3
"""Scratch area + brief for a sub-agent that writes PROPERTY-PRESERVING changes (false-alarm probes for the checks): it gets
the text of all properties, a scratch worktree and an area of the code base, and is asked for changes that alter internals or
observable details the statements leave open while every statement stays true and the repository suite stays green. The checks
must stay silent on every such change; an alarm is either the sub-agent's mistake (shown by a concrete counterexample to a
statement) or an oracle that demands more than the statement.

  tools/mkbrief_preserve.py <round-dir under /tmp> <AREA-NAME> --files f1 f2 ... [--n 4]
"""
import argparse, json, os, subprocess
HERE = os.path.dirname(os.path.dirname(os.path.abspath(__file__)))
ap = argparse.ArgumentParser()
ap.add_argument("root"); ap.add_argument("area"); ap.add_argument("--files", nargs="+", required=True); ap.add_argument("--n", type=int, default=4)
ap.add_argument("--prefix", default="", help="list the notes of preserving/<prefix>* as already made (do something different)")
a = ap.parse_args()
base = os.path.join(a.root, a.area); wt = os.path.join(base, "wt")
os.makedirs(base, exist_ok=True)
if not os.path.isdir(wt):
    subprocess.run(["git", "-C", "/repo", "worktree", "add", "--detach", wt, "HEAD"], check=True, capture_output=True)
    subprocess.run(["/venv/bin/python", "setup.py", "-q", "build_ext", "--inplace"], cwd=wt, check=True, capture_output=True)
props = []
for l in open(os.path.join(HERE, "properties.jsonl")):
    d = json.loads(l)
    props.append("**%s -- %s**\n%s\n(Quantified over: %s)" % (d["id"], d["title"], d["statement"], d["quantifier"]["text"]))
import glob
taken = []
if a.prefix:
    for f in sorted(glob.glob(os.path.join(HERE, "preserving", a.prefix + "*", "meta.json"))):
        taken.append("- " + os.path.basename(os.path.dirname(f)).replace(a.prefix, "", 1).lstrip("-"))
TAKEN = ("\nChanges of this kind that were ALREADY made for this area (do something different from each, at other code sites):\n\n" + "\n".join(taken) + "\n") if taken else ""
brief = """# Task: behaviour-preserving / specification-preserving changes to jtiosue/qubovert

You work ONLY inside `%(wt)s` (a scratch git worktree of the library; python is `/venv/bin/python`, run things with
`cd %(wt)s && PYTHONPATH=%(wt)s /venv/bin/python ...`; the C extension is built in place -- after editing a `.c`/`.h` file run
`/venv/bin/python setup.py -q build_ext --inplace` there). Do not touch `/repo` or `/verif`, do not read `/verif`. No network.

Below are 19 semantic properties ("statements") that users of the library rely on. Somebody else maintains checkers for them.
Your job is to write changes to the library that a maintainer could plausibly make and that keep EVERY one of the 19 statements
true (for every input they quantify over) and keep the existing test suite green -- but that DO change something: internal
structure, algorithms, evaluation / iteration / insertion order, caching (correctly invalidated), helper signatures, private
attribute names, intermediate types, which of several equally valid answers is returned, the exact form of a penalty or a
reduction where the statement only constrains its properties, numeric paths that give the same exact results, error-message
texts, the order or naming of internal ancillas within what the statements allow, C-level memory layout / allocation pattern /
loop structure, and so on. Prefer changes whose effect is OBSERVABLE from outside (a different but equally valid output for
some input) over pure renamings; those are the valuable ones. At least half of your changes must be observable ones.

Restrict your edits to this area of the code base: %(files)s
%(taken)s
Rules:
1. Every statement below must still hold after your change, for everything it quantifies over. Think hard about each statement
   the touched code participates in; if you are not sure a statement survives, do not make that change. Documented public
   behaviour that the statements do not mention but the docstrings promise should also stay (keep documented signatures,
   documented return types and documented exceptions).
2. `cd %(wt)s && PYTHONPATH=%(wt)s /venv/bin/python -m pytest -q -p no:cacheprovider -n 4 --deselect tests/utils/test_subgraph.py::test_subgraph --deselect tests/utils/test_subgraph.py::test_subvalue`
   must report `398 passed` with your change (the two deselected tests fail on the unchanged tree already).
3. Produce %(n)d DIFFERENT, independent changes. For change k create `%(base)s/_keep<k>/` with
   - `patch.diff`: `git diff` of the library for THIS change alone against the worktree's HEAD (applies with `patch -p1`);
   - `demo.py`: a small stand-alone program (library, numpy, stdlib; library located through PYTHONPATH) that exercises the
     changed code on a few dozen random inputs and asserts the relevant statements by brute force / exact arithmetic -- it must
     exit 0 both WITHOUT and WITH your change; if the change is observable it also prints one line
     `OBSERVABLE: <what differs>` showing a concrete output that differs from the unchanged library's (hard-code the old value);
   - `notes.md`: 5-15 lines: what changed, what is observable, and for each statement the touched code takes part in, why it
     still holds; suggest a short-kebab-case name.
   Work on one change at a time: edit, run the suite, run the demo, `git diff > patch.diff`, then `git checkout -- .` (rebuild the
   extension if you touched C) before the next one.
Finish with a short list: name, files touched, observable or not, suite result, demo result with and without.

## The 19 statements

%(props)s
""" % dict(wt=wt, base=base, n=a.n, files=", ".join(a.files), taken=TAKEN, props="\n\n".join(props))
open(os.path.join(base, "BRIEF.md"), "w").write(brief)
print(os.path.join(base, "BRIEF.md"), len(brief), "bytes")
