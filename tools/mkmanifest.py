#!/usr/bin/env python3
"""Regenerate MANIFEST.json from the property modules that exist (keeps it valid at all times)."""
import json, os, subprocess, sys
HERE = os.path.dirname(os.path.dirname(os.path.abspath(__file__)))
sys.path.insert(0, HERE)
TECH = {
 "C01": "runtime contract on to_qubo/to_quso/to_pubo/to_puso: full truth-table oracle (n+a<=18) + online trace checker over the H1 reduction certificate (any size)",
 "C02": "runtime monitor on add_constraint_*_zero: before/after difference checked on full truth tables against an independent relation evaluator, over constraint histories",
 "C03": "same monitor as C02 on spin tables plus ancilla-name/num_ancillas history invariants",
 "C04": "runtime contracts on conversions/exports compared with an exact multilinear reference model (polynomial identity)",
 "C05": "lock-step differential monitor on every operator application of random expression programs against exact polynomial arithmetic, with a repeated application after removal-only in-place edits",
 "C06": "runtime monitor on the sixteen logical constraint methods: truth-table oracle with an independent boolean evaluator",
 "C07": "runtime monitor on sat expression trees: Moebius transform of the tree's truth table versus the returned model (exact)",
 "C08": "end-to-end monitor: reference constrained optimum versus every arg-min row of the five produced forms mapped through the real convert_solution",
 "C09": "runtime contract on the brute-force solvers against independent enumeration, input snapshots, second solve of the same object after in-place edits",
 "C10": "runtime monitor on the seven problem classes against independent brute-force problem definitions and full QUBO/QUSO tables",
 "C11": "runtime contract on anneal_* results (well-formedness, value==model(state), best) over generated configurations",
 "C12": "determinism across processes + T=0 reference sweep + chi-square against the exact k-step Metropolis chain + in-kernel dE invariant (H2 hook)",
 "C13": "model-based history monitor: every AnnealResults operation mirrored on a plain-list shadow, invariant checked after each step",
 "C14": "history monitor: bookkeeping invariants at the client boundary after every edit, refresh exactness, label discipline of produced forms",
 "C15": "runtime contract on approximate_*_extrema and anneal_temperature_range against exact truth-table extrema, plus a second look after in-place edits of the same object",
 "C16": "differential monitor: symbolic build + subs versus numeric build, per constraint branch, continued through a second round (update / further constraint, subs again)",
 "C17": "ASan+UBSan build of the working tree's C sources driven through the Python API in hostile call histories (per-call report attribution), boundary precondition contract on c_anneal_*, in-kernel bounds assertions (H2), libFuzzer+ASan+UBSan harness on the kernels with in-harness oracles, leak probe, threads probe (seeded calls from 4 threads compared with the serial results), second kernel call on the same object after clear()/refresh()+growth, valgrind memcheck subset (thorough), canaries",
 "C18": "runtime contracts on subvalue/subgraph/normalize against exact substitution in the reference model, repeated on the same object after in-place edits",
 "C19": "deep-snapshot argument-immutability and aliasing monitor attached to the API while all other workloads run; info round-trip contract",
}
LEVEL_TEXT = ("Runtime monitoring: the real code is executed on generated, hostile inputs/histories while an oracle "
              "independent of the library checks every monitored call; the verdict is 'held on the K executions listed in the "
              "evidence', never 'verified'. Universally quantified functional statements cannot be enumerated; exploration "
              "with observation floors per input class is the strongest level this technique family offers.")
NOTE = ("Trusted: qvmon/ref.py (exact multilinear polynomials, numpy truth tables; self-tested in setup_cmd), the seeded "
        "generators' input classes (labels, coefficient sets, sizes listed in evidence.rule), CPython/numpy; for C17 also clang's "
        "sanitizer runtimes and valgrind. Inputs outside the generated classes are not covered.")
props = [json.loads(l) for l in open(os.path.join(HERE, "properties.jsonl"))]
checks, na = [], []
NA_REASON = {}
for p in props:
    pid = p["id"]
    if os.path.isfile(os.path.join(HERE, "qvmon", "props", pid.lower() + ".py")):
        checks.append({
            "property_id": pid,
            "quick_cmd": "./check %s --tier quick" % pid,
            "thorough_cmd": "./check %s --tier thorough" % pid,
            "evidence_file": "evidence/%s.json" % pid,
            "replay_cmd_template": "./check %s --replay {path}" % pid,
            "engine": "qvmon",
            "level_claimed": {"category": "exploration", "text": LEVEL_TEXT, "design_ref": "DESIGN.md section 4 (%s)" % pid},
            "level_note": NOTE,
            "technique": TECH[pid],
        })
    else:
        na.append({"property_id": pid, "reason": NA_REASON.get(pid, "check not built yet in this round (runtime monitor planned, DESIGN.md section 4); not claimed until it exists")})
hooks_commits = []
hc = os.path.join(HERE, "hooks_commits.txt")
if os.path.isfile(hc):
    hooks_commits = [l.split()[0] for l in open(hc) if l.strip()]
man = {
 "version": 1,
 "setup_cmd": "./check --selftest",
 "hooks": {
   "guard": "JTIOSUE_QUBOVERT_VERIF",
   "enable": "Python hook: the checks set JTIOSUE_QUBOVERT_VERIF=1 in the environment before importing qubovert from /repo's working tree. C hooks: the checks compile /repo/qubovert/sim/_canneal.c and src/*.c with clang -DJTIOSUE_QUBOVERT_VERIF=1 (plus -fsanitize=address,undefined for C17) into a run-local temporary directory and inject the module as qubovert.sim._canneal before importing qubovert; setup.py never defines the macro.",
   "baseline_off_cmd": "cd /repo && env -u JTIOSUE_QUBOVERT_VERIF /venv/bin/python -m pytest -ra -q -p no:cacheprovider --timeout=900 --continue-on-collection-errors",
   "source_commits": hooks_commits,
   "add_only": True,
 },
 "engines": [{"name": "qvmon", "path": "qvmon/", "serves_properties": [c["property_id"] for c in checks],
              "kind_free_text": "runtime monitors (contracts attached from the harness, history/trace checkers, sanitizer drivers) over seeded generated workloads; launcher ./check"}],
 "checks": checks,
 "not_applicable": na,
 "notes": "exit 0 held / 1 violation / 2 inconclusive (never folded). VERIF_SEED and VERIF_TIER honoured. Known findings: known_findings.json.",
}
json.dump(man, open(os.path.join(HERE, "MANIFEST.json"), "w"), indent=1)
print("checks:", [c["property_id"] for c in checks], "not_applicable:", [x["property_id"] for x in na])
