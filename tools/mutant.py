#!/usr/bin/env python3
"""Apply one change to a scratch copy of /repo (outside /repo and /verif), optionally run the
repository's own tests there, run the named checks against the copy, remove the copy.

  tools/mutant.py --name N (--sub FILE OLD NEW | --patch P.diff) [--tests "tests/test_pcbo.py ..."|all] -- C02 C08
Prints one line per step; exit 0 iff every named check exits 1 (caught).
"""
import argparse, os, shutil, subprocess, sys, tempfile
HERE = os.path.dirname(os.path.dirname(os.path.abspath(__file__)))
ap = argparse.ArgumentParser()
ap.add_argument("--name", required=True)
ap.add_argument("--sub", nargs=3, action="append", default=[])
ap.add_argument("--patch")
ap.add_argument("--tests", default=None)
ap.add_argument("--tier", default="quick")
ap.add_argument("--seed", default="0")
ap.add_argument("checks", nargs="*")
a = ap.parse_args()
work = tempfile.mkdtemp(prefix="qv-mut-", dir="/var/tmp")
copy = os.path.join(work, "repo"); out = os.path.join(work, "out")
try:
    subprocess.run(["rsync", "-a", "--exclude", ".git", "--exclude", "__pycache__", "--exclude", "docs", "--exclude", "notebook_examples", "/repo/", copy + "/"], check=True)
    for f, old, new in a.sub:
        p = os.path.join(copy, f); s = open(p).read()
        if s.count(old) != 1:
            print("[%s] PATCH FAILED: %d occurrences of %r in %s" % (a.name, s.count(old), old, f)); sys.exit(3)
        open(p, "w").write(s.replace(old, new))
    if a.patch:
        r = subprocess.run(["patch", "-p1", "-d", copy, "-i", os.path.abspath(a.patch)], capture_output=True, text=True)
        if r.returncode:
            print("[%s] PATCH FAILED: %s" % (a.name, r.stdout[-300:] + r.stderr[-300:])); sys.exit(3)
    csrc = any(f.endswith(".c") or f.endswith(".h") for f, _, _ in a.sub) or (a.patch and ".c" in open(a.patch).read())
    if a.tests:
        if csrc:
            subprocess.run(["/venv/bin/python", "setup.py", "-q", "build_ext", "--inplace"], cwd=copy, capture_output=True)
        t = [] if a.tests == "all" else a.tests.split()
        env = dict(os.environ); env.pop("JTIOSUE_QUBOVERT_VERIF", None); env["PYTHONPATH"] = copy
        r = subprocess.run(["/venv/bin/python", "-m", "pytest", "-q", "-p", "no:cacheprovider", "-n", "16", "-x",
                            "--deselect", "tests/utils/test_subgraph.py::test_subgraph", "--deselect", "tests/utils/test_subgraph.py::test_subvalue"] + t,
                           cwd=copy, env=env, capture_output=True, text=True)
        tail = r.stdout.strip().splitlines()[-1] if r.stdout.strip() else r.stderr[-200:]
        print("[%s] repo tests: %s" % (a.name, tail))
    allcaught = True
    for c in a.checks:
        env = dict(os.environ); env["QV_REPO"] = copy; env["QV_OUT"] = out; env["VERIF_SEED"] = a.seed
        r = subprocess.run([os.path.join(HERE, "check"), c, "--tier", a.tier], env=env, capture_output=True, text=True)
        lines = r.stdout.strip().splitlines()
        viol = [l for l in lines if l.startswith("VIOLATION")]
        tags = sorted({l.split("tag=")[1].split(" ::")[0] for l in viol if "tag=" in l})
        print("[%s] %s exit=%d violations=%d tags=%s | %s" % (a.name, c, r.returncode, len(viol), tags[:6], lines[-1][:160] if lines else r.stderr[-200:]))
        allcaught &= r.returncode == 1
    sys.exit(0 if allcaught else 1)
finally:
    shutil.rmtree(work, ignore_errors=True)
