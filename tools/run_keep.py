#!/usr/bin/env python3
"""False-alarm probe: apply a PROPERTY-PRESERVING change (written by a sub-agent that was given the statements and asked to keep
all of them true, see tools/mkbrief_preserve.py) to a scratch copy of /repo, confirm the repository suite and the change's own
demo still pass, and run the named quick checks against the copy. Every check must exit 0: an alarm is either a mistake of the
sub-agent (to be shown by a concrete counterexample to a statement) or an oracle demanding more than its statement.

  tools/run_keep.py <dir with patch.diff demo.py notes.md> <name> --checks C01 C04 ... [--keep]
With --keep the change is stored under preserving/<name>/ with a meta.json recording the verdicts."""
import argparse, json, os, shutil, subprocess, sys, tempfile
HERE = os.path.dirname(os.path.dirname(os.path.abspath(__file__)))
ap = argparse.ArgumentParser()
ap.add_argument("src"); ap.add_argument("name"); ap.add_argument("--checks", nargs="+", required=True)
ap.add_argument("--keep", action="store_true"); ap.add_argument("--seed", default="0"); ap.add_argument("--tier", default="quick")
ap.add_argument("--skip-suite", action="store_true")
a = ap.parse_args()
work = tempfile.mkdtemp(prefix="qv-keep-", dir="/var/tmp"); copy = os.path.join(work, "repo")
log = {}; res = {}
try:
    subprocess.run(["rsync", "-a", "--exclude", ".git", "--exclude", "__pycache__", "--exclude", "docs", "--exclude", "notebook_examples", "/repo/", copy + "/"], check=True)
    patch = os.path.join(a.src, "patch.diff")
    r = subprocess.run(["patch", "-p1", "-s", "-d", copy, "-i", patch], capture_output=True, text=True)
    if r.returncode:
        print(a.name, "PATCH FAILED", r.stdout[-300:]); sys.exit(3)
    if any(l.startswith("+++") and (".c" in l or ".h" in l) for l in open(patch)):
        subprocess.run(["/venv/bin/python", "setup.py", "-q", "build_ext", "--inplace"], cwd=copy, capture_output=True)
    env = dict(os.environ); env.pop("JTIOSUE_QUBOVERT_VERIF", None); env["PYTHONPATH"] = copy
    if not a.skip_suite:
        r = subprocess.run(["/venv/bin/python", "-m", "pytest", "-q", "-p", "no:cacheprovider", "-n", "8", "--deselect", "tests/utils/test_subgraph.py::test_subgraph",
                            "--deselect", "tests/utils/test_subgraph.py::test_subvalue"], cwd=copy, env=env, capture_output=True, text=True)
        log["repo_tests_with_change"] = (r.stdout.strip().splitlines() or ["?"])[-1]
    r = subprocess.run(["/venv/bin/python", os.path.join(a.src, "demo.py")], cwd=copy, env=env, capture_output=True, text=True, timeout=1800)
    log["demo_with_change_rc"] = r.returncode
    log["observable"] = [l for l in r.stdout.splitlines() if l.startswith("OBSERVABLE")][:2]
    for c in a.checks:
        e = dict(os.environ); e.update(QV_REPO=copy, QV_OUT=os.path.join(work, "out"), VERIF_SEED=a.seed)
        r = subprocess.run([os.path.join(HERE, "check"), c, "--tier", a.tier], env=e, capture_output=True, text=True)
        lines = r.stdout.strip().splitlines()
        tags = sorted({l.split("tag=")[1].split(" ::")[0] for l in lines if l.startswith("VIOLATION") and "tag=" in l})
        res[c] = {"exit": r.returncode, "tags": tags[:6]}
        if r.returncode:
            os.makedirs("/var/tmp/keep-alarms", exist_ok=True)
            open("/var/tmp/keep-alarms/%s-%s.log" % (a.name, c), "w").write(r.stdout[-20000:] + r.stderr[-3000:])
            rp = os.path.join(work, "out")
            if os.path.isdir(rp):
                shutil.copytree(rp, "/var/tmp/keep-alarms/%s-%s-out" % (a.name, c), dirs_exist_ok=True)
    alarms = {c: v for c, v in res.items() if v["exit"] != 0}
    print("%-55s suite=%s demo=%s %s" % (a.name, log.get("repo_tests_with_change", "-")[:12], log["demo_with_change_rc"],
                                          "SILENT" if not alarms else "ALARM " + json.dumps(alarms)), flush=True)
    if a.keep:
        dest = os.path.join(HERE, "preserving", a.name); os.makedirs(dest, exist_ok=True)
        for f in ("patch.diff", "demo.py", "notes.md"):
            if os.path.isfile(os.path.join(a.src, f)):
                shutil.copy(os.path.join(a.src, f), os.path.join(dest, f))
        json.dump({"kind": "property-preserving change (false-alarm probe)", "source": "independent sub-agent given the 19 statements and a scratch worktree",
                   "confirmed": log, "checks_run": res, "tier": a.tier, "seed": a.seed, "silent": not alarms}, open(os.path.join(dest, "meta.json"), "w"), indent=1)
finally:
    shutil.rmtree(work, ignore_errors=True)
