#!/usr/bin/env python3
"""Regression over the seeded catalogue: apply each seeded/<name>/patch.diff to a scratch copy of /repo (under /var/tmp,
removed afterwards), run the checks listed in its meta.json ("caught_by") against the copy and report which still fire.

  tools/run_seeded.py [--tier quick] [--seeds 0,1] [--only NAME_SUBSTR] [--jobs 4]
Exit 0 iff every seeded change is caught by at least one check for every seed."""
import argparse, glob, json, os, shutil, subprocess, sys, tempfile
from concurrent.futures import ThreadPoolExecutor
HERE = os.path.dirname(os.path.dirname(os.path.abspath(__file__)))
ap = argparse.ArgumentParser()
ap.add_argument("--tier", default="quick"); ap.add_argument("--seeds", default="0"); ap.add_argument("--only", default="")
ap.add_argument("--jobs", type=int, default=4); ap.add_argument("--all-checks", action="store_true")
ap.add_argument("--start-at", default="", help="skip the seeds that sort before this name (to resume an interrupted run)")
ap.add_argument("--update-meta", action="store_true", help="record this run in each meta.json (a change that no check caught when it was first tried keeps that fact in missed_when_first_tried)")
a = ap.parse_args()
metas = sorted(glob.glob(os.path.join(HERE, "seeded", "*", "meta.json")))
metas = [m for m in metas if a.only in m and os.path.basename(os.path.dirname(m)) >= a.start_at]


def one(mpath):
    d = os.path.dirname(mpath); name = os.path.basename(d); meta = json.load(open(mpath))
    work = tempfile.mkdtemp(prefix="qv-seeded-", dir="/var/tmp"); copy = os.path.join(work, "repo")
    out = []
    try:
        subprocess.run(["rsync", "-a", "--exclude", ".git", "--exclude", "__pycache__", "--exclude", "docs", "--exclude", "notebook_examples", "/repo/", copy + "/"], check=True)
        r = subprocess.run(["patch", "-p1", "-s", "-d", copy, "-i", os.path.join(d, "patch.diff")], capture_output=True, text=True)
        if r.returncode:
            return name, [("PATCH-FAILED", "", 3, [])]
        checks = meta.get("caught_by") or [meta["property"]]
        if a.all_checks:
            checks = sorted(set(checks) | {meta["property"]})
        for c in checks:
            for seed in a.seeds.split(","):
                e = dict(os.environ); e.update(QV_REPO=copy, QV_OUT=os.path.join(work, "out"), VERIF_SEED=seed, QV_JOBS="8")
                r = subprocess.run([os.path.join(HERE, "check"), c, "--tier", meta.get("check_tier", a.tier)], env=e, capture_output=True, text=True)
                tags = sorted({l.split("tag=")[1].split(" ::")[0] for l in r.stdout.splitlines() if l.startswith("VIOLATION") and "tag=" in l})
                out.append((c, seed, r.returncode, tags[:4]))
    finally:
        shutil.rmtree(work, ignore_errors=True)
    return name, out


bad = []
with ThreadPoolExecutor(a.jobs) as ex:
    for name, res in ex.map(one, metas):
        by_seed = {}
        for c, seed, rc, tags in res:
            by_seed.setdefault(seed, []).append(rc == 1)
        ok = all(any(v) for v in by_seed.values()) and bool(res)
        print("%-55s %s  %s" % (name, "CAUGHT" if ok else "MISSED", " ".join("%s@%s=%s" % (c, s, rc) for c, s, rc, _ in res)), flush=True)
        if not ok:
            bad.append(name)
        if a.update_meta and res and res[0][0] != "PATCH-FAILED":
            mp = os.path.join(HERE, "seeded", name, "meta.json")
            meta = json.load(open(mp))
            if not meta.get("caught_by") and "missed_when_first_tried" not in meta:
                meta["missed_when_first_tried"] = True
            meta["checks_run"] = {"%s@seed%s" % (c, s): {"exit": rc, "tags": tags} for c, s, rc, tags in res}
            meta["caught_by"] = sorted({c for c, s, rc, tags in res if rc == 1})
            meta["tier"] = meta.get("check_tier", a.tier)
            json.dump(meta, open(mp, "w"), indent=1)
print("seeded changes: %d, missed: %s" % (len(metas), bad))
sys.exit(1 if bad else 0)
