#!/usr/bin/env python3
"""Markdown table of the seeded catalogue from seeded/*/meta.json (used for DESIGN.md section 13)."""
import glob, json, os
HERE = os.path.dirname(os.path.dirname(os.path.abspath(__file__)))
print("| Seeded change | property | needs to manifest | caught by (first tags) |")
print("|---|---|---|---|")
for f in sorted(glob.glob(os.path.join(HERE, "seeded", "*", "meta.json"))):
    m = json.load(open(f)); name = os.path.basename(os.path.dirname(f))
    parts = []
    for c in m["caught_by"]:
        tags = []
        for k, v in m["checks_run"].items():
            if k.startswith(c + "@") and v["exit"] == 1:
                tags = v["tags"][:2]
        parts.append("%s (%s)" % (c, ", ".join("`%s`" % t for t in tags)))
    print("| %s | %s | %s | %s |" % (name, m["property"], m["needs_to_manifest"].replace("|", "/"), "; ".join(parts) or "**none**"))
