#!/usr/bin/env python3
"""Run only the repository-suite-under-monitors part of a thorough check: tools/suite_only.py C05 [C14 ...]"""
import os, sys, tempfile, shutil, json
HERE = os.path.dirname(os.path.dirname(os.path.abspath(__file__)))
sys.path.insert(0, HERE)
from qvmon import boot, launch
tmp = tempfile.mkdtemp(prefix="qv-suite-", dir="/var/tmp")
try:
    ext = boot.build_ext("hook", tmp)
    for pid in sys.argv[1:]:
        viol, cov, inc = launch.suite_run(pid, 0, tmp, ext, "hook")
        print(pid, "violations", len(viol), "inconclusive", inc, json.dumps(cov)[:600])
        for v in viol[:5]:
            print("  ", v.get("tag"), str(v.get("what"))[:300], v.get("witness"))
finally:
    shutil.rmtree(tmp, ignore_errors=True)
