#!/bin/bash
# tools/sweep.sh <tier> <seed>...   runs every claimed check for each seed (evidence/replays go to a scratch dir)
tier=$1; shift
cd "$(dirname "$0")/.."
out=$(mktemp -d /var/tmp/qv-sweep-XXXX)
for seed in "$@"; do
  for p in $(python3 -c "import json;print(' '.join(c['property_id'] for c in json.load(open('MANIFEST.json'))['checks']))"); do
    QV_OUT=$out VERIF_SEED=$seed ./check $p --tier $tier > $out/$p-$seed.log 2>&1
    rc=$?
    echo "seed=$seed $p rc=$rc $(tail -1 $out/$p-$seed.log | cut -c1-260)"
    if [ $rc -ne 0 ]; then grep -E "^(VIOLATION|INCONCLUSIVE|KNOWN)" $out/$p-$seed.log | head -5 | cut -c1-400; fi
  done
done
rm -rf $out
