#!/bin/bash
# tools/sweep_some.sh <tier> <seed> <ID>...   like sweep.sh for the named checks only
tier=$1; seed=$2; shift 2
cd "$(dirname "$0")/.."
out=$(mktemp -d /var/tmp/qv-sweep-XXXX)
for p in "$@"; do
  QV_OUT=$out VERIF_SEED=$seed ./check $p --tier $tier > $out/$p-$seed.log 2>&1
  rc=$?
  echo "seed=$seed $p rc=$rc $(tail -1 $out/$p-$seed.log | cut -c1-260)"
  if [ $rc -ne 0 ]; then grep -E "^(VIOLATION|INCONCLUSIVE|KNOWN)" $out/$p-$seed.log | head -5 | cut -c1-1500; fi
done
rm -rf $out
