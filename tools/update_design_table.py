#!/usr/bin/env python3
"""Replace the full catalogue table of DESIGN.md (section 13.3) by the output of tools/seeded_table.py."""
import os, subprocess
HERE = os.path.dirname(os.path.dirname(os.path.abspath(__file__)))
p = os.path.join(HERE, "DESIGN.md")
s = open(p).read()
head = "| Seeded change | property | needs to manifest | caught by (first tags) |"
i = s.index(head)
j = s.index("\nHand-written mutants used while building")
tab = subprocess.run(["python3", os.path.join(HERE, "tools", "seeded_table.py")], capture_output=True, text=True).stdout
tab = "\n".join(l for l in tab.splitlines() if l.startswith("|"))
open(p, "w").write(s[:i] + tab + "\n" + s[j:])
print(len(tab.splitlines()) - 2, "rows")
